CONSTANTS Alpha = {0, 1, 5, 7, 8, 16, 24, 28, 60, 96, 98, 100, 101, 127, 128, 129, 144, 160, 192, 200, 224, 248, 255}
