-------------------------------- MODULE H265 --------------------------------
(* C14: RFC 7798 payload structures for HEVC, written from the RFC figures. *)
(*   NAL unit header (16 bit): F(1) Type(6) LayerId(6) TID(3)               *)
(*   single NAL unit packet:  PayloadHdr [DONL(16)] payload                 *)
(*   aggregation packet (48): PayloadHdr { [DONL(16) | DOND(8)] size(16) NALU }+ *)
(*   fragmentation unit (49): PayloadHdr FUhdr(S E FuType(6)) [DONL(16) iff S] payload *)
(*   PACI (50): PayloadHdr A(1) cType(6) PHSsize(5) F0 F1 F2 Y PHES payload; *)
(*              TSCI (F0 = 1): TL0PICIDX(8) IrapPicID(8) S E RES(6)         *)
(* donl (BOOLEAN) says whether decoding-order fields are in use.            *)
EXTENDS Bytes, TLC

Hdr16(f, t, layer, tid) == f * 32768 + t * 512 + layer * 8 + tid
HdrBytes(h) == BE16(h)
HType(h) == (h \div 512) % 64
HF(h) == h \div 32768
HLayer(h) == (h \div 8) % 64
HTid(h) == h % 8
UnitHdr(u) == U16(u, 1)

\* ---- reference encoders (independent of the library) ----
Single(u, donl, don) == Take(u, 2) \o (IF donl THEN BE16(don) ELSE <<>>) \o Drop(u, 2)
MinOf(s) == CHOOSE x \in {s[i] : i \in 1..Len(s)} : \A i \in 1..Len(s) : x <= s[i]
AP(units, donl, don, donds) ==
  LET layers == [i \in 1..Len(units) |-> HLayer(UnitHdr(units[i]))]
      tids == [i \in 1..Len(units) |-> HTid(UnitHdr(units[i]))]
  IN HdrBytes(Hdr16(0, 48, MinOf(layers), MinOf(tids)))
     \o Flatten([i \in 1..Len(units) |->
           (IF donl THEN (IF i = 1 THEN BE16(don) ELSE <<donds[i - 1]>>) ELSE <<>>) \o BE16(Len(units[i])) \o units[i]])
\* FU fragments of unit u at cut offsets into its payload (u without the 2 header bytes)
FU(u, cuts, donl, don) ==
  LET h == UnitHdr(u)  body == Drop(u, 2)  n == Len(cuts) - 1 IN
  [k \in 1..n |-> HdrBytes(Hdr16(HF(h), 49, HLayer(h), HTid(h)))
                  \o <<(IF k = 1 THEN 128 ELSE 0) + (IF k = n THEN 64 ELSE 0) + HType(h)>>
                  \o (IF donl /\ k = 1 THEN BE16(don) ELSE <<>>)
                  \o Slice(body, cuts[k] + 1, cuts[k + 1])]
PACI(h, a, ctype, f0, f1, f2, y, phes, payload) ==
  HdrBytes(h) \o <<a * 128 + ctype * 2 + Len(phes) \div 16, (Len(phes) % 16) * 16 + f0 * 8 + f1 * 4 + f2 * 2 + y>> \o phes \o payload

\* ---- reference parser: the field values H265Packet and its accessors must report ----
RECURSIVE APUnits(_, _, _, _)
APUnits(p, i, donl, acc) ==    \* i: 1-based index of the next unit's first byte; strict (every byte consumed)
  IF i = Len(p) + 1 THEN [ok |-> TRUE, units |-> acc]
  ELSE LET off == IF donl THEN 1 ELSE 0 IN
    IF i + off + 1 > Len(p) THEN [ok |-> FALSE, units |-> acc]
    ELSE LET n == U16(p, i + off) IN
      IF i + off + 1 + n > Len(p) THEN [ok |-> FALSE, units |-> acc]
      ELSE APUnits(p, i + off + 2 + n, donl, Append(acc, [dond |-> IF donl THEN p[i] ELSE 0 - 1, size |-> n, nal |-> Slice(p, i + off + 2, i + off + 1 + n)]))
RefParse(p, donl) ==
  IF Len(p) < 3 THEN [ok |-> FALSE]
  ELSE LET h == U16(p, 1)  t == HType(h) IN
    IF HF(h) = 1 THEN [ok |-> FALSE]
    ELSE IF t = 48 THEN
      LET off == IF donl THEN 2 ELSE 0 IN
      IF Len(p) < 2 + off + 2 THEN [ok |-> FALSE]
      ELSE LET n == U16(p, 3 + off) IN
        IF 4 + off + n > Len(p) THEN [ok |-> FALSE]
        ELSE LET rest == APUnits(p, 5 + off + n, donl, <<>>) IN
          IF ~rest.ok \/ rest.units = <<>> THEN [ok |-> FALSE]
          ELSE [ok |-> TRUE, m |-> [type |-> "ap", first |-> [donl |-> IF donl THEN U16(p, 3) ELSE 0 - 1, size |-> n, nal |-> Slice(p, 5 + off, 4 + off + n)],
                                   others |-> rest.units]]
    ELSE IF t = 49 THEN
      IF Len(p) < 4 THEN [ok |-> FALSE]
      ELSE LET s == p[3] >= 128  off == IF donl /\ s THEN 2 ELSE 0 IN
        IF Len(p) < 3 + off + 1 THEN [ok |-> FALSE]
        ELSE [ok |-> TRUE, m |-> [type |-> "fu", hdr |-> h, fu |-> p[3], donl |-> IF off = 2 THEN U16(p, 4) ELSE 0 - 1, payload |-> Drop(p, 3 + off)]]
    ELSE IF t = 50 THEN
      IF Len(p) < 5 THEN [ok |-> FALSE]
      ELSE LET w == U16(p, 3)  phs == (w \div 16) % 32 IN
        IF Len(p) < 4 + phs + 1 THEN [ok |-> FALSE]
        ELSE LET phes == Slice(p, 5, 4 + phs)  f0 == (w \div 8) % 2 = 1 IN
          [ok |-> TRUE, m |-> [type |-> "paci", hdr |-> h, A |-> w >= 32768, cType |-> (w \div 512) % 64, PHSsize |-> phs, F0 |-> f0,
                               F1 |-> (w \div 4) % 2 = 1, F2 |-> (w \div 2) % 2 = 1, Y |-> w % 2 = 1, phes |-> phes, payload |-> Drop(p, 4 + phs),
                               tsci |-> IF f0 /\ phs >= 3 THEN [present |-> TRUE, tl0 |-> phes[1], irap |-> phes[2], s |-> phes[3] >= 128, e |-> (phes[3] \div 64) % 2 = 1, res |-> phes[3] % 64]
                                        ELSE [present |-> FALSE, tl0 |-> 0, irap |-> 0, s |-> FALSE, e |-> FALSE, res |-> 0]]]
    ELSE
      LET off == IF donl THEN 2 ELSE 0 IN
      IF Len(p) < 2 + off + 1 THEN [ok |-> FALSE]
      ELSE [ok |-> TRUE, m |-> [type |-> "single", hdr |-> h, donl |-> IF donl THEN U16(p, 3) ELSE 0 - 1, payload |-> Drop(p, 2 + off)]]
IsHead265(p) == IF Len(p) < 3 THEN FALSE ELSE IF HType(U16(p, 1)) = 49 THEN p[3] >= 128 ELSE TRUE

\* ---- reassembly of a parsed packet stream into NAL units (RFC 7798 section 4.4) ----
\* returns [units, shape] where shape = "" or the first shape rule broken
RECURSIVE Reassemble(_, _, _, _, _)
Reassemble(ms, i, cur, acc, nfu) ==   \* cur: <<>> or the unit being rebuilt from FUs; nfu: fragments so far
  IF i > Len(ms) THEN [units |-> acc, shape |-> IF cur = <<>> THEN "" ELSE "fragmented_unit_without_end"]
  ELSE LET m == ms[i] IN
    IF m.type = "single" THEN
       (IF cur # <<>> THEN [units |-> acc, shape |-> "fragmented_unit_without_end"]
        ELSE Reassemble(ms, i + 1, <<>>, Append(acc, HdrBytes(m.hdr) \o m.payload), 0))
    ELSE IF m.type = "ap" THEN
       (IF cur # <<>> THEN [units |-> acc, shape |-> "fragmented_unit_without_end"]
        ELSE Reassemble(ms, i + 1, <<>>, acc \o <<m.first.nal>> \o [k \in 1..Len(m.others) |-> m.others[k].nal], 0))
    ELSE IF m.type = "fu" THEN
       LET s == m.fu >= 128  e == (m.fu \div 64) % 2 = 1
           hdr == HdrBytes(Hdr16(HF(m.hdr), m.fu % 64, HLayer(m.hdr), HTid(m.hdr))) IN
       IF s # (cur = <<>>) THEN [units |-> acc, shape |-> "fu_start_bit"]
       ELSE LET body == (IF s THEN hdr ELSE cur) \o m.payload IN
            IF e THEN (IF nfu = 0 THEN [units |-> acc, shape |-> "fu_single_fragment"] ELSE Reassemble(ms, i + 1, <<>>, Append(acc, body), 0))
            ELSE Reassemble(ms, i + 1, body, acc, nfu + 1)
    ELSE [units |-> acc, shape |-> "unexpected_packet_type"]
=============================================================================
