CONSTANTS Mtus = {4, 5, 6, 7, 8, 9, 10, 11, 12, 20, 1200} Stride16 = 61
