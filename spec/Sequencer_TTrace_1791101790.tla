---- MODULE Sequencer_TTrace_1791101790 ----
EXTENDS Sequencer, Sequences, TLCExt, Toolbox, Naturals, TLC

_expression ==
    LET Sequencer_TEExpression == INSTANCE Sequencer_TEExpression
    IN Sequencer_TEExpression!expression
----

_trace ==
    LET Sequencer_TETrace == INSTANCE Sequencer_TETrace
    IN Sequencer_TETrace!trace
----

_inv ==
    ~(
        TLCGet("level") = Len(_TETrace)
        /\
        issuedRoc = (<<0>>)
        /\
        lo = (0)
        /\
        pc = ((0 :> "rloop" @@ 1 :> "rel" @@ 2 :> "wrap"))
        /\
        tmp = (<<1, 2>>)
        /\
        roc = (0)
        /\
        j = (0)
        /\
        k = (<<0, 0>>)
        /\
        sn = (3)
        /\
        issued = (<<3>>)
        /\
        locked = (FALSE)
        /\
        got = (0)
        /\
        seen = (<<>>)
    )
----

_init ==
    /\ lo = _TETrace[1].lo
    /\ tmp = _TETrace[1].tmp
    /\ j = _TETrace[1].j
    /\ k = _TETrace[1].k
    /\ roc = _TETrace[1].roc
    /\ pc = _TETrace[1].pc
    /\ issued = _TETrace[1].issued
    /\ issuedRoc = _TETrace[1].issuedRoc
    /\ sn = _TETrace[1].sn
    /\ got = _TETrace[1].got
    /\ locked = _TETrace[1].locked
    /\ seen = _TETrace[1].seen
----

_next ==
    /\ \E i,j \in DOMAIN _TETrace:
        /\ \/ /\ j = i + 1
              /\ i = TLCGet("level")
        /\ lo  = _TETrace[i].lo
        /\ lo' = _TETrace[j].lo
        /\ tmp  = _TETrace[i].tmp
        /\ tmp' = _TETrace[j].tmp
        /\ j  = _TETrace[i].j
        /\ j' = _TETrace[j].j
        /\ k  = _TETrace[i].k
        /\ k' = _TETrace[j].k
        /\ roc  = _TETrace[i].roc
        /\ roc' = _TETrace[j].roc
        /\ pc  = _TETrace[i].pc
        /\ pc' = _TETrace[j].pc
        /\ issued  = _TETrace[i].issued
        /\ issued' = _TETrace[j].issued
        /\ issuedRoc  = _TETrace[i].issuedRoc
        /\ issuedRoc' = _TETrace[j].issuedRoc
        /\ sn  = _TETrace[i].sn
        /\ sn' = _TETrace[j].sn
        /\ got  = _TETrace[i].got
        /\ got' = _TETrace[j].got
        /\ locked  = _TETrace[i].locked
        /\ locked' = _TETrace[j].locked
        /\ seen  = _TETrace[i].seen
        /\ seen' = _TETrace[j].seen

\* Uncomment the ASSUME below to write the states of the error trace
\* to the given file in Json format. Note that you can pass any tuple
\* to `JsonSerialize`. For example, a sub-sequence of _TETrace.
    \* ASSUME
    \*     LET J == INSTANCE Json
    \*         IN J!JsonSerialize("Sequencer_TTrace_1791101790.json", _TETrace)

=============================================================================

 Note that you can extract this module `Sequencer_TEExpression`
  to a dedicated file to reuse `expression` (the module in the 
  dedicated `Sequencer_TEExpression.tla` file takes precedence 
  over the module `Sequencer_TEExpression` below).

---- MODULE Sequencer_TEExpression ----
EXTENDS Sequencer, Sequences, TLCExt, Toolbox, Naturals, TLC

expression == 
    [
        \* To hide variables of the `Sequencer` spec from the error trace,
        \* remove the variables below.  The trace will be written in the order
        \* of the fields of this record.
        lo |-> lo
        ,tmp |-> tmp
        ,j |-> j
        ,k |-> k
        ,roc |-> roc
        ,pc |-> pc
        ,issued |-> issued
        ,issuedRoc |-> issuedRoc
        ,sn |-> sn
        ,got |-> got
        ,locked |-> locked
        ,seen |-> seen
        
        \* Put additional constant-, state-, and action-level expressions here:
        \* ,_stateNumber |-> _TEPosition
        \* ,_loUnchanged |-> lo = lo'
        
        \* Format the `lo` variable as Json value.
        \* ,_loJson |->
        \*     LET J == INSTANCE Json
        \*     IN J!ToJson(lo)
        
        \* Lastly, you may build expressions over arbitrary sets of states by
        \* leveraging the _TETrace operator.  For example, this is how to
        \* count the number of times a spec variable changed up to the current
        \* state in the trace.
        \* ,_loModCount |->
        \*     LET F[s \in DOMAIN _TETrace] ==
        \*         IF s = 1 THEN 0
        \*         ELSE IF _TETrace[s].lo # _TETrace[s-1].lo
        \*             THEN 1 + F[s-1] ELSE F[s-1]
        \*     IN F[_TEPosition - 1]
    ]

=============================================================================



Parsing and semantic processing can take forever if the trace below is long.
 In this case, it is advised to uncomment the module below to deserialize the
 trace from a generated binary file.

\*
\*---- MODULE Sequencer_TETrace ----
\*EXTENDS Sequencer, IOUtils, TLC
\*
\*trace == IODeserialize("Sequencer_TTrace_1791101790.bin", TRUE)
\*
\*=============================================================================
\*

---- MODULE Sequencer_TETrace ----
EXTENDS Sequencer, TLC

trace == 
    <<
    ([issuedRoc |-> <<>>,lo |-> 0,pc |-> (0 :> "rloop" @@ 1 :> "loop" @@ 2 :> "loop"),tmp |-> <<0, 0>>,roc |-> 0,j |-> 0,k |-> <<0, 0>>,sn |-> 1,issued |-> <<>>,locked |-> FALSE,got |-> 0,seen |-> <<>>]),
    ([issuedRoc |-> <<>>,lo |-> 0,pc |-> (0 :> "rloop" @@ 1 :> "loop" @@ 2 :> "acq"),tmp |-> <<0, 0>>,roc |-> 0,j |-> 0,k |-> <<0, 0>>,sn |-> 1,issued |-> <<>>,locked |-> FALSE,got |-> 0,seen |-> <<>>]),
    ([issuedRoc |-> <<>>,lo |-> 0,pc |-> (0 :> "rloop" @@ 1 :> "acq" @@ 2 :> "acq"),tmp |-> <<0, 0>>,roc |-> 0,j |-> 0,k |-> <<0, 0>>,sn |-> 1,issued |-> <<>>,locked |-> FALSE,got |-> 0,seen |-> <<>>]),
    ([issuedRoc |-> <<>>,lo |-> 0,pc |-> (0 :> "rloop" @@ 1 :> "rd" @@ 2 :> "acq"),tmp |-> <<0, 0>>,roc |-> 0,j |-> 0,k |-> <<0, 0>>,sn |-> 1,issued |-> <<>>,locked |-> FALSE,got |-> 0,seen |-> <<>>]),
    ([issuedRoc |-> <<>>,lo |-> 0,pc |-> (0 :> "rloop" @@ 1 :> "rd" @@ 2 :> "rd"),tmp |-> <<0, 0>>,roc |-> 0,j |-> 0,k |-> <<0, 0>>,sn |-> 1,issued |-> <<>>,locked |-> FALSE,got |-> 0,seen |-> <<>>]),
    ([issuedRoc |-> <<>>,lo |-> 0,pc |-> (0 :> "rloop" @@ 1 :> "inc" @@ 2 :> "rd"),tmp |-> <<1, 0>>,roc |-> 0,j |-> 0,k |-> <<0, 0>>,sn |-> 1,issued |-> <<>>,locked |-> FALSE,got |-> 0,seen |-> <<>>]),
    ([issuedRoc |-> <<>>,lo |-> 0,pc |-> (0 :> "rloop" @@ 1 :> "wrap" @@ 2 :> "rd"),tmp |-> <<1, 0>>,roc |-> 0,j |-> 0,k |-> <<0, 0>>,sn |-> 2,issued |-> <<>>,locked |-> FALSE,got |-> 0,seen |-> <<>>]),
    ([issuedRoc |-> <<>>,lo |-> 0,pc |-> (0 :> "rloop" @@ 1 :> "ret" @@ 2 :> "rd"),tmp |-> <<1, 0>>,roc |-> 0,j |-> 0,k |-> <<0, 0>>,sn |-> 2,issued |-> <<>>,locked |-> FALSE,got |-> 0,seen |-> <<>>]),
    ([issuedRoc |-> <<>>,lo |-> 0,pc |-> (0 :> "rloop" @@ 1 :> "ret" @@ 2 :> "inc"),tmp |-> <<1, 2>>,roc |-> 0,j |-> 0,k |-> <<0, 0>>,sn |-> 2,issued |-> <<>>,locked |-> FALSE,got |-> 0,seen |-> <<>>]),
    ([issuedRoc |-> <<>>,lo |-> 0,pc |-> (0 :> "rloop" @@ 1 :> "ret" @@ 2 :> "wrap"),tmp |-> <<1, 2>>,roc |-> 0,j |-> 0,k |-> <<0, 0>>,sn |-> 3,issued |-> <<>>,locked |-> FALSE,got |-> 0,seen |-> <<>>]),
    ([issuedRoc |-> <<0>>,lo |-> 0,pc |-> (0 :> "rloop" @@ 1 :> "rel" @@ 2 :> "wrap"),tmp |-> <<1, 2>>,roc |-> 0,j |-> 0,k |-> <<0, 0>>,sn |-> 3,issued |-> <<3>>,locked |-> FALSE,got |-> 0,seen |-> <<>>])
    >>
----


=============================================================================

---- CONFIG Sequencer_TTrace_1791101790 ----
CONSTANTS
    N = 2
    Ops = 3
    MOD = 4
    Start = 2
    UseLock = FALSE
    Reads = 2

INVARIANT
    _inv

CHECK_DEADLOCK
    \* CHECK_DEADLOCK off because of PROPERTY or INVARIANT above.
    FALSE

INIT
    _init

NEXT
    _next

CONSTANT
    _TETrace <- _trace

ALIAS
    _expression
=============================================================================
\* Generated on Sun Oct 04 08:16:30 UTC 2026