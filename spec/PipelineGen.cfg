CONSTANTS Mtus = {64, 100, 1200} Sizes = {10, 51, 52, 53, 88, 200}
