SPECIFICATION Spec
CONSTANT Rich = FALSE
INVARIANTS DecodeInvertsDesc TruncatedRefused RefSatisfiesContract
CHECK_DEADLOCK FALSE
