SPECIFICATION Spec
CONSTANTS Prop = "C03"
POSTCONDITION Done
CHECK_DEADLOCK FALSE
