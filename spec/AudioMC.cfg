SPECIFICATION MCSpec
CONSTANTS MaxLen = 70 MaxMtu = 24
INVARIANTS RefIsValid RefLensValid ShiftedIsInvalid
CHECK_DEADLOCK FALSE
