SPECIFICATION Spec
CONSTANTS N = 2 Ops = 3 MOD = 4 Start = 2 UseLock = TRUE Reads = 2
INVARIANTS Consecutive NoDuplicateWithinWindow RocExact Monotone ReadsLinearizable AllDone
PROPERTIES RocNeverDecreases
CHECK_DEADLOCK FALSE
