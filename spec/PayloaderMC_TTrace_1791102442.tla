---- MODULE PayloaderMC_TTrace_1791102442 ----
EXTENDS Sequences, TLCExt, Toolbox, Naturals, TLC, PayloaderMC_TEConstants, PayloaderMC

_expression ==
    LET PayloaderMC_TEExpression == INSTANCE PayloaderMC_TEExpression
    IN PayloaderMC_TEExpression!expression
----

_trace ==
    LET PayloaderMC_TETrace == INSTANCE PayloaderMC_TETrace
    IN PayloaderMC_TETrace!trace
----

_inv ==
    ~(
        TLCGet("level") = Len(_TETrace)
        /\
        frags = (<<[snap |-> "data", buf |-> b1, val |-> "data"]>>)
        /\
        calls = (1)
        /\
        heap = ((b1 :> "scribbled" @@ b2 :> "data"))
    )
----

_init ==
    /\ frags = _TETrace[1].frags
    /\ calls = _TETrace[1].calls
    /\ heap = _TETrace[1].heap
----

_next ==
    /\ \E i,j \in DOMAIN _TETrace:
        /\ \/ /\ j = i + 1
              /\ i = TLCGet("level")
        /\ frags  = _TETrace[i].frags
        /\ frags' = _TETrace[j].frags
        /\ calls  = _TETrace[i].calls
        /\ calls' = _TETrace[j].calls
        /\ heap  = _TETrace[i].heap
        /\ heap' = _TETrace[j].heap

\* Uncomment the ASSUME below to write the states of the error trace
\* to the given file in Json format. Note that you can pass any tuple
\* to `JsonSerialize`. For example, a sub-sequence of _TETrace.
    \* ASSUME
    \*     LET J == INSTANCE Json
    \*         IN J!JsonSerialize("PayloaderMC_TTrace_1791102442.json", _TETrace)

=============================================================================

 Note that you can extract this module `PayloaderMC_TEExpression`
  to a dedicated file to reuse `expression` (the module in the 
  dedicated `PayloaderMC_TEExpression.tla` file takes precedence 
  over the module `PayloaderMC_TEExpression` below).

---- MODULE PayloaderMC_TEExpression ----
EXTENDS Sequences, TLCExt, Toolbox, Naturals, TLC, PayloaderMC_TEConstants, PayloaderMC

expression == 
    [
        \* To hide variables of the `PayloaderMC` spec from the error trace,
        \* remove the variables below.  The trace will be written in the order
        \* of the fields of this record.
        frags |-> frags
        ,calls |-> calls
        ,heap |-> heap
        
        \* Put additional constant-, state-, and action-level expressions here:
        \* ,_stateNumber |-> _TEPosition
        \* ,_fragsUnchanged |-> frags = frags'
        
        \* Format the `frags` variable as Json value.
        \* ,_fragsJson |->
        \*     LET J == INSTANCE Json
        \*     IN J!ToJson(frags)
        
        \* Lastly, you may build expressions over arbitrary sets of states by
        \* leveraging the _TETrace operator.  For example, this is how to
        \* count the number of times a spec variable changed up to the current
        \* state in the trace.
        \* ,_fragsModCount |->
        \*     LET F[s \in DOMAIN _TETrace] ==
        \*         IF s = 1 THEN 0
        \*         ELSE IF _TETrace[s].frags # _TETrace[s-1].frags
        \*             THEN 1 + F[s-1] ELSE F[s-1]
        \*     IN F[_TEPosition - 1]
    ]

=============================================================================



Parsing and semantic processing can take forever if the trace below is long.
 In this case, it is advised to uncomment the module below to deserialize the
 trace from a generated binary file.

\*
\*---- MODULE PayloaderMC_TETrace ----
\*EXTENDS IOUtils, TLC, PayloaderMC_TEConstants, PayloaderMC
\*
\*trace == IODeserialize("PayloaderMC_TTrace_1791102442.bin", TRUE)
\*
\*=============================================================================
\*

---- MODULE PayloaderMC_TETrace ----
EXTENDS TLC, PayloaderMC_TEConstants, PayloaderMC

trace == 
    <<
    ([frags |-> <<>>,calls |-> 0,heap |-> (b1 :> "data" @@ b2 :> "data")]),
    ([frags |-> <<[snap |-> "data", buf |-> b1, val |-> "data"]>>,calls |-> 1,heap |-> (b1 :> "data" @@ b2 :> "data")]),
    ([frags |-> <<[snap |-> "data", buf |-> b1, val |-> "data"]>>,calls |-> 1,heap |-> (b1 :> "scribbled" @@ b2 :> "data")])
    >>
----


=============================================================================

---- MODULE PayloaderMC_TEConstants ----
EXTENDS PayloaderMC

CONSTANTS b1, b2

=============================================================================

---- CONFIG PayloaderMC_TTrace_1791102442 ----
CONSTANTS
    Bufs = { b1 , b2 }
    Aliasing = TRUE
    MaxCalls = 3
    b1 = b1
    b2 = b2

INVARIANT
    _inv

CHECK_DEADLOCK
    \* CHECK_DEADLOCK off because of PROPERTY or INVARIANT above.
    FALSE

INIT
    _init

NEXT
    _next

CONSTANT
    _TETrace <- _trace

ALIAS
    _expression
=============================================================================
\* Generated on Sun Oct 04 08:27:23 UTC 2026