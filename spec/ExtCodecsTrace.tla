--------------------------- MODULE ExtCodecsTrace ---------------------------
(* Judge for C17. Receiver-with-history: "used" is a receiver that decoded  *)
(* an earlier input first; the result must be a function of the bytes only. *)
EXTENDS ExtCodecs, TraceIO
VARIABLES l, st

MarshalReason(e) ==
  LET c == e.codec  v == e.v IN
  IF e.res = "panic" THEN "marshal_panic"
  ELSE IF ~InRange(c, v) THEN
         (IF MustRefuse(c) /\ e.res # "err" THEN "out_of_range_encoded" ELSE "")
  ELSE IF e.res # "ok" THEN "in_range_refused"
  ELSE IF e.bytes # Enc(c, v) THEN "layout"
  ELSE IF e.back.res # "ok" THEN "roundtrip_rejected"
  ELSE IF e.back.fields # Norm(c, v) THEN "roundtrip_value"
  ELSE IF e.again # e.bytes THEN "marshal_result_not_owned_by_caller"     \* the caller wrote over what Marshal returned; the value marshalled again must give the same bytes
  ELSE IF ~e.canary_ok THEN "shared_state_changed_by_earlier_use"
  ELSE ""
UnmarshalReason(e) ==
  LET c == e.codec  b == e.bytes IN
  IF e.fresh.res = "panic" \/ e.used.res = "panic" THEN "unmarshal_panic"
  ELSE IF Len(b) < Size(c) THEN (IF e.fresh.res = "err" /\ e.used.res = "err" THEN "" ELSE "short_input_accepted")
  ELSE IF e.fresh.res # "ok" \/ e.used.res # "ok" THEN "sufficient_input_rejected"
  ELSE IF e.fresh.fields # Dec(c, b) THEN "decoded_fields"
  ELSE IF e.used.fields # e.fresh.fields THEN "depends_on_previous_receiver_state"
  ELSE IF ~e.canary_ok THEN "shared_state_changed_by_earlier_use"
  ELSE ""
SweepReason(e) ==
  IF e.panics # 0 THEN "sweep_panic"
  ELSE IF e.nonsep # 0 THEN "sweep_encoder_not_separable"
  ELSE IF e.unsep # 0 THEN "sweep_decoder_not_separable"
  ELSE IF e.rtfail # 0 THEN "sweep_roundtrip"
  ELSE IF e.points # 65536 THEN "sweep_incomplete" ELSE ""
Reason(e) ==
  CASE e.ev = "marshal" -> MarshalReason(e)
    [] e.ev = "unmarshal" -> UnmarshalReason(e)
    [] e.ev = "sweep" -> SweepReason(e)
    [] OTHER -> "unknown_event"

Init == l = 1 /\ st = 0
Next ==
  /\ l <= Len(Trace)
  /\ l' = l + 1
  /\ LET e == Trace[l] IN
       IF e.ev = "reset" THEN st' = 0
       ELSE LET r == Reason(e) IN
            /\ (IF r = "" THEN TRUE ELSE Reject(e, r))
            /\ st' = 0
Spec == Init /\ [][Next]_<<l, st>>
Done == Consumed
=============================================================================
