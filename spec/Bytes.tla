------------------------------- MODULE Bytes -------------------------------
(* Byte-string helpers shared by every specification in /verif/spec.        *)
(* TLC integers are 32 bit: 32/64-bit quantities are big-endian byte tuples. *)
EXTENDS Naturals, Sequences, FiniteSets

Byte == 0..255

Min(a, b) == IF a < b THEN a ELSE b
Max(a, b) == IF a > b THEN a ELSE b

\* position-dependent payload pattern, never 0 and never the scribble byte 253
Pat(len, salt) == [i \in 1..len |-> 1 + ((7 * (i - 1) + 13 * salt) % 250)]
Zeros(n) == [i \in 1..n |-> 0]
Fill(n, b) == [i \in 1..n |-> b]
Scribble == 253

\* 1-based inclusive slice; empty when hi < lo
Slice(s, lo, hi) == IF hi < lo THEN <<>> ELSE [i \in 1..(hi - lo + 1) |-> s[lo + i - 1]]
Drop(s, n) == Slice(s, n + 1, Len(s))
Take(s, n) == Slice(s, 1, Min(n, Len(s)))

RECURSIVE Flatten(_)
Flatten(ss) == IF ss = <<>> THEN <<>> ELSE Head(ss) \o Flatten(Tail(ss))

RECURSIVE SumLen(_)
SumLen(ss) == IF ss = <<>> THEN 0 ELSE Len(Head(ss)) + SumLen(Tail(ss))

IsPrefixOf(a, b) == Len(a) <= Len(b) /\ \A i \in 1..Len(a) : a[i] = b[i]

BE16(n) == <<n \div 256, n % 256>>
U16(s, i) == s[i] * 256 + s[i + 1]
BE24(n) == <<n \div 65536, (n \div 256) % 256, n % 256>>
U24(s, i) == s[i] * 65536 + s[i + 1] * 256 + s[i + 2]

\* bit k (0 = least significant) and bit field [lo..hi] of a byte / small int
Bit(b, k) == (b \div (2 ^ k)) % 2
Field(b, hi, lo) == (b \div (2 ^ lo)) % (2 ^ (hi - lo + 1))

\* 32-bit add on big-endian byte 4-tuples (mod 2^32)
AddU32(a, b) ==
  LET s4 == a[4] + b[4]
      s3 == a[3] + b[3] + s4 \div 256
      s2 == a[2] + b[2] + s3 \div 256
      s1 == a[1] + b[1] + s2 \div 256
  IN <<s1 % 256, s2 % 256, s3 % 256, s4 % 256>>

IncU16(n) == (n + 1) % 65536

\* LEB128 on 7-bit digit sequences (least significant digit first, canonical =
\* no trailing zero digit except the single digit <<0>>)
LebBytes(d) == [i \in 1..Len(d) |-> IF i < Len(d) THEN d[i] + 128 ELSE d[i]]
\* small naturals (< 2^31) to digits
RECURSIVE LebDigits(_)
LebDigits(n) == IF n < 128 THEN <<n>> ELSE <<n % 128>> \o LebDigits(n \div 128)
LebOfNat(n) == LebBytes(LebDigits(n))
\* read one LEB128 number starting at 1-based index i of s
RECURSIVE ReadLebFrom(_, _, _)
ReadLebFrom(s, i, acc) ==
  IF i > Len(s) THEN [ok |-> FALSE, digits |-> acc, next |-> i]
  ELSE IF s[i] < 128 THEN [ok |-> TRUE, digits |-> Append(acc, s[i]), next |-> i + 1]
  ELSE ReadLebFrom(s, i + 1, Append(acc, s[i] - 128))
ReadLeb(s, i) == ReadLebFrom(s, i, <<>>)
\* value of a digit sequence when it fits in 31 bits (caller guarantees)
RECURSIVE DigitsVal(_)
DigitsVal(d) == IF d = <<>> THEN 0 ELSE Head(d) + 128 * DigitsVal(Tail(d))
\* strip trailing zero digits (non-canonical encodings carry them)
RECURSIVE CanonDigits(_)
CanonDigits(d) == IF Len(d) > 1 /\ d[Len(d)] = 0 THEN CanonDigits(SubSeq(d, 1, Len(d) - 1)) ELSE d

SeqOfSet(S) == CHOOSE f \in [1..Cardinality(S) -> S] : \A i, j \in 1..Cardinality(S) : i # j => f[i] # f[j]
=============================================================================
