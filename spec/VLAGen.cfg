CONSTANTS Stride3 = 37 Stride4 = 509 TruncStride = 9
