--------------------------------- MODULE ObuGen ---------------------------------
(* G09 generator: OBU values for obu.OBU.Marshal - every obu_type, with and *)
(* without extension header (layer ids and reserved bits at their extremes), *)
(* with and without size field, the reserved bit, payload lengths around the *)
(* LEB128 digit boundaries; plus streams of several OBUs.                    *)
EXTENDS AV1, TraceIO, SequencesExt
CONSTANTS Lens
LenSeq == SetToSeq(Lens)
Exts == << [ext |-> FALSE, tid |-> 0, sid |-> 0, r3 |-> 0], [ext |-> TRUE, tid |-> 0, sid |-> 0, r3 |-> 0], [ext |-> TRUE, tid |-> 7, sid |-> 3, r3 |-> 7],
           [ext |-> TRUE, tid |-> 5, sid |-> 0, r3 |-> 2], [ext |-> TRUE, tid |-> 0, sid |-> 2, r3 |-> 5] >>
O(t, xi, hs, r1, n, salt) == Exts[xi] @@ [type |-> t, r1 |-> r1, hassize |-> hs, payload |-> Pat(n, salt)]
NOne == 16 * Len(Exts) * 2 * 2 * Len(LenSeq)
One == [j \in 1..NOne |-> LET k == j - 1 IN
          [fam |-> "G09", class |-> "one",
           obus |-> << O(k % 16, ((k \div 16) % Len(Exts)) + 1, (k \div (16 * Len(Exts))) % 2 = 1, (k \div (32 * Len(Exts))) % 2, LenSeq[((k \div (64 * Len(Exts))) % Len(LenSeq)) + 1], k) >>]]
\* streams: every OBU but the last needs a size field; the last one with and without
NStream == 2 * Len(Exts) * Len(LenSeq) * Len(LenSeq)
Streams == [j \in 1..NStream |-> LET k == j - 1
                                     xi == ((k \div 2) % Len(Exts)) + 1
                                     a == LenSeq[((k \div (2 * Len(Exts))) % Len(LenSeq)) + 1]
                                     b == LenSeq[((k \div (2 * Len(Exts) * Len(LenSeq))) % Len(LenSeq)) + 1] IN
          [fam |-> "G09", class |-> "stream",
           obus |-> << O(1, 1, TRUE, 0, a, 1), O(6, xi, TRUE, k % 2, b, 2), O(2, 1, TRUE, 0, 0, 3), O(4, xi, k % 2 = 0, 0, a, 4) >>]]
Raw == One \o Streams
CaseSeq == [i \in 1..Len(Raw) |-> Raw[i] @@ [case |-> i]]
ASSUME WriteCases(CaseSeq) /\ PrintT(<<"CASES", Len(CaseSeq)>>)
=============================================================================
