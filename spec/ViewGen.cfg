CONSTANTS Depth = 2
