----------------------------- MODULE PayloaderGen -----------------------------
(* Case generator for C08: (payloader kind, MTU, input shape, length) for   *)
(* single calls, and three-call histories with the caller overwriting its   *)
(* buffers in between. A stride thins the product in the quick tier.        *)
EXTENDS Naturals, Sequences, TLC, TraceIO
CONSTANTS Stride, Mtus, Lens

Kinds == <<"g711", "g722", "opus", "h264", "h264_nostap", "h265", "h265_donl", "h265_skipagg", "h265_donl_skipagg", "vp8", "vp8pid", "vp9", "vp9_flex", "av1">>
Common == <<"nil", "empty", "pat", "zeros", "ff", "startcodes">>
ShapesOf(k) ==
  Common \o (CASE k \in {"h264", "h264_nostap"} -> <<"annexb3", "annexb4", "annexb_mixed">>
               [] k \in {"h265", "h265_donl", "h265_skipagg", "h265_donl_skipagg"} -> <<"h265nals", "annexb4", "annexb3">>
               [] k = "av1" -> <<"obu", "obu_nosize_last", "obu_ext", "obu_bad", "obu_two">>
               [] k \in {"vp9", "vp9_flex"} -> <<"vp9_key", "vp9_inter", "vp9_p1", "vp9_p3", "vp9_existing">>
               [] OTHER -> <<>>)
MtuSeq == LET f[S \in SUBSET Mtus] == IF S = {} THEN <<>> ELSE LET x == CHOOSE y \in S : \A z \in S : y <= z IN <<x>> \o f[S \ {x}] IN f[Mtus]
LenSeq == LET f[S \in SUBSET Lens] == IF S = {} THEN <<>> ELSE LET x == CHOOSE y \in S : \A z \in S : y <= z IN <<x>> \o f[S \ {x}] IN f[Lens]
NM == Len(MtuSeq)
NL == Len(LenSeq)
MtuClass(m) == IF m <= 12 THEN "mtu_degenerate" ELSE IF m < 128 THEN "mtu_small" ELSE "mtu_large"
\* single calls for kind k: index over shapes x mtus x lens
Single(ki) ==
  LET k == Kinds[ki]  sh == ShapesOf(k)  total == Len(sh) * NM * NL
      pick == SelectSeq([i \in 1..total |-> i], LAMBDA i : (i + ki) % Stride = 0)
  IN [j \in 1..Len(pick) |->
        LET i == pick[j] - 1  s == sh[(i % Len(sh)) + 1]  m == MtuSeq[((i \div Len(sh)) % NM) + 1]  n == LenSeq[((i \div (Len(sh) * NM)) % NL) + 1] IN
        [fam |-> "C08", kind |-> k, scribble |-> TRUE, calls |-> <<[mtu |-> m, shape |-> s, len |-> n, salt |-> (i % 11) + 1]>>,
         class |-> k \o "_" \o MtuClass(m)]]
\* three-call histories (stateful payloaders matter most, all kinds get them)
Hist(ki) ==
  LET k == Kinds[ki]  sh == ShapesOf(k)  total == Len(sh) * NM
      pick == SelectSeq([i \in 1..total |-> i], LAMBDA i : (i + ki) % ((Stride \div 4) + 1) = 0)
  IN [j \in 1..Len(pick) |->
        LET i == pick[j] - 1  m == MtuSeq[((i \div Len(sh)) % NM) + 1] IN
        [fam |-> "C08", kind |-> k, scribble |-> TRUE,
         calls |-> [c \in 1..3 |-> [mtu |-> m, shape |-> sh[((i + 2 * c) % Len(sh)) + 1], len |-> LenSeq[((i + 3 * c) % NL) + 1], salt |-> c + (i % 7)]],
         class |-> k \o "_history"]]
RECURSIVE Concat(_)
Concat(ss) == IF ss = <<>> THEN <<>> ELSE Head(ss) \o Concat(Tail(ss))
\* targeted histories: parameter sets held across calls, then a slice
C(m, s, n, salt) == [mtu |-> m, shape |-> s, len |-> n, salt |-> salt]
Targeted ==
  Concat([mi \in 1..NM |-> LET m == MtuSeq[mi] IN
    << [fam |-> "C08", kind |-> "h264", scribble |-> TRUE, calls |-> <<C(m, "h264_params", 5, 1), C(m, "h264_slice", 9, 2)>>, class |-> "h264_params_then_slice"],
       [fam |-> "C08", kind |-> "h264", scribble |-> TRUE, calls |-> <<C(m, "h264_sps", 5, 1), C(m, "h264_pps", 5, 2), C(m, "h264_slice", 40, 3)>>, class |-> "h264_params_then_slice"],
       [fam |-> "C08", kind |-> "h264_nostap", scribble |-> TRUE, calls |-> <<C(m, "h264_params", 5, 1), C(m, "h264_slice", 9, 2)>>, class |-> "h264_params_then_slice"],
       [fam |-> "C08", kind |-> "h265_donl", scribble |-> TRUE, calls |-> <<C(m, "h265nals", 30, 1), C(m, "h265nals", 30, 2)>>, class |-> "h265_donl_history"],
       [fam |-> "C08", kind |-> "vp8pid", scribble |-> TRUE, calls |-> <<C(m, "pat", 30, 1), C(m, "pat", 30, 2), C(m, "pat", 30, 3)>>, class |-> "vp8pid_history"] >>])
\* AV1: an OBU that is fragmented and followed by another one, with sizes around multiples of the
\* per-packet room (MTU - 1) where the element length field changes size
Av1Edge ==
  Concat([mi \in 1..NM |-> LET m == MtuSeq[mi] IN
    IF m < 3 THEN <<>>
    ELSE IF m > 2000 THEN
         \* element lengths around the 16383/16384 LEB128 boundary (only reachable with a large MTU)
         [d \in 1..15 |-> [fam |-> "C08", kind |-> "av1", scribble |-> TRUE,
            calls |-> <<C(m, "obu_two", IF m >= 16380 THEN 16376 + d ELSE m - 8 + d, d)>>, class |-> "av1_fragment_edge"]]
    ELSE [d \in 1..14 |-> [fam |-> "C08", kind |-> "av1", scribble |-> TRUE,
            calls |-> <<C(m, "obu_two", (IF d <= 7 THEN 2 ELSE 3) * (m - 1) + ((d - 1) % 7) - 4, d)>>, class |-> "av1_fragment_edge"]]])
Raw == Concat([ki \in 1..Len(Kinds) |-> Single(ki) \o Hist(ki)]) \o Targeted \o Av1Edge
CaseSeq == [i \in 1..Len(Raw) |-> Raw[i] @@ [case |-> i]]
ASSUME WriteCases(CaseSeq) /\ PrintT(<<"CASES", Len(CaseSeq)>>)
=============================================================================
