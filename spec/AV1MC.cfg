SPECIFICATION Spec
CONSTANTS Sizes = {0, 1, 2, 5, 6, 7, 13} Mtu = 7
INVARIANTS RefSatisfies LebRoundTrip MixedLayersRefused
CHECK_DEADLOCK FALSE
