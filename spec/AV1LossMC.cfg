SPECIFICATION Spec
CONSTANTS Sizes = {1, 4, 9, 14} Mtu = 6 Resync = TRUE
INVARIANT AfterLoss
CHECK_DEADLOCK FALSE
