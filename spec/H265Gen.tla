------------------------------- MODULE H265Gen -------------------------------
(* Case generator for C14.                                                  *)
EXTENDS H265, TraceIO, SequencesExt
CONSTANTS Mtus, Stride16

Unit(t, layer, tid, n, salt) == HdrBytes(Hdr16(0, t, layer, tid)) \o Pat(n - 2, salt)
TypeSeq == <<0, 1, 19, 32, 33, 34, 39, 40, 47>>
LayerSeq == <<0, 1, 63>>
TidSeq == <<1, 7>>
Cuts(u, k) == LET n == Len(u) - 2 IN [j \in 1..(k + 1) |-> ((j - 1) * n) \div k]
NoM == [type |-> "none"]

\* ---- decoder inputs from the independent encoder, with every truncation ----
DecCase(p, donl, cls) ==
  LET r == RefParse(p, donl) IN
  [fam |-> "C14", kind |-> "decode", bytes |-> p, donl |-> donl, wantok |-> r.ok, lenient |-> FALSE, want |-> IF r.ok THEN r.m ELSE NoM,
   full |-> IF r.ok THEN r.m ELSE NoM, valid |-> TRUE, class |-> cls]
TruncCand(c, cut) ==
  LET p == Take(c.bytes, cut)  r == RefParse(p, c.donl) IN
  [fam |-> "C14", kind |-> "decode", bytes |-> p, donl |-> c.donl, wantok |-> r.ok,
   \* a cut inside a third or later aggregation unit may be refused or yield the complete units before it
   lenient |-> (~r.ok /\ c.full.type = "ap" /\ Len(c.full.others) >= 2 /\ cut >= 2 + (IF c.donl THEN 2 ELSE 0) + 2 + c.full.first.size + (IF c.donl THEN 1 ELSE 0) + 2 + c.full.others[1].size),
   want |-> IF r.ok THEN r.m ELSE NoM, full |-> c.full, valid |-> cut < Len(c.bytes), class |-> "trunc_" \o c.class]
Singles == [j \in 1..(9 * 3 * 2 * 3 * 2) |->
   LET t == TypeSeq[((j - 1) % 9) + 1]  ly == LayerSeq[(((j - 1) \div 9) % 3) + 1]  td == TidSeq[(((j - 1) \div 27) % 2) + 1]
       n == <<3, 4, 7>>[(((j - 1) \div 54) % 3) + 1]  donl == (j - 1) \div 162 = 1 IN
   DecCase(Single(Unit(t, ly, td, n, j), donl, (j * 257) % 65536), donl, "single" \o (IF donl THEN "_donl" ELSE ""))]
APs == [j \in 1..(2 * 2 * 3 * 3) |->
   LET donl == (j - 1) % 2 = 1  three == ((j - 1) \div 2) % 2 = 1  a == <<3, 4, 9>>[(((j - 1) \div 4) % 3) + 1]  b == <<3, 5, 8>>[(((j - 1) \div 12) % 3) + 1]
       us == IF three THEN <<Unit(32, 1, 2, a, j), Unit(33, 0, 3, b, j + 1), Unit(19, 63, 1, 4, j + 2)>> ELSE <<Unit(34, 5, 7, a, j), Unit(1, 4, 6, b, j + 1)>> IN
   DecCase(AP(us, donl, (j * 1009) % 65536, <<0, 255>>), donl, "ap" \o (IF three THEN "3" ELSE "2") \o (IF donl THEN "_donl" ELSE ""))]
FUs == [j \in 1..(2 * 3 * 4 * 2) |->
   LET donl == (j - 1) % 2 = 1  pos == ((j - 1) \div 2) % 3  t == <<1, 19, 32, 47>>[(((j - 1) \div 6) % 4) + 1]  big == (j - 1) \div 24 = 1
       u == Unit(t, (j * 7) % 64, (j % 7) + 1, IF big THEN 14 ELSE 8, j)  fr == FU(u, Cuts(u, 3), donl, (j * 4099) % 65536) IN
   DecCase(fr[pos + 1], donl, "fu_" \o <<"start", "middle", "end">>[pos + 1] \o (IF donl THEN "_donl" ELSE ""))]
PACIs == [j \in 1..(2 * 5 * 8 * 2) |->
   LET a == (j - 1) % 2  phs == <<0, 3, 4, 16, 31>>[(((j - 1) \div 2) % 5) + 1]  fl == ((j - 1) \div 10) % 8  y == (j - 1) \div 80 IN
   DecCase(PACI(Hdr16(0, 50, (j * 5) % 64, (j % 7) + 1), a, (j * 11) % 64, fl \div 4, (fl \div 2) % 2, fl % 2, y, [k \in 1..phs |-> (j * 31 + k * 17) % 256], Pat(1 + (j % 3), j)),
           j % 2 = 0, "paci" \o (IF fl \div 4 = 1 /\ phs >= 3 THEN "_tsci" ELSE ""))]
\* TSCI axes: each of the three PHES bytes over all values with the others zero, plus boundary products
TSCIs == [j \in 1..(3 * 256 + 27) |->
   LET ph == IF j <= 768 THEN [k \in 1..3 |-> IF k = ((j - 1) \div 256) + 1 THEN (j - 1) % 256 ELSE 0]
             ELSE LET q == j - 769 IN << <<0, 128, 255>>[(q % 3) + 1], <<0, 1, 255>>[((q \div 3) % 3) + 1], <<0, 64, 191>>[((q \div 9) % 3) + 1] >> IN
   DecCase(PACI(Hdr16(0, 50, 0, 1), 0, 1, 1, 0, 0, 0, ph, <<9>>), FALSE, "paci_tsci_axis")]
Full == Singles \o APs \o FUs \o PACIs \o TSCIs
MaxL == 45
Truncs == SelectSeq([j \in 1..((Len(Singles) + Len(APs) + Len(FUs) + Len(PACIs)) * MaxL) |-> TruncCand(Full[((j - 1) \div MaxL) + 1], (j - 1) % MaxL)], LAMBDA c : c.valid)

\* ---- header accessors ----
Hdr16s == LET vs == SelectSeq([v \in 1..65536 |-> v - 1], LAMBDA v : v % Stride16 = 0 \/ v \in {0, 1, 32767, 32768, 65535, 24576, 25088, 25600}) IN
  [j \in 1..Len(vs) |-> [fam |-> "C14", kind |-> "hdr16", v |-> vs[j], valid |-> TRUE, class |-> "accessor_nal_header"]]
Fu8s == [v \in 1..256 |-> [fam |-> "C14", kind |-> "fu8", v |-> v - 1, valid |-> TRUE, class |-> "accessor_fu_header"]]

\* ---- payloader scenarios ----
MtuSeq == SetToSeq(Mtus)
\* around one, two and three fragment capacities (capacity = m - 3, or m - 5 with DONL; two bytes of unit header)
SizesFor(m) == SetToSeq({ n \in {3} \cup ((m - 4)..(m + 2)) \cup ((2 * m - 9)..(2 * m + 2)) \cup ((3 * m - 14)..(3 * m - 4)) : n >= 3 })
PayCase(mi, j) ==
  LET m == MtuSeq[mi]  sz == SizesFor(m)
      donl == j % 2 = 1  skip == (j \div 2) % 2 = 1  a == sz[((j \div 4) % Len(sz)) + 1]  sc == (j \div (4 * Len(sz))) % 3
      t == TypeSeq[(j % 9) + 1]
      units == IF sc = 0 THEN <<Unit(t, j % 64, (j % 7) + 1, a, j)>>
               ELSE IF sc = 1 THEN <<Unit(32, 0, 1, 3 + (j % 4), j), Unit(33, 1, 2, 3 + (j % 3), j + 1), Unit(t, 0, 3, a, j + 2)>>
               ELSE <<Unit(t, 2, 1, a, j), Unit(1, 0, 1, 4, j + 1), Unit(1, 0, 1, 3, j + 2), Unit(19, 0, 1, 5, j + 3)>> IN
  [fam |-> "C14", kind |-> "payload", valid |-> TRUE, mtu |-> m, donl |-> donl, skipagg |-> skip,
   calls |-> << [units |-> units, scs |-> [i \in 1..Len(units) |-> 3 + ((i + j) % 2)]] >>,
   class |-> "payload" \o (IF donl THEN "_donl" ELSE "") \o (IF skip THEN "_skipagg" ELSE "") \o (IF a + 2 > m THEN "_fragmented" ELSE "") \o (IF sc > 0 THEN "_multi" ELSE "")]
Pays == Flatten([mi \in 1..Len(MtuSeq) |-> [j \in 1..(4 * Len(SizesFor(MtuSeq[mi])) * 3) |-> PayCase(mi, j - 1)]])
Raw == Full \o Truncs \o Hdr16s \o Fu8s \o Pays
CaseSeq == [i \in 1..Len(Raw) |-> Raw[i] @@ [case |-> i]]
ASSUME WriteCases(CaseSeq) /\ PrintT(<<"CASES", Len(CaseSeq)>>)
=============================================================================
