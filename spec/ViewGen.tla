------------------------------- MODULE ViewGen -------------------------------
(* G01 (growth): Set/Del histories on the standalone extension-block views. *)
EXTENDS RtpWire, TraceIO, SequencesExt
CONSTANTS Depth
Ext(id, n) == [id |-> id, val |-> Pat(n, id)]
Blocks(view) ==
  IF view = "onebyte" THEN << ExtBlock(OneByte, <<>>), ExtBlock(OneByte, PadTo4(ExtBody(OneByte, <<Ext(1, 3)>>))),
                              ExtBlock(OneByte, PadTo4(ExtBody(OneByte, <<Ext(3, 1), Ext(5, 2)>>))),
                              ExtBlock(OneByte, KnobBody(OneByte, <<Ext(3, 1), Ext(5, 2)>>, [pre |-> <<1, 2>>, tailw |-> 1, term |-> FALSE, padfill |-> 0])) >>
  ELSE IF view = "twobyte" THEN << ExtBlock(TwoByte, <<>>), ExtBlock(TwoByte, PadTo4(ExtBody(TwoByte, <<Ext(1, 2)>>))),
                                   ExtBlock(TwoByte, PadTo4(ExtBody(TwoByte, <<Ext(3, 0), Ext(200, 3)>>))),
                                   ExtBlock(TwoByte, KnobBody(TwoByte, <<Ext(3, 1), Ext(200, 2)>>, [pre |-> <<0, 3>>, tailw |-> 0, term |-> FALSE, padfill |-> 0])) >>
  ELSE << ExtBlock(4660, <<>>), ExtBlock(4660, Pat(8, 3)) >>
S(id, n) == [op |-> "set", id |-> id, len |-> n]
D(id) == [op |-> "del", id |-> id, len |-> 0]
Alpha(view) ==
  IF view = "onebyte" THEN <<S(1, 1), S(1, 4), S(3, 2), S(5, 16), S(7, 3), S(14, 1), S(0, 1), S(15, 1), S(2, 17), S(2, 0), D(1), D(3), D(5), D(9)>>
  ELSE IF view = "twobyte" THEN <<S(1, 1), S(1, 5), S(3, 0), S(3, 2), S(200, 4), S(255, 255), S(0, 1), S(7, 256), D(1), D(3), D(200), D(9)>>
  ELSE <<S(0, 4), S(0, 8), S(0, 3), S(1, 4), D(0), D(1)>>
RECURSIVE Pow(_, _)
Pow(k, n) == IF n = 0 THEN 1 ELSE k * Pow(k, n - 1)
Hist(AS, n, idx) == [j \in 1..n |-> AS[((idx \div Pow(Len(AS), j - 1)) % Len(AS)) + 1] @@ [salt |-> j]]
CasesFor(view, n) ==
  LET AS == Alpha(view)  bl == Blocks(view) IN
  [k \in 1..(Len(bl) * Pow(Len(AS), n)) |->
     [fam |-> "G01", view |-> view, block |-> bl[((k - 1) % Len(bl)) + 1], ops |-> Hist(AS, n, (k - 1) \div Len(bl)), class |-> view \o "_d" \o ToString(n)]]
RECURSIVE Upto(_, _)
Upto(view, n) == IF n = 0 THEN CasesFor(view, 0) ELSE Upto(view, n - 1) \o CasesFor(view, n)
Raw == Upto("onebyte", Depth) \o Upto("twobyte", Depth) \o Upto("raw", Depth)
CaseSeq == [i \in 1..Len(Raw) |-> Raw[i] @@ [case |-> i]]
ASSUME WriteCases(CaseSeq) /\ PrintT(<<"CASES", Len(CaseSeq)>>)
=============================================================================
