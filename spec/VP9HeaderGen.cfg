CONSTANTS Dims = {0, 1279, 65535}
