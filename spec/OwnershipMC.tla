----------------------------- MODULE OwnershipMC -----------------------------
(* The memory-ownership model behind C08 / C09 (and the caller-write and    *)
(* concurrent-instance legs added in rounds 7 and 8). Everything is a cell  *)
(* of a heap with an owner:                                                 *)
(*   - caller buffers (inputs): the caller may overwrite them at any time   *)
(*     after a call returned (Scribble);                                    *)
(*   - result regions: what a call hands out belongs to the caller, who may *)
(*     write over one result (CallerWrite) - no OTHER result may change;    *)
(*   - a scratch cell the implementation uses inside a call (two steps:     *)
(*     Begin copies the input into the scratch, End builds the results from *)
(*     it), so that two instances can be in the middle of a call at once.   *)
(* The three constants are specification mutants; with all of them FALSE    *)
(* the invariants hold, each of them TRUE must violate one (checked by the  *)
(* orchestrator as "expect_violation"):                                     *)
(*   Aliasing      results are windows of the caller's input buffer         *)
(*   SharedResults the results of one call share one region (uncapped       *)
(*                 sub-slices of one backing array)                         *)
(*   GlobalScratch the scratch cell is package-level, shared by instances   *)
EXTENDS Naturals, Sequences, FiniteSets, TLC
CONSTANTS Bufs, Insts, MaxCalls, Aliasing, SharedResults, GlobalScratch
VARIABLES heap,      \* caller buffer -> content (a version number)
          region,    \* result region id -> content
          results,   \* sequence of [inst, reg, expect, src]: expect = the input content the call was given
          scratch,   \* scratch cell(s): instance (or 0 when global) -> content
          busy,      \* instance -> the buffer of the call it is in the middle of, or "none"
          calls, version
vars == <<heap, region, results, scratch, busy, calls, version>>

ScratchOf(i) == IF GlobalScratch THEN 0 ELSE i
Init == /\ heap = [b \in Bufs |-> 0] /\ region = <<>> /\ results = <<>> /\ version = 0
        /\ scratch = [i \in Insts \cup {0} |-> 0] /\ busy = [i \in Insts |-> "none"] /\ calls = 0

\* a call in two steps
Begin(i, b) == /\ busy[i] = "none" /\ calls < MaxCalls
               /\ busy' = [busy EXCEPT ![i] = b] /\ calls' = calls + 1
               /\ scratch' = [scratch EXCEPT ![ScratchOf(i)] = heap[b]]
               /\ UNCHANGED <<heap, region, results, version>>
End(i) == /\ busy[i] # "none"
          /\ LET b == busy[i]
                 val == scratch[ScratchOf(i)]
                 n == Len(region)
                 \* two results per call; their regions are distinct unless SharedResults
                 r1 == n + 1  r2 == IF SharedResults THEN n + 1 ELSE n + 2
             IN /\ region' = IF SharedResults THEN Append(region, val) ELSE region \o <<val, val>>
                /\ results' = results \o << [inst |-> i, reg |-> r1, expect |-> heap[b], src |-> b, written |-> FALSE],
                                            [inst |-> i, reg |-> r2, expect |-> heap[b], src |-> b, written |-> FALSE] >>
          /\ busy' = [busy EXCEPT ![i] = "none"]
          /\ UNCHANGED <<heap, scratch, calls, version>>
\* the caller overwrites an input buffer it passed earlier (not one a call is still reading)
Scribble(b) == /\ \A i \in Insts : busy[i] # b
               /\ version' = version + 1 /\ version < 3
               /\ heap' = [heap EXCEPT ![b] = version + 1]
               /\ UNCHANGED <<region, results, scratch, busy, calls>>
\* the caller writes over one result it was handed
CallerWrite(k) == /\ k \in 1..Len(results) /\ ~results[k].written /\ version < 3
                  /\ version' = version + 1
                  /\ region' = [region EXCEPT ![results[k].reg] = 100 + version]
                  /\ results' = [results EXCEPT ![k].written = TRUE]
                  /\ UNCHANGED <<heap, scratch, busy, calls>>
Next == \/ \E i \in Insts, b \in Bufs : Begin(i, b)
        \/ \E i \in Insts : End(i)
        \/ \E b \in Bufs : Scribble(b)
        \/ \E k \in 1..Len(results) : CallerWrite(k)
Spec == Init /\ [][Next]_vars

\* what the caller reads through result k
Read(k) == IF Aliasing THEN heap[results[k].src] ELSE region[results[k].reg]
\* every result the caller did not write over itself still shows what the call was given
ResultsOwned == \A k \in 1..Len(results) : ~results[k].written => Read(k) = results[k].expect
=============================================================================
