------------------------------ MODULE H264Trace ------------------------------
(* Judge for C10. State: the payloader's pending SPS/PPS and the reference  *)
(* receivers' reassembly state (Annex-B and AVC run in lock step).          *)
EXTENDS H264, TraceIO
VARIABLES l, st
Fresh(e) == [poisoned |-> FALSE, mtu |-> e.mtu, stapa |-> e.stapa, pend |-> [sps |-> <<>>, pps |-> <<>>], rx |-> DepackInit]

\* feed payloads ps (with the real receivers' outputs deps) through the reference receiver
RECURSIVE RxReason(_, _, _, _)
RxReason(s, ps, deps, i) ==
  IF i > Len(ps) THEN [reason |-> "", s |-> s]
  ELSE
    LET a == RefDepack(s, ps[i], FALSE)  v == RefDepack(s, ps[i], TRUE)  d == deps[i] IN
    IF d.res # "ok" THEN [reason |-> "depacketizer_panic", s |-> s]
    ELSE IF ~a.ok THEN [reason |-> "oracle_stream_not_wellformed", s |-> s]
    ELSE IF d.annexb_res # "ok" \/ d.avc_res # "ok" THEN [reason |-> "wellformed_payload_rejected", s |-> s]
    ELSE IF d.annexb # a.out THEN [reason |-> "annexb_output", s |-> s]
    ELSE IF d.avc # v.out THEN [reason |-> "avc_output", s |-> s]
    ELSE IF d.head # IsHead(ps[i]) THEN [reason |-> "partition_head", s |-> s]
    ELSE RxReason(a.s, ps, deps, i + 1)

PayloadStep(e, s) ==
  LET it == Items(e.units, 1, e.stapa, s.pend, <<>>) IN      \* DisableStapA is a plain field: the application may change it between calls
  IF e.res # "ok" THEN [reason |-> "payload_panic", s |-> s]
  ELSE IF e.input # AnnexB(e.units, e.scs) THEN [reason |-> "harness_input", s |-> s]
  \* the access units lie in one caller buffer: a call must not write into its window nor into what lies behind it
  ELSE IF ~e.stream_intact THEN [reason |-> "wrote_into_callers_stream_buffer", s |-> s]
  ELSE LET m == MatchItems(it.items, 1, e.frags, 1, e.mtu) IN      \* the MTU is an argument of every call and may change between calls
       IF m # "" THEN [reason |-> m, s |-> s]
       ELSE LET rr == RxReason(s.rx, e.frags, e.deps, 1) IN
            IF rr.reason # "" THEN [reason |-> rr.reason, s |-> s]
            ELSE IF Flatten([i \in 1..Len(e.deps) |-> e.deps[i].annexb]) # ExpectedOut(it.items, FALSE) THEN [reason |-> "units_not_reproduced", s |-> s]
            ELSE [reason |-> "", s |-> [s EXCEPT !.pend = it.pend, !.rx = rr.s]]
DepackStep(e, s) ==
  LET rr == RxReason(s.rx, <<e.payload>>, <<e>>, 1) IN [reason |-> rr.reason, s |-> [s EXCEPT !.rx = rr.s]]

HugeReason(e) ==     \* one item of about 17 MB: the harness reports lengths and equality facts (the bytes do not travel)
  IF e.res # "ok" THEN "huge_item_panic"
  ELSE IF e.nfrags = 0 THEN "huge_item_no_packets"
  ELSE IF e.maxlen > e.mtu THEN "huge_item_fragment_exceeds_mtu"
  ELSE IF \E k \in 1..Len(e.facts) : ~e.facts[k] THEN "huge_item_not_reproduced"
  ELSE ""
Init == l = 1 /\ st = [poisoned |-> TRUE]
Next ==
  /\ l <= Len(Trace)
  /\ l' = l + 1
  /\ LET e == Trace[l] IN
       IF e.ev = "reset" THEN st' = Fresh(e)
       ELSE IF st.poisoned THEN UNCHANGED st
       ELSE LET r == IF e.ev = "payload" THEN PayloadStep(e, st) ELSE IF e.ev = "depack" THEN DepackStep(e, st)
                     ELSE IF e.ev = "huge" THEN [reason |-> HugeReason(e), s |-> st] ELSE [reason |-> "unknown_event", s |-> st] IN
            IF r.reason = "" THEN st' = r.s
            ELSE Reject(e, r.reason) /\ st' = [st EXCEPT !.poisoned = TRUE]
Spec == Init /\ [][Next]_<<l, st>>
Done == Consumed
=============================================================================
