------------------------------- MODULE H264MC -------------------------------
(* Oracle sanity for C10/C15: for every bounded unit list and every         *)
(* encoding plan of the independent encoder (singles, STAP-A groups, FU-A   *)
(* with arbitrary cut points incl. empty fragments), the reference receiver *)
(* reproduces the framed units; a reference greedy payloader satisfies      *)
(* MatchItems; and (C15) after any loss pattern of a first frame the        *)
(* reference receiver decodes an intact second frame like a fresh one.      *)
EXTENDS H264
CONSTANTS Sizes, Mtu
VARIABLES us, plan, lvl

ResyncOff == FALSE
Types == {1, 5, 7, 8, 9, 12}
Unit(t, n, salt) == <<((salt % 4) * 32) + t>> \o Pat(n - 1, salt)
UnitLists == { <<Unit(t1, n1, 1)>> : t1 \in Types, n1 \in Sizes } \cup { <<Unit(t1, n1, 1), Unit(t2, n2, 2)>> : t1 \in {5, 7}, t2 \in {1, 8}, n1 \in Sizes, n2 \in Sizes }
\* plan: per unit "s" (single), "f2"/"f3" (FU-A in 2/3 fragments, possibly empty ones), and whether consecutive singles are grouped
Plans == {"singles", "stap", "fu2", "fu3", "fu_empty"}
Init == us \in UnitLists /\ plan = "singles" /\ lvl = 0
Next == lvl = 0 /\ lvl' = 1 /\ plan' \in Plans /\ UNCHANGED us
Spec == Init /\ [][Next]_<<us, plan, lvl>>

Cuts(u, p) == LET n == Len(u) - 1 IN
  IF p = "fu2" THEN <<0, n \div 2, n>> ELSE IF p = "fu3" THEN <<0, n \div 3, (2 * n) \div 3, n>> ELSE <<0, 0, n, n>>
Encode(units, p) ==
  IF p = "singles" THEN units
  ELSE IF p = "stap" THEN <<StapA(units, 1)>>
  ELSE Flatten([i \in 1..Len(units) |-> FuA(units[i], Cuts(units[i], p))])
RECURSIVE RunDepack(_, _, _, _, _)
RunDepack(s, ps, i, avc, acc) ==
  IF i > Len(ps) THEN acc
  ELSE LET r == RefDepack(s, ps[i], avc) IN RunDepack(r.s, ps, i + 1, avc, IF r.ok THEN acc \o r.out ELSE acc)
AllFramed(units, avc) == Flatten([i \in 1..Len(units) |-> Framed(units[i], avc)])
DepackInvertsAnyEncoding ==
  \A avc \in BOOLEAN : RunDepack(DepackInit, Encode(us, plan), 1, avc, <<>>) = AllFramed(us, avc)

\* reference greedy payloader
RefPayloadUnit(u) ==
  IF Len(u) <= Mtu THEN <<u>>
  ELSE LET room == Mtu - 2  n == Len(u) - 1  k == (n + room - 1) \div room IN FuA(u, [j \in 1..(k + 1) |-> Min((j - 1) * room, n)])
RefPayload(items) ==
  Flatten([k \in 1..Len(items) |->
     IF items[k].kind = "params" THEN (IF Len(StapA(items[k].units, 3)) <= Mtu THEN <<StapA(items[k].units, 3)>>
                                        ELSE RefPayloadUnit(items[k].units[1]) \o RefPayloadUnit(items[k].units[2]))
     ELSE RefPayloadUnit(items[k].units[1])])
RefSatisfiesContract ==
  \A stap \in BOOLEAN :
    LET it == Items(us, 1, stap, [sps |-> <<>>, pps |-> <<>>], <<>>) IN
    Mtu >= 3 => MatchItems(it.items, 1, RefPayload(it.items), 1, Mtu) = ""

\* C15 on the model: every delivered subset of frame A (a 3-fragment FU-A) then frame B intact
FrameA == FuA(Unit(5, 9, 3), <<0, 3, 6, 8>>)
LossInv ==
  \A keep \in SUBSET (1..3) :
    LET a == SelectSeq([i \in 1..3 |-> [i |-> i, p |-> FrameA[i]]], LAMBDA x : x.i \in keep)
        pa == [i \in 1..Len(a) |-> a[i].p]
        b == Encode(us, plan)
        \* state after the surviving packets of A
        RECURSIVE St(_, _)
        St(s, i) == IF i > Len(pa) THEN s ELSE St(RefDepack(s, pa[i], FALSE).s, i + 1)
    IN plan # "fu_empty" =>
       RunDepack(St(DepackInit, 1), b, 1, FALSE, <<>>) = RunDepack(DepackInit, b, 1, FALSE, <<>>)
=============================================================================
