CONSTANTS
  PayLens = {0, 5}
  PadSizes = {0, 3}
  CsrcCounts = {0, 2}
  Rich = FALSE
  Fam = "C02"
  KnobSet = "some"
  Stride = 8
