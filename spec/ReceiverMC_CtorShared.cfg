SPECIFICATION Spec
CONSTANTS MaxSteps = 4 StaleOptional = FALSE StaleList = FALSE CtorShared = TRUE
INVARIANTS FreshEqualsReused CtorGivesZero
CHECK_DEADLOCK FALSE
