------------------------------- MODULE H264Gen -------------------------------
(* Case generator for C10: payloader scenarios (unit lists across 1-3 calls *)
(* with SPS/PPS pairs, AUD/filler, sizes around the MTU) and decoder        *)
(* streams from the independent encoder (arbitrary STAP-A groupings and     *)
(* FU-A cut points).                                                        *)
EXTENDS H264, TraceIO, SequencesExt
CONSTANTS Mtus, Rich

MtuSeq == SetToSeq(Mtus)
\* unit bodies: the pattern, with (by salt) an isolated zero in the second-to-last byte, an
\* emulation-prevention sequence 00 00 03 in the middle, or single zeros - all legal inside a NAL unit
Body(n, salt) ==
  LET b == Pat(n, salt) IN
  IF salt % 4 = 1 /\ n >= 3 THEN [b EXCEPT ![n - 1] = 0]
  ELSE IF salt % 4 = 2 /\ n >= 6 THEN [b EXCEPT ![2] = 0, ![3] = 0, ![4] = 3]
  ELSE IF salt % 8 = 3 /\ n >= 4 THEN [b EXCEPT ![1] = 0, ![3] = 0]
  ELSE IF salt % 8 = 7 /\ n >= 6 THEN [b EXCEPT ![2] = 0, ![3] = 1, ![4] = 0, ![5] = 1]          \* 00 01 00 01: zeros and ones, never a start code
  ELSE IF salt % 8 = 0 /\ n >= 7 THEN [b EXCEPT ![1] = 1, ![2] = 0, ![3] = 1, ![4] = 1, ![5] = 0, ![6] = 1]
  ELSE b
U(t, nri, n, salt) == <<nri * 32 + t>> \o Body(n - 1, salt)
\* around one, two and three fragment capacities (capacity = m - 2, one more byte for the unit's own header byte)
SizesFor(m) == SetToSeq({ n \in {2, 3, 3 * m} \cup ((m - 2)..(m + 2)) \cup ((2 * m - 6)..(2 * m)) \cup ((3 * m - 9)..(3 * m - 3)) : n >= 2 })
TypeSeq == <<1, 5, 6, 7, 8, 9, 12, 23>>
\* S1: one call, one unit
S1 == LET F(mi) == LET m == MtuSeq[mi]  sz == SizesFor(m) IN
            [j \in 1..(Len(sz) * 8 * 2) |->
               LET n == sz[((j - 1) % Len(sz)) + 1]  t == TypeSeq[(((j - 1) \div Len(sz)) % 8) + 1]  stap == (j - 1) \div (Len(sz) * 8) = 0 IN
               [fam |-> "C10", kind |-> "payloader", mtu |-> m, stapa |-> stap,
                calls |-> << [units |-> <<U(t, j % 4, n, j)>>, scs |-> <<3 + (j % 2)>>] >>,
                class |-> "one_unit_" \o (IF n > m THEN "fragmented" ELSE "single") \o (IF t \in {7, 8} THEN "_param" ELSE IF t \in {9, 12} THEN "_dropped" ELSE "")]]
      IN Flatten([mi \in 1..Len(MtuSeq) |-> F(mi)])
\* S3/S4: parameter sets and slices, in one call or split across calls, both orders, sizes that make the STAP-A fit or not
ParamScen(m, a, b, c, order, split, stap, salt) ==
  LET sps == U(7, 3, a, salt)  pps == U(8, 3, b, salt + 1)  idr == U(5, 2, c, salt + 2)
      p1 == IF order = 0 THEN sps ELSE pps  p2 == IF order = 0 THEN pps ELSE sps
      calls == IF split = 0 THEN << [units |-> <<p1, p2, idr>>, scs |-> <<4, 3, 3>>] >>
               ELSE IF split = 1 THEN << [units |-> <<p1, p2>>, scs |-> <<4, 4>>], [units |-> <<idr>>, scs |-> <<3>>] >>
               ELSE IF split = 2 THEN << [units |-> <<p1>>, scs |-> <<3>>], [units |-> <<p2>>, scs |-> <<4>>], [units |-> <<idr, U(1, 1, c, salt + 3)>>, scs |-> <<3, 4>>] >>
               ELSE << [units |-> <<U(9, 0, 2, salt), p1, p2, idr, U(12, 0, 3, salt), U(1, 1, 2, salt + 4)>>, scs |-> <<4, 3, 3, 3, 3, 3>>] >>
  IN [fam |-> "C10", kind |-> "payloader", mtu |-> m, stapa |-> stap, calls |-> calls,
      class |-> "params_" \o (IF split = 0 THEN "one_call" ELSE IF split = 3 THEN "with_aud_filler" ELSE "across_calls")
                \o (IF stap /\ a + b + 5 > m THEN "_stap_exceeds_mtu" ELSE "") \o (IF ~stap THEN "_nostap" ELSE "")]
S3 == LET F(mi) == LET m == MtuSeq[mi]
                       as == IF Rich THEN <<2, 3, (m - 5) \div 2, m - 5 - 2, m - 2, m + 1>> ELSE <<2, (m - 5) \div 2, m - 2>> IN
            [j \in 1..(Len(as) * 2 * 4 * 2 * 3) |->
               LET a == Max(2, as[((j - 1) % Len(as)) + 1])
                   order == ((j - 1) \div Len(as)) % 2
                   split == ((j - 1) \div (Len(as) * 2)) % 4
                   stap == ((j - 1) \div (Len(as) * 8)) % 2 = 0
                   ci == ((j - 1) \div (Len(as) * 16)) % 3
                   b == Max(2, IF ci = 0 THEN 2 ELSE IF ci = 1 THEN m - 5 - a ELSE 4)
                   c == Max(2, <<2, m, 2 * m + 1>>[ci + 1])
               IN ParamScen(m, a, b, c, order, split, stap, j)]
      IN Flatten([mi \in 1..Len(MtuSeq) |-> F(mi)])
\* decoder streams from the independent encoder
DecPlan(units, p) ==
  IF p = 0 THEN units
  ELSE IF p = 1 THEN <<StapA(units, 2)>>
  ELSE IF p = 2 THEN <<units[1]>> \o (IF Len(units) > 1 THEN <<StapA(Tail(units), 0)>> ELSE <<>>)
  ELSE Flatten([i \in 1..Len(units) |->
         LET n == Len(units[i]) - 1 IN
         FuA(units[i], IF p = 3 THEN <<0, n \div 2, n>> ELSE IF p = 4 THEN <<0, 1, n \div 2, n - 1, n>> ELSE IF p = 5 THEN <<0, 0, n, n>> ELSE <<0, n - 1, n>>)])
DecUnits(k) == << U(TypeSeq[(k % 8) + 1], k % 4, 4 + (k % 9), k), U(5, (k + 1) % 4, 3 + (k % 5), k + 1), U(1, 0, 2 + (k % 3), k + 2) >>
S5 == [j \in 1..(7 * (IF Rich THEN 40 ELSE 12)) |->
        LET p == (j - 1) % 7  k == (j - 1) \div 7 IN
        [fam |-> "C10", kind |-> "decoder", payloads |-> DecPlan(DecUnits(k), p), mtu |-> 0, stapa |-> FALSE,
         class |-> "decoder_" \o <<"singles", "stap", "single_then_stap", "fu2", "fu4", "fu_empty_fragments", "fu_short_tail">>[p + 1]]]
Raw == S1 \o S3 \o S5
CaseSeq == [i \in 1..Len(Raw) |-> Raw[i] @@ [case |-> i]]
ASSUME WriteCases(CaseSeq) /\ PrintT(<<"CASES", Len(CaseSeq)>>)
=============================================================================
