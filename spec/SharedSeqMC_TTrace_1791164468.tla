---- MODULE SharedSeqMC_TTrace_1791164468 ----
EXTENDS Sequences, TLCExt, Toolbox, Naturals, TLC, SharedSeqMC

_expression ==
    LET SharedSeqMC_TEExpression == INSTANCE SharedSeqMC_TEExpression
    IN SharedSeqMC_TEExpression!expression
----

_trace ==
    LET SharedSeqMC_TETrace == INSTANCE SharedSeqMC_TETrace
    IN SharedSeqMC_TETrace!trace
----

_inv ==
    ~(
        TLCGet("level") = Len(_TETrace)
        /\
        ctr = (14)
        /\
        call = (<<2, 0, 0>>)
        /\
        pc = (<<"draw", "idle", "idle">>)
        /\
        last = (<<14, 0, 0>>)
        /\
        left = (<<1, 0, 0>>)
        /\
        tmp = (<<0, 0, 0>>)
        /\
        roc = (0)
        /\
        got = (<<<<13, 14, 14>>, <<>>, <<>>>>)
    )
----

_init ==
    /\ roc = _TETrace[1].roc
    /\ last = _TETrace[1].last
    /\ left = _TETrace[1].left
    /\ ctr = _TETrace[1].ctr
    /\ call = _TETrace[1].call
    /\ pc = _TETrace[1].pc
    /\ got = _TETrace[1].got
    /\ tmp = _TETrace[1].tmp
----

_next ==
    /\ \E i,j \in DOMAIN _TETrace:
        /\ \/ /\ j = i + 1
              /\ i = TLCGet("level")
        /\ roc  = _TETrace[i].roc
        /\ roc' = _TETrace[j].roc
        /\ last  = _TETrace[i].last
        /\ last' = _TETrace[j].last
        /\ left  = _TETrace[i].left
        /\ left' = _TETrace[j].left
        /\ ctr  = _TETrace[i].ctr
        /\ ctr' = _TETrace[j].ctr
        /\ call  = _TETrace[i].call
        /\ call' = _TETrace[j].call
        /\ pc  = _TETrace[i].pc
        /\ pc' = _TETrace[j].pc
        /\ got  = _TETrace[i].got
        /\ got' = _TETrace[j].got
        /\ tmp  = _TETrace[i].tmp
        /\ tmp' = _TETrace[j].tmp

\* Uncomment the ASSUME below to write the states of the error trace
\* to the given file in Json format. Note that you can pass any tuple
\* to `JsonSerialize`. For example, a sub-sequence of _TETrace.
    \* ASSUME
    \*     LET J == INSTANCE Json
    \*         IN J!JsonSerialize("SharedSeqMC_TTrace_1791164468.json", _TETrace)

=============================================================================

 Note that you can extract this module `SharedSeqMC_TEExpression`
  to a dedicated file to reuse `expression` (the module in the 
  dedicated `SharedSeqMC_TEExpression.tla` file takes precedence 
  over the module `SharedSeqMC_TEExpression` below).

---- MODULE SharedSeqMC_TEExpression ----
EXTENDS Sequences, TLCExt, Toolbox, Naturals, TLC, SharedSeqMC

expression == 
    [
        \* To hide variables of the `SharedSeqMC` spec from the error trace,
        \* remove the variables below.  The trace will be written in the order
        \* of the fields of this record.
        roc |-> roc
        ,last |-> last
        ,left |-> left
        ,ctr |-> ctr
        ,call |-> call
        ,pc |-> pc
        ,got |-> got
        ,tmp |-> tmp
        
        \* Put additional constant-, state-, and action-level expressions here:
        \* ,_stateNumber |-> _TEPosition
        \* ,_rocUnchanged |-> roc = roc'
        
        \* Format the `roc` variable as Json value.
        \* ,_rocJson |->
        \*     LET J == INSTANCE Json
        \*     IN J!ToJson(roc)
        
        \* Lastly, you may build expressions over arbitrary sets of states by
        \* leveraging the _TETrace operator.  For example, this is how to
        \* count the number of times a spec variable changed up to the current
        \* state in the trace.
        \* ,_rocModCount |->
        \*     LET F[s \in DOMAIN _TETrace] ==
        \*         IF s = 1 THEN 0
        \*         ELSE IF _TETrace[s].roc # _TETrace[s-1].roc
        \*             THEN 1 + F[s-1] ELSE F[s-1]
        \*     IN F[_TEPosition - 1]
    ]

=============================================================================



Parsing and semantic processing can take forever if the trace below is long.
 In this case, it is advised to uncomment the module below to deserialize the
 trace from a generated binary file.

\*
\*---- MODULE SharedSeqMC_TETrace ----
\*EXTENDS IOUtils, TLC, SharedSeqMC
\*
\*trace == IODeserialize("SharedSeqMC_TTrace_1791164468.bin", TRUE)
\*
\*=============================================================================
\*

---- MODULE SharedSeqMC_TETrace ----
EXTENDS TLC, SharedSeqMC

trace == 
    <<
    ([ctr |-> 12,call |-> <<0, 0, 0>>,pc |-> <<"idle", "idle", "idle">>,last |-> <<0, 0, 0>>,left |-> <<0, 0, 0>>,tmp |-> <<0, 0, 0>>,roc |-> 0,got |-> <<<<>>, <<>>, <<>>>>]),
    ([ctr |-> 12,call |-> <<1, 0, 0>>,pc |-> <<"draw", "idle", "idle">>,last |-> <<0, 0, 0>>,left |-> <<2, 0, 0>>,tmp |-> <<0, 0, 0>>,roc |-> 0,got |-> <<<<>>, <<>>, <<>>>>]),
    ([ctr |-> 13,call |-> <<1, 0, 0>>,pc |-> <<"draw", "idle", "idle">>,last |-> <<13, 0, 0>>,left |-> <<1, 0, 0>>,tmp |-> <<0, 0, 0>>,roc |-> 0,got |-> <<<<13>>, <<>>, <<>>>>]),
    ([ctr |-> 13,call |-> <<1, 0, 0>>,pc |-> <<"idle", "idle", "idle">>,last |-> <<14, 0, 0>>,left |-> <<0, 0, 0>>,tmp |-> <<0, 0, 0>>,roc |-> 0,got |-> <<<<13, 14>>, <<>>, <<>>>>]),
    ([ctr |-> 13,call |-> <<2, 0, 0>>,pc |-> <<"draw", "idle", "idle">>,last |-> <<14, 0, 0>>,left |-> <<2, 0, 0>>,tmp |-> <<0, 0, 0>>,roc |-> 0,got |-> <<<<13, 14>>, <<>>, <<>>>>]),
    ([ctr |-> 14,call |-> <<2, 0, 0>>,pc |-> <<"draw", "idle", "idle">>,last |-> <<14, 0, 0>>,left |-> <<1, 0, 0>>,tmp |-> <<0, 0, 0>>,roc |-> 0,got |-> <<<<13, 14, 14>>, <<>>, <<>>>>])
    >>
----


=============================================================================

---- CONFIG SharedSeqMC_TTrace_1791164468 ----
CONSTANTS
    P = 3
    Calls = 2
    Need = 2
    MOD = 16
    Start = 13
    LocalCount = TRUE
    Unlocked = FALSE

INVARIANT
    _inv

CHECK_DEADLOCK
    \* CHECK_DEADLOCK off because of PROPERTY or INVARIANT above.
    FALSE

INIT
    _init

NEXT
    _next

CONSTANT
    _TETrace <- _trace

ALIAS
    _expression
=============================================================================
\* Generated on Mon Oct 05 01:41:09 UTC 2026