----------------------------- MODULE VP9HeaderGen -----------------------------
(* G02 generator: headers from the independent encoder over boundary field  *)
(* values, with both fill bits and trailing bytes, every byte-prefix of     *)
(* each, damaged marker / sync code, and each of them also decoded into a   *)
(* Header that has parsed a key frame before.                               *)
EXTENDS VP9Header, TraceIO, SequencesExt
CONSTANTS Dims
F(p, rz, se, i, nk, sh, er, d, cs, rg, sx, sy, w, h) ==
  [profile |-> p, rz |-> rz, sef |-> se, idx |-> i, nonkey |-> nk, show |-> sh, errres |-> er, depth |-> d, cs |-> cs, range |-> rg, ssx |-> sx, ssy |-> sy, wm1 |-> w, hm1 |-> h]
Keys == { F(p, rz, FALSE, 0, FALSE, sh, TRUE, d, cs, rg, sx, sy, w, h) :
            p \in 0..3, rz \in {0, 1}, sh \in BOOLEAN, d \in {10, 12}, cs \in {0, 2, 7}, rg \in BOOLEAN, sx \in BOOLEAN, sy \in BOOLEAN, w \in Dims, h \in {0, 719, 65535} }
Others == { F(p, rz, se, i, TRUE, sh, er, 8, 0, FALSE, TRUE, TRUE, 0, 0) : p \in 0..3, rz \in {0, 1}, se \in BOOLEAN, i \in {0, 5, 7}, sh \in BOOLEAN, er \in BOOLEAN }
Fs == SetToSeq(Keys \cup Others)
PrevKey == Pack(HdrBits(F(1, 0, FALSE, 0, FALSE, TRUE, FALSE, 8, 2, TRUE, TRUE, FALSE, 1279, 719)), 0)
Class(f) == IF f.sef THEN "show_existing" ELSE IF f.nonkey THEN "non_key" ELSE "key_p" \o ToString(f.profile) \o (IF f.cs = 7 THEN "_rgb" ELSE "")
Case(b, prev, cl) == [fam |-> "G02", bytes |-> b, prev |-> prev, class |-> cl]
Whole == [k \in 1..(4 * Len(Fs)) |->
            LET f == Fs[((k - 1) \div 4) + 1]  v == (k - 1) % 4
                b == Pack(HdrBits(f), v % 2) \o (IF v >= 2 THEN <<255, 0>> ELSE <<>>)
            IN Case(b, IF v = 3 THEN PrevKey ELSE <<>>, Class(f))]
\* byte-prefixes and damaged sync code / marker of a thinned subset
Thin == SelectSeq([k \in 1..Len(Fs) |-> IF k % 7 = 0 THEN Fs[k] ELSE [sef |-> FALSE, skip |-> TRUE]], LAMBDA f : "skip" \notin DOMAIN f)
Cuts == Flatten([k \in 1..Len(Thin) |->
           LET b == Pack(HdrBits(Thin[k]), 1) IN
           [n \in 1..Len(b) |-> Case(Take(b, n - 1), IF n % 2 = 0 THEN PrevKey ELSE <<>>, "cut_" \o Class(Thin[k]))]])
Damage == Flatten([k \in 1..Len(Thin) |->
           LET b == Pack(HdrBits(Thin[k]), 0) IN
           [n \in 1..Min(Len(b), 5) |-> Case([b EXCEPT ![n] = (b[n] + 1) % 256], <<>>, "damage_" \o Class(Thin[k]))] \o
           << Case([b EXCEPT ![1] = b[1] % 64], <<>>, "marker_0"), Case([b EXCEPT ![1] = (b[1] % 64) + 192], <<>>, "marker_3") >>])
Raw == Whole \o Cuts \o Damage
CaseSeq == [i \in 1..Len(Raw) |-> Raw[i] @@ [case |-> i]]
ASSUME WriteCases(CaseSeq) /\ PrintT(<<"CASES", Len(CaseSeq)>>)
=============================================================================
