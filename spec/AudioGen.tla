----------------------------- MODULE AudioGen -----------------------------
(* Case generator for C16: TLC enumerates the domain and writes it out.    *)
EXTENDS Naturals, Sequences, FiniteSets, TLC, TraceIO, SequencesExt
CONSTANTS MaxLen, MaxMtu, BigMtus, Tier

Small == { [fam |-> "C16", kind |-> k, len |-> n, mtu |-> m, salt |-> (n + m) % 17, isnil |-> FALSE, big |-> FALSE,
            class |-> IF n = 0 THEN "empty" ELSE IF n % m = 0 THEN "exact_multiple" ELSE IF n < m THEN "single" ELSE "remainder"]
           : k \in {"g711", "g722"}, n \in 0..MaxLen, m \in 1..MaxMtu }
BigLens(m) == { k * m + d : k \in {1, 2, 3}, d \in {0, 1} } \cup { k * m - 1 : k \in {1, 2, 3} } \cup {10000, 65535, 65536, 65537, 70000, 140001}
Big == { [fam |-> "C16", kind |-> k, len |-> n, mtu |-> m, salt |-> 5, isnil |-> FALSE, big |-> TRUE,
            class |-> IF n % m = 0 THEN "big_exact_multiple" ELSE "big_remainder"]
           : k \in {"g711", "g722"}, m \in BigMtus, n \in UNION { BigLens(mm) : mm \in BigMtus } } 
BigF == { c \in Big : c.len \in BigLens(c.mtu) /\ c.len < 200000 }
        \cup { [fam |-> "C16", kind |-> k, len |-> n, mtu |-> m, salt |-> 7, isnil |-> FALSE, big |-> TRUE, class |-> "big_over_64k"]
               : k \in {"g711", "g722"}, n \in {65537, 70000, 140001}, m \in {257, 1000, 65535} }
Nil == { [fam |-> "C16", kind |-> k, len |-> 0, mtu |-> m, salt |-> 0, isnil |-> TRUE, big |-> FALSE, class |-> "nil"]
           : k \in {"g711", "g722", "opus", "opusdepack"}, m \in {1, 5, 1200} }
Opus == { [fam |-> "C16", kind |-> k, len |-> n, mtu |-> m, salt |-> n % 13, isnil |-> FALSE, big |-> FALSE,
            class |-> IF n = 0 THEN "opus_empty" ELSE IF n > m THEN "opus_over_mtu" ELSE "opus"]
           : k \in {"opus", "opusdepack"}, n \in 0..(IF Tier = "quick" THEN 80 ELSE 300), m \in {1, 20, 1200} }
Cases == Small \cup BigF \cup Nil \cup Opus
CaseSeq == LET s == SetToSeq(Cases) IN [i \in 1..Len(s) |-> s[i] @@ [case |-> i]]
ASSUME WriteCases(CaseSeq) /\ PrintT(<<"CASES", Len(CaseSeq)>>)
=============================================================================
