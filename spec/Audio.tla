------------------------------- MODULE Audio -------------------------------
(* C16: G711/G722 payloaders split losslessly, Opus is passed through,      *)
(* OpusPacket.Unmarshal returns a non-empty payload unchanged.              *)
(* The payloader objects are stateless; the specification state is the set  *)
(* of fragments handed to the caller (held) and the caller's input buffer   *)
(* (heap). Scribble overwrites the caller's buffer; held values must not    *)
(* move.                                                                    *)
EXTENDS Bytes, TLC

Kinds == {"g711", "g722", "opus", "opusdepack"}

\* the unique lossless split: all fragments mtu long except the last
RECURSIVE RefSplit(_, _)
RefSplit(inp, mtu) ==
  IF Len(inp) <= mtu THEN <<inp>>
  ELSE <<Take(inp, mtu)>> \o RefSplit(Drop(inp, mtu), mtu)

\* what the statement demands of an observed fragment list (content level)
ValidSplit(inp, mtu, frags) ==
  /\ Flatten(frags) = inp
  /\ \A i \in 1..(Len(frags) - 1) : Len(frags[i]) = mtu
  /\ Len(inp) > 0 => frags # <<>> /\ Len(frags[Len(frags)]) \in 1..mtu
  /\ Len(inp) = 0 => Len(frags) <= 1

\* the same on lengths plus per-fragment slice facts (large buffers, §2.3)
RECURSIVE Sum(_)
Sum(s) == IF s = <<>> THEN 0 ELSE Head(s) + Sum(Tail(s))
ValidSplitLens(n, mtu, lens, facts) ==
  /\ Sum(lens) = n
  /\ Len(facts) = Len(lens) /\ \A i \in 1..Len(facts) : facts[i]
  /\ \A i \in 1..(Len(lens) - 1) : lens[i] = mtu
  /\ n > 0 => lens # <<>> /\ lens[Len(lens)] \in 1..mtu
  /\ n = 0 => Len(lens) <= 1

ValidOpus(inp, frags) ==
  IF Len(inp) = 0 THEN frags = <<>> \/ frags = <<(<<>>)>> ELSE frags = <<inp>>

=============================================================================
