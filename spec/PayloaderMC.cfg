SPECIFICATION Spec
CONSTANTS Bufs = {b1, b2} Aliasing = FALSE MaxCalls = 3
INVARIANT Owned
CHECK_DEADLOCK FALSE
