--------------------------- MODULE PacketizerTrace ---------------------------
(* Judge for C06: each recorded Packetize / SkipSamples / GeneratePadding / *)
(* EnableAbsSendTime call must be the corresponding Packetizer action.      *)
EXTENDS Packetizer, TraceIO
VARIABLES l, st

Fresh(e) == [poisoned |-> FALSE, mtu |-> e.mtu,
             s |-> [ts |-> e.ts0, nextSeq |-> e.seqstart, absId |-> e.abs0, pt |-> e.pt, ssrc |-> e.ssrc]]
HdrFields == <<"ver", "pad", "x", "m", "pt", "seq", "ts", "ssrc", "csrc", "profile", "exts">>
RECURSIVE FirstDiff(_, _, _)
FirstDiff(a, b, i) == IF i > Len(HdrFields) THEN "" ELSE IF a[HdrFields[i]] # b[HdrFields[i]] THEN HdrFields[i] ELSE FirstDiff(a, b, i + 1)
Pos(i, n) == IF i = n THEN "last" ELSE IF i = 1 THEN "first" ELSE "middle"

RECURSIVE PktReason(_, _, _, _)
PktReason(e, st0, i, n) ==
  IF i > n THEN ""
  ELSE
    LET p == e.pkts[i]
        absOn == st0.s.absId # 0
        want0 == ExpectHdr(st0.s, i, n, absOn, e.inst)
        \* which RFC 8285 profile carries the element is the implementation's choice
        want == IF want0.x /\ p.hdr.profile \in {OneByteProfile, 4096} THEN [want0 EXCEPT !.profile = p.hdr.profile] ELSE want0
    IN
    IF ~p.payload_is_frag THEN "fragment_changed"
    ELSE IF [f \in (DOMAIN p.hdr) \ {"nexts_raw"} |-> p.hdr[f]] # want THEN "hdr_" \o FirstDiff(p.hdr, want, 1) \o "_" \o Pos(i, n)
    ELSE IF p.padsize # 0 THEN "unexpected_padding"
    ELSE IF p.mres # "ok" THEN "packet_does_not_serialise"
    ELSE IF p.paylen <= e.budget /\ p.mlen > st0.mtu THEN (IF absOn /\ i = n THEN "exceeds_mtu_abs_send_time_packet" ELSE "exceeds_mtu")
    ELSE IF p.bres # "ok" \/ p.bhdr # p.hdr \/ ~p.bpayload_eq \/ p.bpadsize # 0 THEN "parse_back_differs"
    ELSE PktReason(e, st0, i + 1, n)
RECURSIVE PadReason(_, _, _, _)
PadReason(e, st0, i, n) ==
  IF i > n THEN ""
  ELSE LET p == e.pkts[i] IN
    IF p.hdr.seq # (st0.s.nextSeq + i - 1) % 65536 THEN "padding_sequence_number"
    ELSE IF p.mres # "ok" THEN "padding_does_not_serialise"
    ELSE IF p.bres # "ok" THEN "padding_does_not_parse"
    ELSE IF ~(p.bhdr.pad /\ p.bpaylen = 0 /\ p.bpadsize >= 1) THEN "not_padding_only"
    ELSE IF p.bhdr.ssrc # st0.s.ssrc \/ p.bhdr.pt # st0.s.pt \/ p.bhdr.ver # 2 THEN "padding_header"
    ELSE PadReason(e, st0, i + 1, n)

Reason(e, s) ==
  CASE e.ev = "packetize" ->
         IF e.res # "ok" THEN "packetize_panic"
         ELSE IF e.nil_packets # 0 THEN "nil_packet_returned"
         ELSE IF ~e.earlier_packets_unchanged THEN "earlier_packet_changed_by_later_call"
         ELSE IF Len(e.pkts) # e.nfrags THEN "fragment_count"
         ELSE LET r == PktReason(e, s, 1, Len(e.pkts)) IN
              IF r # "" THEN r
              ELSE IF e.ts_after # AddU32(s.s.ts, e.samples) THEN "timestamp_advance" ELSE ""
    [] e.ev = "skip" -> IF e.res # "ok" THEN "skip_panic" ELSE IF e.ts_after # AddU32(s.s.ts, e.samples) THEN "skip_advance" ELSE ""
    [] e.ev = "pad" -> IF e.res # "ok" THEN "padding_panic" ELSE IF e.nil_packets # 0 THEN "nil_packet_returned" ELSE IF ~e.earlier_packets_unchanged THEN "earlier_packet_changed_by_later_call"
                       ELSE IF Len(e.pkts) # e.n THEN "padding_count" ELSE PadReason(e, s, 1, e.n)
    [] e.ev = "enable" -> IF e.res # "ok" THEN "enable_panic" ELSE ""
    [] e.ev = "unavailable" -> ""      \* the verification accessors do not fit the implementation (counted by the orchestrator)
    [] OTHER -> "unknown_event"
Step(e, s) ==
  CASE e.ev = "packetize" -> [s EXCEPT !.s = AfterPacketize(s.s, Len(e.pkts), e.samples)]
    [] e.ev = "skip" -> [s EXCEPT !.s = AfterSkip(s.s, e.samples)]
    [] e.ev = "pad" -> [s EXCEPT !.s = AfterPadding(s.s, e.n)]
    [] e.ev = "enable" -> [s EXCEPT !.s = AfterEnable(s.s, e.id)]
    [] OTHER -> s
\* refusals that leave the abstract state known: the history continues
Soft(r) == r \in {"exceeds_mtu_abs_send_time_packet", "padding_does_not_serialise"}

Init == l = 1 /\ st = [poisoned |-> TRUE]
Next ==
  /\ l <= Len(Trace)
  /\ l' = l + 1
  /\ LET e == Trace[l] IN
       IF e.ev = "reset" THEN st' = Fresh(e)
       ELSE IF st.poisoned THEN UNCHANGED st
       ELSE LET r == Reason(e, st) IN
            IF r = "" THEN st' = Step(e, st)
            ELSE Reject(e, r) /\ st' = (IF Soft(r) THEN Step(e, st) ELSE [st EXCEPT !.poisoned = TRUE])
Spec == Init /\ [][Next]_<<l, st>>
Done == Consumed
=============================================================================
