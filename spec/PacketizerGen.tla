---------------------------- MODULE PacketizerGen ----------------------------
(* Case generator for C06: every call sequence up to Depth over the op      *)
(* alphabet, for each MTU; the remaining configuration (payloader, start    *)
(* sequence number, start timestamp, abs-send-time id, clock) rotates       *)
(* through covering rows indexed by the case number.                        *)
EXTENDS Naturals, Sequences, TLC, TraceIO
CONSTANTS Mtus, Depth

RECURSIVE Pow(_, _)
Pow(k, n) == IF n = 0 THEN 1 ELSE k * Pow(k, n - 1)
S4(k) == CASE k = 0 -> <<0, 0, 0, 0>> [] k = 1 -> <<0, 0, 0, 1>> [] k = 2 -> <<0, 0, 3, 192>> [] OTHER -> <<255, 255, 255, 255>>
\* payload length classes relative to the fragment budget b = mtu - 12
LenOf(cl, mtu) == CASE cl = 1 -> 1 [] cl = 2 -> mtu - 13 [] cl = 3 -> mtu - 12 [] cl = 4 -> mtu - 11 [] OTHER -> 3 * (mtu - 12) + 1
Alphabet == << [op |-> "packetize", cl |-> 1, smp |-> 2], [op |-> "packetize", cl |-> 2, smp |-> 0], [op |-> "packetize", cl |-> 3, smp |-> 3],
               [op |-> "packetize", cl |-> 4, smp |-> 1], [op |-> "packetize", cl |-> 5, smp |-> 2],
               [op |-> "skip", cl |-> 0, smp |-> 2], [op |-> "skip", cl |-> 0, smp |-> 3], [op |-> "pad", cl |-> 2, smp |-> 0], [op |-> "enable", cl |-> 5, smp |-> 0] >>
K == Len(Alphabet)
Payloaders == <<"g711", "opus", "h264", "vp8", "g722", "vp8pid">>
SeqStarts == <<0, 1, 65534, 65535, 1000>>
Ts0s == << <<255, 255, 255, 255>>, <<0, 0, 0, 0>>, <<255, 255, 252, 64>>, <<127, 255, 255, 255>>, <<18, 52, 86, 120>> >>
Abs0s == <<0, 1, 14, 0>>
MtuSeq == LET f[S \in SUBSET Mtus] == IF S = {} THEN <<>> ELSE LET x == CHOOSE y \in S : \A z \in S : y <= z IN <<x>> \o f[S \ {x}] IN f[Mtus]
Ops(mtu, n, idx) == [j \in 1..n |-> LET a == Alphabet[((idx \div Pow(K, j - 1)) % K) + 1] IN
   [op |-> a.op, len |-> IF a.op = "packetize" THEN LenOf(a.cl, mtu) ELSE 0, salt |-> j, samples |-> S4(a.smp), n |-> a.cl]]
CasesFor(n) ==
  [k \in 1..(Len(MtuSeq) * Pow(K, n)) |->
     LET mi == ((k - 1) % Len(MtuSeq)) + 1  idx == (k - 1) \div Len(MtuSeq)  r == k + 7 * n IN
     [fam |-> "C06", mtu |-> MtuSeq[mi], pt |-> (r * 5) % 128, ssrc |-> <<r % 256, 2, 3, (r \div 3) % 256>>,
      payloader |-> Payloaders[(r % 6) + 1], seqstart |-> SeqStarts[(r % 5) + 1], ts0 |-> Ts0s[((r \div 2) % 5) + 1],
      abs0 |-> Abs0s[((r \div 3) % 4) + 1], inst0 |-> <<1700000000 + (r % 130), (r * 37) % 512>>,
      ops |-> Ops(MtuSeq[mi], n, idx), depth |-> n,
      class |-> "d" \o ToString(n) \o "_mtu" \o ToString(MtuSeq[mi])]]
RECURSIVE Upto(_)
Upto(n) == IF n = 0 THEN <<>> ELSE Upto(n - 1) \o CasesFor(n)
Raw == Upto(Depth)
CaseSeq == [i \in 1..Len(Raw) |-> Raw[i] @@ [case |-> i]]
ASSUME WriteCases(CaseSeq) /\ PrintT(<<"CASES", Len(CaseSeq)>>)
=============================================================================
