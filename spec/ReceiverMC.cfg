SPECIFICATION Spec
CONSTANTS MaxSteps = 4 StaleOptional = FALSE StaleList = FALSE CtorShared = FALSE
INVARIANTS FreshEqualsReused CtorGivesZero
CHECK_DEADLOCK FALSE
