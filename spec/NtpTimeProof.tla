---------------------------- MODULE NtpTimeProof ----------------------------
(* TLAPS proof of the two C18 round-trip lemmas on the transcription of the  *)
(* library's 32.32 fixed-point conversions (same definitions as NtpTimeApa). *)
(* The capture-time lemma is reduced to the offset lemma: the NTP value is   *)
(* the Q32.32 value shifted by the 1900-1970 epoch difference in its integer *)
(* part, which the way back subtracts again.                                 *)
EXTENDS Integers, TLAPS
K == 2208988800
ToNtp(ns) == ((ns \div 1000000000) + 2208988800) * 4294967296 + (((ns % 1000000000) * 4294967296) \div 1000000000)
ToTime(n) == ((n \div 4294967296) - 2208988800) * 1000000000 + (((n % 4294967296) * 1000000000) \div 4294967296)
ToQ(ns) == (ns \div 1000000000) * 4294967296 + (((ns % 1000000000) * 4294967296) \div 1000000000)
FromQ(q) == (q \div 4294967296) * 1000000000 + (((q % 4294967296) * 1000000000) \div 4294967296)
THEOREM OffsetRoundTrip == \A d \in 0..2147483647999999999 : 0 <= d - FromQ(ToQ(d)) /\ d - FromQ(ToQ(d)) <= 1
  BY Z3T(60) DEF ToQ, FromQ
LEMMA Shift == \A t \in Nat : ToNtp(t) = ToQ(t) + K * 4294967296
  BY Z3T(60) DEF ToNtp, ToQ, K
LEMMA Unshift == \A q \in Nat : ToTime(q + K * 4294967296) = FromQ(q)
  BY Z3T(60) DEF ToTime, FromQ, K
LEMMA QNat == \A t \in Nat : ToQ(t) \in Nat
  BY Z3T(60) DEF ToQ
THEOREM RoundTrip == \A t \in 0..2085978495999999999 : 0 <= t - ToTime(ToNtp(t)) /\ t - ToTime(ToNtp(t)) <= 1
  <1> SUFFICES ASSUME NEW t \in 0..2085978495999999999 PROVE 0 <= t - ToTime(ToNtp(t)) /\ t - ToTime(ToNtp(t)) <= 1
    OBVIOUS
  <1>1. t \in Nat /\ t \in 0..2147483647999999999
    OBVIOUS
  <1>2. ToTime(ToNtp(t)) = FromQ(ToQ(t))
    BY <1>1, Shift, Unshift, QNat
  <1> QED BY <1>1, <1>2, OffsetRoundTrip
=============================================================================
