------------------------------ MODULE LossTrace ------------------------------
(* Judge for C15: after any loss history the next complete frame decodes    *)
(* exactly as on a fresh receiver (the statement's oracle).                 *)
EXTENDS Naturals, Sequences, TLC, TraceIO
VARIABLES l, st
Reason(e) ==
  CASE e.ev = "history" -> IF e.res # "ok" THEN "history_panic" ELSE IF e.b_packets = 0 THEN "oracle_empty_frame_b" ELSE ""
    [] e.ev = "after_loss" ->
         IF e.res # "ok" THEN "panic_after_loss"
         ELSE IF e.fresh_res # "ok" THEN "oracle_frame_b_not_decodable"
         ELSE IF e.used_res # "ok" THEN "next_frame_rejected_after_loss"
         ELSE IF e.used_len # Len(e.fresh_out) \/ e.used_out # e.fresh_out THEN "next_frame_differs_from_fresh"
         ELSE ""
    [] OTHER -> "unknown_event"
Init == l = 1 /\ st = FALSE
Next ==
  /\ l <= Len(Trace)
  /\ l' = l + 1
  /\ LET e == Trace[l] IN
       IF e.ev = "reset" THEN st' = FALSE
       ELSE IF st THEN UNCHANGED st
       ELSE LET r == Reason(e) IN
            IF r = "" THEN st' = FALSE ELSE Reject(e, r) /\ st' = TRUE
Spec == Init /\ [][Next]_<<l, st>>
Done == Consumed
=============================================================================
