------------------------------ MODULE TraceIO ------------------------------
(* Trace input/output shared by the judge (trace) specifications.           *)
(* The trace is NDJSON written by the Go harness; the path comes from the   *)
(* environment (VERIF_TRACE). Cases are written by generator configurations *)
(* to VERIF_OUT. JSON has no null here; every integer is below 2^31.        *)
EXTENDS Naturals, Sequences, TLC, Json, IOUtils

Trace == ndJsonDeserialize(IOEnv.VERIF_TRACE)

\* One REJECT line per refused step; the orchestrator parses them.
Reject(e, reason) == PrintT(<<"REJECT", e.case, e.i, reason>>)

\* Written once when the whole trace has been consumed (POSTCONDITION).
Consumed == PrintT(<<"CONSUMED", TLCGet("stats").diameter - 1, Len(Trace)>>)

WriteCases(cases) == ndJsonSerialize(IOEnv.VERIF_OUT, cases)
Has(e, f) == f \in DOMAIN e
=============================================================================
