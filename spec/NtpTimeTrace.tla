---------------------------- MODULE NtpTimeTrace ----------------------------
(* Judge for C18: the tolerance relation of NtpTime on the recorded outputs. *)
EXTENDS NtpTime, TraceIO
VARIABLES l, st
Reason(e) ==
  CASE e.ev = "capture" ->
         IF e.res # "ok" THEN "capture_panic"
         ELSE IF ~ValidInstant(e.t) THEN "harness_instant_out_of_range"
         ELSE IF ~Within(e.back, e.t, CaptureTol) THEN "capture_time_off" ELSE ""
    [] e.ev = "offset" ->
         IF e.res # "ok" \/ e.wire_res # "ok" THEN "offset_panic"
         ELSE IF ~e.present \/ ~e.wire_present THEN "offset_absent"
         ELSE IF ~DurEq(e.back, e.d, OffsetTol) THEN "offset_off"
         ELSE IF ~e.asked_again_same THEN "asking_for_the_offset_changes_it"
         ELSE IF ~DurEq(e.wire_back, e.d, OffsetTol) THEN "offset_off_after_wire"
         ELSE IF e.reuse_res # "ok" THEN "offset_panic"
         ELSE IF ~e.reuse_present \/ ~DurEq(e.reuse_back, e.d, OffsetTol) THEN "offset_off_in_constructed_receiver"
         ELSE IF ~e.zero_present \/ ~DurEq(e.zero_back, [neg |-> FALSE, sec |-> 0, nsec |-> 0], OffsetTol) THEN "zero_offset_not_recovered_after_receiver_reuse"
         ELSE ""
    [] e.ev = "estimate" ->
         IF e.res # "ok" THEN "estimate_panic"
         ELSE IF ~(ValidInstant(e.send) /\ ValidDelay(e.delay)) THEN "harness_domain"
         ELSE IF ~NearBy(e.send, e.est) THEN "estimate_off_by_seconds"
         ELSE IF DiffNs(e.send, e.est) < 0 THEN "estimate_after_send"
         ELSE IF DiffNs(e.send, e.est) > EstimateTol THEN "estimate_off"
         ELSE IF ~NearBy(e.send, e.est_direct) \/ DiffNs(e.send, e.est_direct) < 0 \/ DiffNs(e.send, e.est_direct) > EstimateTol THEN "estimate_off_on_constructed_value"
         ELSE ""
    [] OTHER -> "unknown_event"
Init == l = 1 /\ st = 0
Next ==
  /\ l <= Len(Trace)
  /\ l' = l + 1
  /\ LET e == Trace[l] IN
       IF e.ev = "reset" THEN st' = 0
       ELSE LET r == Reason(e) IN
            /\ (IF r = "" THEN TRUE ELSE Reject(e, r))
            /\ st' = 0
Spec == Init /\ [][Next]_<<l, st>>
Done == Consumed
=============================================================================
