----------------------------- MODULE SharedSeqGen -----------------------------
(* G08 generator: G packetizers share one sequencer; packetizer i makes the  *)
(* calls Sizes(i, .) (payload bytes; MTU - 12 bytes fit one packet), started *)
(* before, at and after the wrap of the 16-bit counter.                      *)
EXTENDS Naturals, Sequences, TLC, TraceIO, SequencesExt
CONSTANTS Gs, CallsPer, Mtu, Salts
GSeq == SetToSeq(Gs)
Starts == <<0, 1, 30000, 65000, 65500, 65535>>
Cap == Mtu - 12
\* call k of packetizer i needs 1..4 packets (one call in seven is empty and needs none)
\* ... and one in seven is a GeneratePadding(1..3) call, written as 100000 + count
Size(i, k, salt) == LET n == (i * 7 + k * 3 + salt) % 7 IN IF n = 0 THEN 0 ELSE IF n = 6 THEN 100001 + ((i + k) % 3) ELSE IF n = 5 THEN 1 ELSE ((n - 1) * Cap) + 1 + ((i + k) % Cap)
Case(gi, si, salt) ==
  [fam |-> "G08", start |-> Starts[si], mtu |-> Mtu,
   sizes |-> [i \in 1..GSeq[gi] |-> [k \in 1..CallsPer |-> Size(i, k, salt)]],
   class |-> "g" \o ToString(GSeq[gi]) \o (IF Starts[si] >= 65000 THEN "_wraps" ELSE "")]
N == Len(GSeq) * Len(Starts) * Salts
Raw == [j \in 1..N |-> LET k == j - 1 IN Case((k % Len(GSeq)) + 1, ((k \div Len(GSeq)) % Len(Starts)) + 1, (k \div (Len(GSeq) * Len(Starts))) % Salts)]
CaseSeq == [i \in 1..Len(Raw) |-> Raw[i] @@ [case |-> i]]
ASSUME WriteCases(CaseSeq) /\ PrintT(<<"CASES", Len(CaseSeq)>>)
=============================================================================
