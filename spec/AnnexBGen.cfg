CONSTANTS Alphabet = {0, 1, 3, 101} MaxLen = 7
