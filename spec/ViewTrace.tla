------------------------------ MODULE ViewTrace ------------------------------
(* Judge for G01: the standalone views against the ordered-map machine of   *)
(* RtpHeaderExt (effect of accepted Set/Del, unchanged on error, Get/GetIDs *)
(* agree) plus "survives re-serialisation": Marshal() must be a well-formed *)
(* block (whole 32-bit words, length word right) whose reference element    *)
(* walk returns the stored map.                                             *)
EXTENDS RtpHeaderExt, TraceIO
VARIABLES l, st
Fresh == [poisoned |-> FALSE, exts |-> <<>>]
ObsExts(o) == [i \in 1..Min(Len(o.ids), Len(o.vals)) |-> [id |-> o.ids[i], val |-> o.vals[i]]]   \* an accessor that panics midway leaves the lists uneven
Profile(view) == IF view = "onebyte" THEN OneByte ELSE IF view = "twobyte" THEN TwoByte ELSE 4660
\* reference reading of a serialised block
BlockExts(view, b) ==
  IF Len(b) < 4 \/ Len(b) % 4 # 0 \/ U16(b, 3) * 4 # Len(b) - 4 THEN [ok |-> FALSE, els |-> <<>>]
  ELSE IF view = "raw" THEN [ok |-> TRUE, els |-> <<[id |-> 0, val |-> Drop(b, 4)]>>]
  ELSE Walk(b, 4, Len(b), Profile(view), <<>>)
ObsReason(view, o, exts) ==
  IF o.res # "ok" THEN "accessor_panic"
  ELSE IF view # "raw" /\ ObsExts(o) # exts THEN "ids_or_values"
  ELSE IF view # "raw" /\ \E i \in 1..Len(o.probes) : o.probes[i].val # Lookup(exts, o.probes[i].id) THEN "get_disagrees"
  ELSE IF o.size # Len(o.marshal) THEN "marshal_size"
  ELSE IF ~o.mt_short THEN "marshal_to_accepts_a_short_destination"
  ELSE IF ~o.mt_long THEN "marshal_to_disagrees_with_marshal"
  ELSE IF view # "raw" THEN
        LET r == BlockExts(view, o.marshal) IN
        IF ~r.ok THEN "serialised_block_malformed"
        ELSE IF \E i \in 1..Len(exts) : Lookup(r.els, exts[i].id) # exts[i].val THEN "value_lost_on_reserialisation"
        ELSE ""
  ELSE ""
StepReason(e, s) ==
  IF e.res = "panic" THEN e.ev \o "_panic"
  ELSE IF e.view = "raw" THEN ""
  ELSE LET t == ObsExts(e.obs) IN
    IF e.ev = "set" THEN
       (IF e.res = "err" THEN (IF t = s.exts THEN "" ELSE "set_error_changed_state")
        ELSE IF t = Upsert(s.exts, e.id, Pat(e.len, e.salt)) THEN "" ELSE "set_effect")
    ELSE (IF e.res = "err" THEN (IF t = s.exts THEN "" ELSE "del_error_changed_state")
          ELSE IF t = Remove(s.exts, e.id) THEN "" ELSE "del_effect")
Init == l = 1 /\ st = Fresh
Next ==
  /\ l <= Len(Trace)
  /\ l' = l + 1
  /\ LET e == Trace[l] IN
       IF e.ev = "reset" THEN st' = Fresh
       ELSE IF st.poisoned THEN UNCHANGED st
       ELSE IF e.ev = "start" THEN
            (IF e.res # "ok" THEN Reject(e, "start_" \o e.res) /\ st' = [st EXCEPT !.poisoned = TRUE]
             ELSE LET r == ObsReason(e.view, e.obs, ObsExts(e.obs)) IN
                  /\ (IF r = "" THEN TRUE ELSE Reject(e, "start_" \o r))
                  /\ st' = [st EXCEPT !.exts = ObsExts(e.obs)])
       ELSE LET r == StepReason(e, st) IN
            IF r # "" THEN Reject(e, r) /\ st' = [st EXCEPT !.poisoned = TRUE]
            ELSE LET o == ObsReason(e.view, e.obs, ObsExts(e.obs)) IN
                 /\ (IF o = "" THEN TRUE ELSE Reject(e, o))
                 /\ st' = [st EXCEPT !.exts = ObsExts(e.obs)]
Spec == Init /\ [][Next]_<<l, st>>
Done == Consumed
=============================================================================
