CONSTANTS Sizes = {9, 14, 25} NFrag = 5
