------------------------------ MODULE AnnexBGen ------------------------------
(* G03 generator: EVERY string over a small alphabet up to a length bound.  *)
EXTENDS AnnexB, TraceIO, SequencesExt
CONSTANTS Alphabet, MaxLen
A == SetToSeq(Alphabet)
RECURSIVE Pow(_, _)
Pow(b, n) == IF n = 0 THEN 1 ELSE b * Pow(b, n - 1)
Str(n, idx) == [k \in 1..n |-> A[((idx \div Pow(Len(A), k - 1)) % Len(A)) + 1]]
OfLen(n) == [j \in 1..Pow(Len(A), n) |-> [fam |-> "G03", bytes |-> Str(n, j - 1), class |-> "len" \o ToString(n)]]
RECURSIVE Upto(_)
Upto(n) == IF n = 0 THEN OfLen(0) ELSE Upto(n - 1) \o OfLen(n)
Raw == Upto(MaxLen)
CaseSeq == [i \in 1..Len(Raw) |-> Raw[i] @@ [case |-> i]]
ASSUME WriteCases(CaseSeq) /\ PrintT(<<"CASES", Len(CaseSeq)>>)
=============================================================================
