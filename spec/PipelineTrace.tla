------------------------------ MODULE PipelineTrace ------------------------------
(* Judge for G07 (growth): the whole sending pipeline against the whole     *)
(* reference receiver. The bytes the library puts on the wire for a frame   *)
(* (payloader -> Packetizer -> Packet.Marshal) are read by the SPECIFICATION *)
(* alone - RtpWire!Parse for the RTP layer, then H264!RefDepack or          *)
(* AV1Loss!RefRxR for the payload format - and must give back the frame's   *)
(* units, on packets that carry consecutive sequence numbers, one timestamp *)
(* per frame advancing by the sample count, and the marker on the last      *)
(* packet only. The library's own receiver, fed the same bytes, must agree. *)
EXTENDS Bytes, TraceIO
W == INSTANCE RtpWire
H == INSTANCE H264
A == INSTANCE AV1Loss
V == INSTANCE VP8
VARIABLES l, st
RECURSIVE RunH(_, _, _, _)
RunH(s, ps, i, acc) == IF i > Len(ps) THEN [ok |-> TRUE, out |-> acc] ELSE LET r == H!RefDepack(s, ps[i], FALSE) IN IF ~r.ok THEN [ok |-> FALSE, out |-> acc] ELSE RunH(r.s, ps, i + 1, acc \o r.out)
\* VP8: every payload carries a descriptor (S on the first only, partition 0), the frame is the payloads in order; Opus: the packet is the payload
RunV(ps) == LET rs == [i \in 1..Len(ps) |-> V!RefDecode(ps[i])] IN
            IF \E i \in 1..Len(ps) : ~rs[i].ok \/ rs[i].f.S # (IF i = 1 THEN 1 ELSE 0) \/ rs[i].f.PID # 0 THEN [ok |-> FALSE, out |-> <<>>]
            ELSE [ok |-> TRUE, out |-> Flatten([i \in 1..Len(ps) |-> rs[i].f.Payload])]
RunO(ps) == IF Len(ps) # 1 THEN [ok |-> FALSE, out |-> <<>>] ELSE [ok |-> TRUE, out |-> ps[1]]
RECURSIVE RunA(_, _, _, _)
RunA(s, ps, i, acc) == IF i > Len(ps) THEN [ok |-> TRUE, out |-> acc] ELSE LET r == A!RefRxR(s, ps[i], TRUE) IN IF ~r.ok THEN [ok |-> FALSE, out |-> acc] ELSE RunA(r.s, ps, i + 1, acc \o Flatten([k \in 1..Len(r.out) |-> A!SizedOfTx(r.out[k])]))
Reason(e, s) ==
  IF e.res # "ok" THEN "pipeline_panic"
  ELSE LET n == Len(e.wire)
           pk == [i \in 1..n |-> W!Parse(e.wire[i])] IN
    IF n = 0 THEN "no_packets_for_a_frame"
    ELSE IF \E i \in 1..n : ~pk[i].ok THEN "wire_bytes_do_not_parse"
    ELSE IF \E i \in 1..n : Len(e.wire[i]) > e.mtu THEN "packet_exceeds_mtu"
    ELSE IF \E i \in 1..n : pk[i].p.seq # (s.nextSeq + i - 1) % 65536 THEN "sequence_numbers"
    ELSE IF \E i \in 1..n : pk[i].p.m # (i = n) THEN "marker"
    ELSE IF \E i \in 1..n : pk[i].p.ts # pk[1].p.ts THEN "timestamp_within_frame"
    ELSE IF s.started /\ pk[1].p.ts # AddU32(s.ts, <<0, 0, 11, 184>>) THEN "timestamp_advance"       \* 3000 samples per frame
    ELSE IF \E i \in 1..n : pk[i].p.ver # 2 \/ pk[i].p.pad \/ pk[i].p.x THEN "header_bits"
    ELSE LET ps == [i \in 1..n |-> pk[i].p.payload]
             r == CASE e.codec = "h264" -> RunH(H!DepackInit, ps, 1, <<>>) [] e.codec = "av1" -> RunA(A!RxInit, ps, 1, <<>>) [] e.codec = "vp8" -> RunV(ps) [] OTHER -> RunO(ps)
             want == CASE e.codec = "h264" -> Flatten([k \in 1..Len(e.units) |-> H!Framed(e.units[k], FALSE)]) [] e.codec = "av1" -> A!ExpectedDepack(e.obus) [] OTHER -> Flatten(e.units) IN
         IF ~r.ok THEN "reference_receiver_refuses_the_library_s_packets"
         ELSE IF r.out # want THEN "reference_receiver_gets_other_units"
         ELSE IF e.rx_res # "ok" THEN "own_receiver_refuses"
         ELSE IF e.rx_out # want THEN "own_receiver_gets_other_units"
         \* a consumer that cuts the packet stream into frames with IsPartitionHead / IsPartitionTail: the frame's first packet is a head,
         \* its last packet - and no other - is a tail; in between a packet is a head iff it begins a unit (H264: no FU-A continuation;
         \* AV1: Z = 0, its first element does not continue an OBU)
         ELSE IF Len(e.heads) # n \/ Len(e.tails) # n THEN "harness_heads_tails"
         ELSE IF ~e.heads[1] THEN "first_packet_of_frame_is_not_a_partition_head"
         ELSE IF \E i \in 1..n : e.tails[i] # (i = n) THEN "partition_tail_is_not_exactly_the_last_packet"
         ELSE IF \E i \in 1..n : e.heads[i] # (CASE e.codec = "h264" -> ~(ps[i][1] % 32 \in {28, 29} /\ ps[i][2] < 128) [] e.codec = "av1" -> ps[i][1] < 128 [] e.codec = "vp8" -> (ps[i][1] \div 16) % 2 = 1 [] OTHER -> TRUE) THEN "partition_head_flag"
         ELSE ""
Init == l = 1 /\ st = [poisoned |-> TRUE, nextSeq |-> 0, ts |-> <<0, 0, 0, 0>>, started |-> FALSE]
Next ==
  /\ l <= Len(Trace)
  /\ l' = l + 1
  /\ LET e == Trace[l] IN
       IF e.ev = "reset" THEN st' = [poisoned |-> FALSE, nextSeq |-> e.seqstart, ts |-> <<0, 0, 0, 0>>, started |-> FALSE]
       ELSE IF st.poisoned THEN UNCHANGED st
       ELSE LET r == Reason(e, st) IN
            IF r = "" THEN st' = [st EXCEPT !.nextSeq = (st.nextSeq + Len(e.wire)) % 65536, !.ts = W!Parse(e.wire[1]).p.ts, !.started = TRUE]
            ELSE Reject(e, r) /\ st' = [st EXCEPT !.poisoned = TRUE]
Spec == Init /\ [][Next]_<<l, st>>
Done == Consumed
=============================================================================
