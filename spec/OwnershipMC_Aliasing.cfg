SPECIFICATION Spec
CONSTANTS Bufs = {b1, b2} Insts = {1, 2} MaxCalls = 3 Aliasing = TRUE SharedResults = FALSE GlobalScratch = FALSE
INVARIANT ResultsOwned
CHECK_DEADLOCK FALSE
