-------------------------------- MODULE VP8MC --------------------------------
(* Oracle sanity for C11: RefDecode inverts Desc for every flag combination *)
(* and boundary field value, truncated descriptors are refused, and a       *)
(* reference greedy payloader satisfies the contract.                       *)
EXTENDS VP8
CONSTANT Rich
VARIABLES fl, v, lvl
Flags == [x : 0..1, n : 0..1, s : 0..1, i : 0..1, l : 0..1, t : 0..1, k : 0..1, m : 0..1]
Vals == IF Rich THEN [pid : {0, 7}, picid : {0, 1, 127, 128, 255, 32767}, tl0 : {0, 255}, tk : {0, 90, 255}, r0 : {0, 72}, r1 : {0, 15}, pay : {0, 1, 5}]
        ELSE [pid : {0, 7}, picid : {0, 127, 128, 32767}, tl0 : {0, 255}, tk : {0, 255}, r0 : {0, 72}, r1 : {0, 15}, pay : {0, 5}]
Init == fl \in Flags /\ lvl = 0 /\ v = CHOOSE z \in Vals : TRUE
Next == lvl = 0 /\ lvl' = 1 /\ v' \in Vals /\ UNCHANGED fl
Spec == Init /\ [][Next]_<<fl, v, lvl>>
D == fl @@ [pid |-> v.pid, picid |-> IF fl.m = 0 THEN v.picid % 128 ELSE v.picid, tl0 |-> v.tl0, tk |-> v.tk, r0 |-> v.r0, r1 |-> v.r1]
P == Pat(v.pay, 3)
DecodeInvertsDesc == WellFormedDesc(D) /\ LET r == RefDecode(Desc(D) \o P) IN r.ok /\ r.f = Fields(D, P) /\ r.dlen = Len(Desc(D))
TruncatedRefused == \A cut \in 0..(Len(Desc(D)) - 1) : ~RefDecode(Take(Desc(D), cut)).ok
\* reference payloader: descriptor of 1, 3 or 4 bytes then greedy split
RefPayload(frame, mtu, pidOn, id) ==
  LET hdr(first) == IF ~pidOn \/ id = 0 THEN <<IF first THEN 16 ELSE 0>>
                    ELSE IF id < 128 THEN <<(IF first THEN 16 ELSE 0) + 128, 128, id>>
                    ELSE <<(IF first THEN 16 ELSE 0) + 128, 128, 128 + id \div 256, id % 256>>
      room == mtu - Len(hdr(TRUE))
      n == (Len(frame) + room - 1) \div room
  IN [j \in 1..n |-> hdr(j = 1) \o Slice(frame, (j - 1) * room + 1, Min(j * room, Len(frame)))]
RefSatisfiesContract ==
  \A id \in {0, 5, 127, 128, 32767} : \A mtu \in {5, 6, 9} :
     ValidVP8Packetization(Pat(7 + v.pay, 2), mtu, fl.i = 1, id, RefPayload(Pat(7 + v.pay, 2), mtu, fl.i = 1, id))
=============================================================================
