---------------------------- MODULE RtpHeaderExt ----------------------------
(* C05: the header-extension accessors as a state machine.                  *)
(* State: x (extension flag), profile, exts (ordered (id, value) list).     *)
(* The specification is relational in the OUTCOME of SetExtension /         *)
(* DelExtension (which calls an implementation accepts is its choice) and   *)
(* functional in the EFFECT: ok => upsert / remove, err => unchanged.       *)
(* Accepted => representable: after any accepted Set the wire round trip    *)
(* returns every stored value under its id, or Marshal refuses a legacy     *)
(* value that is not a whole number of 32-bit words. A panic is an outcome  *)
(* no action allows.                                                        *)
EXTENDS RtpWire

Find(exts, id) == { i \in 1..Len(exts) : exts[i].id = id }
Has(exts, id) == Find(exts, id) # {}
IndexOf(exts, id) == CHOOSE i \in Find(exts, id) : \A j \in Find(exts, id) : i <= j
Lookup(exts, id) == IF Has(exts, id) THEN exts[IndexOf(exts, id)].val ELSE <<>>
Upsert(exts, id, val) ==
  IF Has(exts, id) THEN [exts EXCEPT ![IndexOf(exts, id)] = [id |-> id, val |-> val]]
  ELSE Append(exts, [id |-> id, val |-> val])
Remove(exts, id) ==
  IF ~Has(exts, id) THEN exts
  ELSE LET k == IndexOf(exts, id) IN [i \in 1..(Len(exts) - 1) |-> IF i < k THEN exts[i] ELSE exts[i + 1]]
IdsOf(exts) == [i \in 1..Len(exts) |-> exts[i].id]
UniqueIds(exts) == \A i, j \in 1..Len(exts) : i # j => exts[i].id # exts[j].id

\* Effect of Set given the observed outcome; s, t are [x, profile, exts]
SetEffect(s, id, val, res, t) ==
  IF res = "err" THEN t = s
  ELSE /\ res = "ok"
       /\ t.x
       /\ (s.x => t.profile = s.profile)
       /\ t.exts = Upsert(IF s.x THEN s.exts ELSE <<>>, id, val)
DelEffect(s, id, res, t) ==
  IF res = "err" THEN t = s
  ELSE res = "ok" /\ t = [s EXCEPT !.exts = Remove(s.exts, id)]

\* The only refusal Marshal is allowed
LegacyNotWords(s) == s.x /\ s.profile \notin {OneByte, TwoByte} /\ s.exts # <<>> /\ Len(s.exts[1].val) % 4 # 0

\* A reference acceptance policy (RFC 8285 ranges, profile chosen by length on a
\* fresh header). Used only to show the contract is satisfiable: never the judge.
RefSet(s, id, val) ==
  LET n == Len(val) IN
  IF s.x THEN
     IF s.profile = OneByte THEN (IF id \in 1..14 /\ n \in 1..16 THEN [res |-> "ok", t |-> [s EXCEPT !.exts = Upsert(s.exts, id, val)]] ELSE [res |-> "err", t |-> s])
     ELSE IF s.profile = TwoByte THEN (IF id \in 1..255 /\ n <= 255 THEN [res |-> "ok", t |-> [s EXCEPT !.exts = Upsert(s.exts, id, val)]] ELSE [res |-> "err", t |-> s])
     ELSE (IF id = 0 /\ n % 4 = 0 THEN [res |-> "ok", t |-> [s EXCEPT !.exts = Upsert(s.exts, id, val)]] ELSE [res |-> "err", t |-> s])
  ELSE IF id \in 1..14 /\ n \in 1..16 THEN [res |-> "ok", t |-> [x |-> TRUE, profile |-> OneByte, exts |-> <<[id |-> id, val |-> val]>>]]
  ELSE IF id \in 1..255 /\ n <= 255 THEN [res |-> "ok", t |-> [x |-> TRUE, profile |-> TwoByte, exts |-> <<[id |-> id, val |-> val]>>]]
  ELSE [res |-> "err", t |-> s]
RefDel(s, id) ==
  IF s.x /\ Has(s.exts, id) /\ s.profile \in {OneByte, TwoByte}
  THEN [res |-> "ok", t |-> [s EXCEPT !.exts = Remove(s.exts, id)]] ELSE [res |-> "err", t |-> s]

\* what a receiver reads back for state s (reference encoder + reference decoder)
Base == [ver |-> 2, pad |-> FALSE, m |-> FALSE, pt |-> 96, seq |-> 1, ts |-> <<0, 0, 0, 1>>, ssrc |-> <<0, 0, 0, 2>>, csrc |-> <<>>]
AsHeader(s) == Base @@ [x |-> s.x, profile |-> IF s.x THEN s.profile ELSE 0, exts |-> IF s.x THEN s.exts ELSE <<>>]
WireOf(s) == ParseHeader(CanonHeader(AsHeader(s)))
Survives(s) ==
  LET w == WireOf(s) IN w.ok /\ \A i \in 1..Len(s.exts) : Lookup(w.h.exts, s.exts[i].id) = s.exts[i].val
=============================================================================
