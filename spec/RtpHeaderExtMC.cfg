SPECIFICATION Spec
CONSTANTS
  Ids = {0, 1, 2, 14, 15, 16}
  Lens = {0, 1, 4, 16, 17}
  Depth = 2
INVARIANTS PolicyRefinesContract MapSemantics AcceptedImpliesRepresentable NeverRefusedOnWire
CHECK_DEADLOCK FALSE
