CONSTANTS MaxLen = 70 MaxMtu = 24 BigMtus = {160, 1200} Tier = "quick"
