------------------------------ MODULE AV1LossTrace ------------------------------
(* Judge for G05 (growth): AV1Depacketizer, packet by packet, against the   *)
(* reference receiver of AV1Loss under every loss pattern. What it returns  *)
(* for a packet must be the OBUs that packet completes (with size fields),  *)
(* nothing more and nothing less.                                           *)
EXTENDS AV1Loss, TraceIO
VARIABLES l, st
Init == l = 1 /\ st = [poisoned |-> TRUE, s |-> RxInit]
Next ==
  /\ l <= Len(Trace)
  /\ l' = l + 1
  /\ LET e == Trace[l] IN
       IF e.ev = "reset" THEN st' = [poisoned |-> FALSE, s |-> RxInit]
       ELSE IF st.poisoned THEN UNCHANGED st
       ELSE LET r == RefRxR(st.s, e.p, TRUE)
                want == Flatten([i \in 1..Len(r.out) |-> SizedOfTx(r.out[i])])
                why == IF e.res = "panic" THEN "panic"
                       ELSE IF ~r.ok THEN "oracle_packet_not_wellformed"
                       ELSE IF e.res # "ok" THEN "wellformed_packet_refused"
                       ELSE IF e.out # want THEN "obus_under_loss" ELSE "" IN
            IF why = "" THEN st' = [st EXCEPT !.s = r.s]
            ELSE Reject(e, why) /\ st' = [st EXCEPT !.poisoned = TRUE]
Spec == Init /\ [][Next]_<<l, st>>
Done == Consumed
=============================================================================
