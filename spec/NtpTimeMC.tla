------------------------------ MODULE NtpTimeMC ------------------------------
(* Design-level model of the abs-send-time wrap logic on field ticks.       *)
EXTENDS Integers, TLC
CONSTANTS M, MaxT, MaxD      \* wrap modulus, send ticks explored, delays explored
VARIABLES phase, send, field, recv, est

Init == phase = "idle" /\ send \in 0..MaxT /\ field = 0 /\ recv = 0 /\ est = 0
Stamp == phase = "idle" /\ phase' = "stamped" /\ field' = send % M /\ UNCHANGED <<send, recv, est>>
Deliver == phase = "stamped" /\ phase' = "delivered" /\ recv' \in send..(send + MaxD) /\ UNCHANGED <<send, field, est>>
Estimate ==
  /\ phase = "delivered" /\ phase' = "done"
  /\ LET cand == (recv - (recv % M)) + field IN est' = IF recv < cand THEN cand - M ELSE cand
  /\ UNCHANGED <<send, field, recv>>
Next == Stamp \/ Deliver \/ Estimate
Spec == Init /\ [][Next]_<<phase, send, field, recv, est>>

Recovered == phase = "done" /\ recv - send < M => est = send
NeverLater == phase = "done" => est <= recv
\* tightness: with a delay of a full wrap the estimate is off by exactly M (expected to hold as stated)
FullWrapLost == phase = "done" /\ recv - send = M => est = send + M
=============================================================================
