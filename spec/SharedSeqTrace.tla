---------------------------- MODULE SharedSeqTrace ----------------------------
(* Judge for G08 (growth): several packetizers, one sequencer, one goroutine *)
(* each. The run is accepted iff it is a behaviour of SharedSeqMC: every     *)
(* call put the number of packets on the wire its payload needs, no number   *)
(* was handed out twice and none skipped (the numbers of all packetizers     *)
(* together are exactly the first T numbers of the stream from Start), each  *)
(* packetizer's own numbers ascend in stream position, and RollOverCount is  *)
(* the number of zeros handed out.                                           *)
EXTENDS Naturals, Sequences, FiniteSets, TLC, TraceIO
VARIABLES l, st
MOD == 65536
Off(v, start) == (v + MOD - start) % MOD
RECURSIVE Cat(_, _)
Cat(ss, i) == IF i > Len(ss) THEN <<>> ELSE ss[i] \o Cat(ss, i + 1)
Need(n, mtu) == IF n >= 100000 THEN n - 100000 ELSE (n + (mtu - 12) - 1) \div (mtu - 12)      \* 100000 + c: GeneratePadding(c)
RECURSIVE Sum(_, _)
Sum(s, i) == IF i > Len(s) THEN 0 ELSE s[i] + Sum(s, i + 1)
Reason(e) ==
  IF e.panics # 0 THEN "panic"
  ELSE IF e.foreign # 0 THEN "packet_of_another_packetizer_or_nil"
  ELSE IF Len(e.per) # Len(e.sizes) \/ \E p \in 1..Len(e.per) : Len(e.per[p]) # Len(e.sizes[p]) THEN "harness_shape"
  ELSE IF \E p \in 1..Len(e.per) : \E k \in 1..Len(e.per[p]) : Len(e.per[p][k]) # Need(e.sizes[p][k], e.mtu) THEN "packet_count"
  ELSE LET mine == [p \in 1..Len(e.per) |-> Cat(e.per[p], 1)]
           T == Sum([p \in 1..Len(mine) |-> Len(mine[p])], 1)
           offs == UNION {{Off(mine[p][i], e.start) : i \in 1..Len(mine[p])} : p \in 1..Len(mine)} IN
       IF T >= MOD THEN "harness_too_many"
       ELSE IF Cardinality(offs) # T THEN "number_handed_out_twice"
       ELSE IF offs # 0..(T - 1) THEN "number_skipped"
       ELSE IF \E p \in 1..Len(mine) : \E i \in 1..(Len(mine[p]) - 1) : Off(mine[p][i], e.start) >= Off(mine[p][i + 1], e.start) THEN "own_numbers_do_not_ascend"
       ELSE IF e.roc # Cardinality({o \in 0..(T - 1) : (e.start + o) % MOD = 0}) THEN "rollover_count"
       ELSE ""
Init == l = 1 /\ st = [poisoned |-> TRUE]
Next ==
  /\ l <= Len(Trace)
  /\ l' = l + 1
  /\ LET e == Trace[l] IN
       IF e.ev = "reset" THEN st' = [poisoned |-> FALSE]
       ELSE IF st.poisoned THEN UNCHANGED st
       ELSE LET r == Reason(e) IN
            IF r = "" THEN UNCHANGED st
            ELSE Reject(e, r) /\ st' = [st EXCEPT !.poisoned = TRUE]
Spec == Init /\ [][Next]_<<l, st>>
Done == Consumed
=============================================================================
