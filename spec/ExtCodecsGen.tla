---------------------------- MODULE ExtCodecsGen ----------------------------
(* Case generator for C17. Kinds: "marshal" (a value), "unmarshal" (a byte  *)
(* string and an earlier byte string decoded into the same receiver),       *)
(* "sweep" (one high byte of a 2^24 domain, executed by the harness as an   *)
(* aggregated separability / round-trip count).                             *)
EXTENDS ExtCodecs, TraceIO, SequencesExt
CONSTANTS Stride, Sweep

W8(a, b) == <<a, b, (a * 3) % 256, 255 - b, (a + b) % 256, 1, 128, b>>
Z8 == Zeros(8)
Axis8 == { [Z8 EXCEPT ![i] = v] : i \in 1..8, v \in {1, 127, 128, 255} } \cup {Z8, Fill(8, 255), <<127, 255, 255, 255, 255, 255, 255, 255>>, <<128, 0, 0, 0, 0, 0, 0, 0>>}
S(set) == { x \in set : x % Stride = 0 \/ x \in {0, 1, 15, 16, 127, 128, 255, 256, 257, 4094, 4095, 4096, 32767, 32768, 65534, 65535, 65536, 16777215} }

MAudio == { [fam |-> "C17", kind |-> "marshal", codec |-> "audio", v |-> [level |-> l, voice |-> vo], class |-> IF l > 127 THEN "audio_out_of_range" ELSE "audio_value"]
            : l \in 0..255, vo \in BOOLEAN }
MTcc == { [fam |-> "C17", kind |-> "marshal", codec |-> "tcc", v |-> [seq |-> s], class |-> "tcc_value"] : s \in S(0..65535) }
MPlay == { [fam |-> "C17", kind |-> "marshal", codec |-> "playout", v |-> [min |-> a, max |-> b],
            class |-> IF a > 4095 \/ b > 4095 THEN "playout_out_of_range" ELSE "playout_value"]
           : a \in S(0..4095) \cup {4096, 4097, 8191, 32768, 65535}, b \in {0, 1, 255, 256, 2730, 4095, 4096, 65535} }
         \cup { [fam |-> "C17", kind |-> "marshal", codec |-> "playout", v |-> [min |-> a, max |-> b], class |-> "playout_value"]
           : a \in {0, 1365, 4095}, b \in S(0..4095) }
MSend == { [fam |-> "C17", kind |-> "marshal", codec |-> "abssend", v |-> [ts |-> t], class |-> "abssend_value"]
           : t \in { x * 65536 : x \in S(0..255) } \cup { x * 256 : x \in S(0..255) } \cup S(0..255) \cup {65535, 65536, 8388607, 8388608, 16777215, 11184810} }
MCap == { [fam |-> "C17", kind |-> "marshal", codec |-> "abscapture", v |-> [ts |-> t, hasoff |-> h, off |-> IF h THEN o ELSE Z8],
           class |-> IF h THEN "abscapture_with_offset" ELSE "abscapture_value"]
          : t \in Axis8, h \in BOOLEAN, o \in {Z8, Fill(8, 255), <<128, 0, 0, 0, 0, 0, 0, 0>>, <<0, 0, 0, 1, 128, 0, 0, 0>>, <<255, 255, 255, 254, 128, 0, 0, 1>>} }
        \cup { [fam |-> "C17", kind |-> "marshal", codec |-> "abscapture", v |-> [ts |-> W8(1, 2), hasoff |-> TRUE, off |-> o], class |-> "abscapture_with_offset"] : o \in Axis8 }

\* decoder inputs: every length 0..size+2 (abs-capture: 0..18), content patterns, earlier input for reuse
Lens(c) == IF c = "abscapture" THEN 0..18 ELSE 0..(Size(c) + 2)
Prevs(c) == IF c = "abscapture" THEN {<<>>, Pat(16, 5), Pat(8, 6), Fill(16, 255)} ELSE {<<>>, Fill(Size(c), 255), Pat(Size(c) + 1, 3)}
Content(n, k) == IF k = 0 THEN Zeros(n) ELSE IF k = 255 THEN Fill(n, 255) ELSE Pat(n, k)
UCases == { [fam |-> "C17", kind |-> "unmarshal", codec |-> c, bytes |-> Content(n, k), prev |-> p,
             class |-> c \o (IF n < Size(c) THEN "_short" ELSE IF n > Size(c) THEN "_trailing" ELSE "_exact") \o (IF p = <<>> THEN "" ELSE "_reused")]
            : c \in {"audio", "tcc", "playout", "abssend", "abscapture"}, n \in 0..18, k \in {0, 1, 9, 200, 255},
              p \in {<<>>, Fill(16, 255), Pat(16, 5), Pat(8, 6), Pat(3, 3)} }
UF == { u \in UCases : Len(u.bytes) \in Lens(u.codec) /\ (u.prev = <<>> \/ Len(u.prev) >= Size(u.codec)) }
UAxes == { [fam |-> "C17", kind |-> "unmarshal", codec |-> c, bytes |-> b, prev |-> <<>>, class |-> c \o "_axis"]
           : c \in {"audio"}, b \in { <<x>> : x \in 0..255 } }
         \cup { [fam |-> "C17", kind |-> "unmarshal", codec |-> "playout", bytes |-> b, prev |-> <<255, 255, 255>>, class |-> "playout_axis"]
           : b \in { <<x \div 16, (x % 16) * 16, 0>> : x \in S(0..4095) } \cup { <<0, x \div 256, x % 256>> : x \in S(0..4095) } }
         \cup { [fam |-> "C17", kind |-> "unmarshal", codec |-> c, bytes |-> b, prev |-> <<>>, class |-> c \o "_axis"]
           : c \in {"abssend", "tcc"}, b \in { <<x, 0, 0>> : x \in S(0..255) } \cup { <<0, x, 0>> : x \in S(0..255) } \cup { <<0, 0, x>> : x \in S(0..255) } }
SweepCases == IF Sweep THEN { [fam |-> "C17", kind |-> "sweep", codec |-> c, hi |-> h, class |-> c \o "_sweep"] : c \in {"playout", "abssend"}, h \in 0..255 } ELSE {}

Raw == SetToSeq(MAudio \cup MTcc \cup MPlay \cup MSend \cup MCap) \o SetToSeq(UF \cup UAxes) \o SetToSeq(SweepCases)
CaseSeq == [i \in 1..Len(Raw) |-> Raw[i] @@ [case |-> i]]
ASSUME WriteCases(CaseSeq) /\ PrintT(<<"CASES", Len(CaseSeq)>>)
=============================================================================
