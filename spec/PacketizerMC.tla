---------------------------- MODULE PacketizerMC ----------------------------
(* Exhaustive model of C06 with a reference greedy payloader (fragment      *)
(* count = ceil(len / (mtu - 12))): every call sequence up to Depth.        *)
(* History variable hist records the emitted (seq, ts, marker) triples.     *)
EXTENDS Packetizer
CONSTANTS Depth, Lens, Mtu
Samples == {<<0, 0, 0, 0>>, <<0, 0, 3, 192>>, <<255, 255, 255, 255>>}
VARIABLES s, d, hist, lastTs, calls

Init == /\ s \in { [ts |-> t, nextSeq |-> q, absId |-> 0, pt |-> 96, ssrc |-> <<1, 2, 3, 4>>]
                    : t \in { <<255, 255, 255, 255>>, <<0, 0, 0, 0>>, <<255, 255, 252, 64>> }, q \in {0, 65535} }
        /\ d = 0 /\ hist = <<>> /\ lastTs = <<>> /\ calls = <<>>
NFrags(len) == (len + (Mtu - 12) - 1) \div (Mtu - 12)
Packetize(len, smp) ==
  LET n == NFrags(len) IN
  /\ hist' = hist \o [i \in 1..n |-> ExpectHdr(s, i, n, s.absId # 0, <<0, 0>>)]
  /\ calls' = Append(calls, [ts |-> s.ts, n |-> n, smp |-> smp])
  /\ s' = AfterPacketize(s, n, smp)
Padding(n) == /\ hist' = hist \o [i \in 1..n |-> ExpectPad(s, i)]
              /\ calls' = Append(calls, [ts |-> s.ts, n |-> n, smp |-> <<0, 0, 0, 0>>]) /\ s' = AfterPadding(s, n)
Skip(smp) == hist' = hist /\ calls' = Append(calls, [ts |-> s.ts, n |-> 0, smp |-> smp]) /\ s' = AfterSkip(s, smp)
Enable(id) == hist' = hist /\ calls' = calls /\ s' = AfterEnable(s, id)
Next == /\ d < Depth /\ d' = d + 1 /\ lastTs' = s.ts
        /\ \/ \E len \in Lens, smp \in Samples : Packetize(len, smp)
           \/ \E n \in {1, 2} : Padding(n)
           \/ \E smp \in Samples : Skip(smp)
           \/ Enable(5)
Spec == Init /\ [][Next]_<<s, d, hist, lastTs, calls>>

SeqContinuous == \A i \in 1..(Len(hist) - 1) : hist[i + 1].seq = (hist[i].seq + 1) % 65536
\* the timestamp of call k is the start timestamp plus all earlier sample counts (mod 2^32)
RECURSIVE SumU32(_, _, _)
SumU32(cs, k, acc) == IF k = 0 THEN acc ELSE SumU32(cs, k - 1, AddU32(acc, cs[k].smp))
TsLaw == \A k \in 1..Len(calls) : calls[k].ts = SumU32(calls, k - 1, calls[1].ts)
MarkerLaw == \A i \in 1..(Len(hist) - 1) : (hist[i].m /\ ~hist[i].pad) => (hist[i + 1].ts # hist[i].ts \/ hist[i + 1].pad \/ hist[i + 1].seq = (hist[i].seq + 1) % 65536)
AbsOnlyOnMarked == \A i \in 1..Len(hist) : hist[i].x => (hist[i].m /\ s.absId # 0)
=============================================================================
