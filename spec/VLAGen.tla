------------------------------- MODULE VLAGen -------------------------------
(* Case generator for C19: valid VLAs (every slot subset per stream count,  *)
(* strided for 3-4 streams in the quick tier), their reference encodings as *)
(* decoder inputs with every truncation of a subset, invalid VLAs for each  *)
(* rejection rule.                                                          *)
EXTENDS VLA, TraceIO, SequencesExt
CONSTANTS Stride3, Stride4, TruncStride

Subs(n) == IF n <= 2 THEN 0..(Pow2(4 * n) - 1)
           ELSE IF n = 3 THEN { m \in 0..4095 : m % Stride3 = 0 \/ Card(m) <= 1 \/ m % 273 = 0 \/ (m % 16 = 0 /\ m % 17 = 0) }
           ELSE { m \in 0..65535 : m % Stride4 = 0 \/ Card(m) <= 1 \/ m % 4369 = 0 \/ (m % 256 = 0 /\ m % 4352 = 0) }
Class(v) == "ns" \o ToString(v.ns) \o (IF Len(v.layers) = 0 THEN "_nolayers" ELSE IF Shared(v) THEN "_shared" ELSE "_perstream")
            \o (IF v.hasres THEN "_res" ELSE "")
Feat(v) == [ns |-> v.ns, nlayers |-> Len(v.layers), shared |-> Shared(v), hasres |-> v.hasres,
            has_empty_stream |-> (Len(v.layers) > 0 /\ \E s \in 0..(v.ns - 1) : Mask(v, s) = 0)]
ValidCase(n, m, res) ==
  LET v == MkVLA(n, SubsetOf(m, n), m % 97, res) IN
  \* what the reused receiver decoded before: a fixed rich value, or a SIBLING of v (same layout) with the resolution
  \* records toggled, or with other rates and resolutions
  [fam |-> "C19", kind |-> "valid", v |-> v, bytes |-> EncVLA(v),
   prev |-> IF m = 0 \/ m % 3 = 0 THEN EncVLA(MkVLA(2, {0, 5, 6}, 3, TRUE))
            ELSE IF m % 3 = 1 THEN EncVLA(MkVLA(n, SubsetOf(m, n), m % 97, ~res))
            ELSE EncVLA(MkVLA(n, SubsetOf(m, n), (m % 97) + 4, TRUE)),
   class |-> Class(v), tags |-> Feat(v)]
ValidSeq(n) == LET ms == SetToSeq(Subs(n)) IN
  [k \in 1..(2 * Len(ms)) |-> ValidCase(n, ms[((k - 1) \div 2) + 1], k % 2 = 0 /\ ms[((k - 1) \div 2) + 1] # 0)]
\* bitrates of 2^56 kbps and more need nine LEB128 bytes (kept apart: one class of their own)
HugeV(n) == [rid |-> 0, ns |-> n, hasres |-> FALSE,
             layers |-> <<[stream |-> 0, spatial |-> 0, rates |-> <<(<<1>>), <<0, 0, 0, 0, 0, 0, 0, 0, 64>>, <<127, 127, 127, 127, 127, 127, 127, 127, 127>> >>, w |-> 0, h |-> 0, fps |-> 0]>>]
Huge == [n \in 1..2 |-> [fam |-> "C19", kind |-> "valid", v |-> HugeV(n), bytes |-> EncVLA(HugeV(n)), prev |-> <<>>,
                          class |-> "huge_rate", tags |-> Feat(HugeV(n)) @@ [huge_rate |-> TRUE]]]
Valids == ValidSeq(1) \o ValidSeq(2) \o ValidSeq(3) \o ValidSeq(4) \o Huge

\* decoder inputs: truncations of valid encodings (no oracle: no panic, n <= len)
TruncOf(c) == [cut \in 1..Len(c.bytes) |-> [fam |-> "C19", kind |-> "bytes", bytes |-> Take(c.bytes, cut - 1), prev |-> c.prev,
                                             class |-> "trunc", tags |-> c.tags]]
RECURSIVE Concat(_)
Concat(ss) == IF ss = <<>> THEN <<>> ELSE Head(ss) \o Concat(Tail(ss))
Truncs == Concat([k \in 1..(Len(Valids) \div TruncStride) |-> TruncOf(Valids[k * TruncStride])])

\* invalid values, one family per rejection rule
L(s, sp, nr) == [stream |-> s, spatial |-> sp, rates |-> [j \in 1..nr |-> <<j>>], w |-> 0, h |-> 0, fps |-> 0]
Inv(rule, v) == [fam |-> "C19", kind |-> "invalid", rule |-> rule, v |-> v, class |-> "invalid_" \o rule,
                 tags |-> [ns |-> v.ns, nlayers |-> Len(v.layers), shared |-> FALSE, hasres |-> FALSE, has_empty_stream |-> FALSE]]
Invalids == <<
  Inv("stream_count", [rid |-> 0, ns |-> 0, hasres |-> FALSE, layers |-> <<>>]),
  Inv("stream_count", [rid |-> 0, ns |-> 5, hasres |-> FALSE, layers |-> <<L(0, 0, 1)>>]),
  Inv("stream_count", [rid |-> 0, ns |-> 200, hasres |-> FALSE, layers |-> <<L(0, 0, 1)>>]),
  Inv("stream_id", [rid |-> 2, ns |-> 2, hasres |-> FALSE, layers |-> <<L(0, 0, 1)>>]),
  Inv("stream_id", [rid |-> 4, ns |-> 4, hasres |-> FALSE, layers |-> <<L(0, 0, 1)>>]),
  Inv("stream_id", [rid |-> 1, ns |-> 1, hasres |-> FALSE, layers |-> <<>>]),
  Inv("layer_stream_id", [rid |-> 0, ns |-> 2, hasres |-> FALSE, layers |-> <<L(2, 0, 1)>>]),
  Inv("layer_stream_id", [rid |-> 0, ns |-> 1, hasres |-> FALSE, layers |-> <<L(0, 0, 1), L(1, 0, 1)>>]),
  Inv("spatial_id", [rid |-> 0, ns |-> 2, hasres |-> FALSE, layers |-> <<L(0, 4, 1)>>]),
  Inv("spatial_id", [rid |-> 0, ns |-> 2, hasres |-> FALSE, layers |-> <<L(1, 200, 2)>>]),
  Inv("duplicate", [rid |-> 0, ns |-> 2, hasres |-> FALSE, layers |-> <<L(0, 1, 1), L(0, 1, 2)>>]),
  Inv("duplicate", [rid |-> 0, ns |-> 3, hasres |-> FALSE, layers |-> <<L(0, 0, 1), L(2, 3, 1), L(2, 3, 1)>>]),
  Inv("temporal_count", [rid |-> 0, ns |-> 1, hasres |-> FALSE, layers |-> <<[L(0, 0, 1) EXCEPT !.rates = <<>>]>>]),
  Inv("temporal_count", [rid |-> 0, ns |-> 1, hasres |-> FALSE, layers |-> <<L(0, 0, 5)>>]),
  Inv("temporal_count", [rid |-> 0, ns |-> 2, hasres |-> FALSE, layers |-> <<L(0, 0, 1), L(1, 2, 9)>>]) >>

Raw == Valids \o Truncs \o Invalids
CaseSeq == [i \in 1..Len(Raw) |-> Raw[i] @@ [case |-> i]]
ASSUME WriteCases(CaseSeq) /\ PrintT(<<"CASES", Len(CaseSeq)>>)
=============================================================================
