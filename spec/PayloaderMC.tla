----------------------------- MODULE PayloaderMC -----------------------------
(* The ownership model behind C08/C09/C20: caller buffers live in a heap,   *)
(* the callee hands out fragments. With Aliasing = FALSE (owned copies) a   *)
(* Scribble is never observable; Aliasing = TRUE is the specification       *)
(* mutant that must violate Owned.                                          *)
EXTENDS Naturals, Sequences, TLC
CONSTANTS Bufs, Aliasing, MaxCalls
VARIABLES heap, frags, calls

Init == heap = [b \in Bufs |-> "data"] /\ frags = <<>> /\ calls = 0
Payload(b) == /\ calls < MaxCalls /\ calls' = calls + 1 /\ UNCHANGED heap
              /\ frags' = Append(frags, [snap |-> heap[b], buf |-> b, val |-> heap[b]])
Scribble(b) == heap' = [heap EXCEPT ![b] = "scribbled"] /\ UNCHANGED <<frags, calls>>
Next == \E b \in Bufs : Payload(b) \/ Scribble(b)
Spec == Init /\ [][Next]_<<heap, frags, calls>>
Read(f) == IF Aliasing THEN heap[f.buf] ELSE f.val
Owned == \A i \in 1..Len(frags) : Read(frags[i]) = frags[i].snap
=============================================================================
