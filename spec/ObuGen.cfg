CONSTANTS Lens = {0, 1, 2, 127, 128, 129, 300}
