--------------------------------- MODULE AV1 ---------------------------------
(* C13: AV1 RTP payload format (aggregation header, OBU elements) and the   *)
(* OBU header / LEB128 codecs, written from the AV1 RTP specification and   *)
(* the AV1 bitstream specification section 5.3.                             *)
(* OBU value o: [type (0..15), ext (BOOLEAN), tid (0..7), sid (0..3),        *)
(* r3 (0..7), r1 (0..1), hassize (BOOLEAN), payload].                       *)
(* Aggregation header: Z(1) Y(1) W(2) N(1) - - -.                           *)
EXTENDS Bytes, TLC
B2N(b) == IF b THEN 1 ELSE 0

HeaderBytes(o, withSize) ==
  <<o.type * 8 + B2N(o.ext) * 4 + B2N(withSize) * 2 + o.r1>> \o (IF o.ext THEN <<o.tid * 32 + o.sid * 8 + o.r3>> ELSE <<>>)
\* an OBU as it appears in the byte stream handed to the payloader
StreamForm(o) == HeaderBytes(o, o.hassize) \o (IF o.hassize THEN LebOfNat(Len(o.payload)) ELSE <<>>) \o o.payload
Stream(obus) == Flatten([i \in 1..Len(obus) |-> StreamForm(obus[i])])
\* reading the byte stream back (open_bitstream_unit syntax): obu_size may be a non-minimal LEB128 number
RECURSIVE ReadStream(_, _, _)
ReadStream(s, i, acc) ==
  IF i > Len(s) THEN [ok |-> TRUE, obus |-> acc]
  ELSE LET b0 == s[i]
           ext == (b0 \div 4) % 2 = 1
           hs == (b0 \div 2) % 2 = 1
           j == IF ext THEN i + 2 ELSE i + 1 IN
       IF b0 >= 128 \/ (ext /\ i + 1 > Len(s)) THEN [ok |-> FALSE, obus |-> acc]
       ELSE LET base == [type |-> (b0 \div 8) % 16, ext |-> ext, tid |-> IF ext THEN s[i + 1] \div 32 ELSE 0, sid |-> IF ext THEN (s[i + 1] \div 8) % 4 ELSE 0,
                         r3 |-> IF ext THEN s[i + 1] % 8 ELSE 0, r1 |-> b0 % 2, hassize |-> hs] IN
            IF ~hs THEN [ok |-> TRUE, obus |-> Append(acc, base @@ [payload |-> Slice(s, j, Len(s))])]
            ELSE LET r == ReadLeb(s, j) IN
                 IF ~r.ok \/ Len(r.digits) > 8 \/ Len(CanonDigits(r.digits)) > 4 THEN [ok |-> FALSE, obus |-> acc]
                 ELSE LET n == DigitsVal(CanonDigits(r.digits)) IN
                      IF r.next + n - 1 > Len(s) THEN [ok |-> FALSE, obus |-> acc]
                      ELSE ReadStream(s, r.next + n, Append(acc, base @@ [payload |-> Slice(s, r.next, r.next + n - 1)]))
\* as transmitted in an RTP element: size flag cleared, no size field
TxForm(o) == HeaderBytes(o, FALSE) \o o.payload
\* as the depacketizer must hand it on: with a size field
SizedForm(o) == HeaderBytes(o, TRUE) \o LebOfNat(Len(o.payload)) \o o.payload
Transmitted(obus) == SelectSeq(obus, LAMBDA o : o.type \notin {2, 8})       \* temporal delimiters and tile lists are not sent

\* ---- aggregation header and element parsing ----
AggZ(p) == p[1] >= 128
AggY(p) == (p[1] \div 64) % 2 = 1
AggW(p) == (p[1] \div 16) % 4
RECURSIVE Elems(_, _, _, _)
Elems(p, i, w, acc) ==    \* i: 1-based index of the next element; w: W field
  IF i > Len(p) THEN [ok |-> (w = 0 \/ Len(acc) = w), elems |-> acc]
  ELSE IF w # 0 /\ Len(acc) = w - 1 THEN [ok |-> TRUE, elems |-> Append(acc, Slice(p, i, Len(p)))]     \* last element: no length
  ELSE LET r == ReadLeb(p, i) IN
       IF ~r.ok \/ Len(r.digits) > 4 THEN [ok |-> FALSE, elems |-> acc]
       ELSE LET n == DigitsVal(r.digits) IN
            IF r.next + n - 1 > Len(p) THEN [ok |-> FALSE, elems |-> acc]
            ELSE Elems(p, r.next + n, w, Append(acc, Slice(p, r.next, r.next + n - 1)))
PacketElems(p) == IF Len(p) < 2 THEN [ok |-> FALSE, elems |-> <<>>] ELSE Elems(p, 2, AggW(p), <<>>)

\* ---- stitching: elements across packets -> OBUs; also which OBU (index) each packet touches ----
RECURSIVE Stitch(_, _, _, _, _, _)
Stitch(ps, j, cur, open, done, touch) ==
  \* cur: bytes of the OBU being continued (open = TRUE) ; done: completed tx forms ; touch[j]: set of OBU indices packet j carries
  IF j > Len(ps) THEN [reason |-> IF open THEN "last_packet_has_y" ELSE "", obus |-> done, touch |-> touch]
  ELSE
    LET p == ps[j]  pe == PacketElems(p) IN
    IF ~pe.ok THEN [reason |-> "packet_does_not_parse_under_w", obus |-> done, touch |-> touch]
    ELSE IF pe.elems = <<>> THEN [reason |-> "packet_without_element", obus |-> done, touch |-> touch]
    ELSE IF \E k \in 1..Len(pe.elems) : pe.elems[k] = <<>> THEN [reason |-> "empty_element", obus |-> done, touch |-> touch]
    ELSE IF AggZ(p) # open THEN [reason |-> "z_not_previous_y", obus |-> done, touch |-> touch]
    ELSE
      LET n == Len(pe.elems)
          y == AggY(p)
          \* element 1 continues cur when Z; the last element stays open when Y
          firstFull == IF open THEN cur \o pe.elems[1] ELSE pe.elems[1]
          whole == [k \in 1..n |-> IF k = 1 THEN firstFull ELSE pe.elems[k]]
          ncomplete == IF y THEN n - 1 ELSE n
          newdone == done \o SubSeq(whole, 1, ncomplete)
          idx == { Len(done) + k : k \in 1..n }          \* OBU indices (in transmission order) this packet carries
      IN Stitch(ps, j + 1, IF y THEN whole[n] ELSE <<>>, y, newdone, Append(touch, idx))

\* rule (6): OBUs with extension headers sharing a packet carry the same (temporal, spatial) id
SameLayer(tx, idx) ==
  \A a, b \in idx : (a <= Len(tx) /\ b <= Len(tx) /\ tx[a].ext /\ tx[b].ext) => (tx[a].tid = tx[b].tid /\ tx[a].sid = tx[b].sid)

AggregationReason(obus, mtu, out) ==
  LET tx == Transmitted(obus)
      st == Stitch(out, 1, <<>>, FALSE, <<>>, <<>>) IN
  IF \E j \in 1..Len(out) : Len(out[j]) > mtu THEN "packet_exceeds_mtu"
  ELSE IF st.reason # "" THEN st.reason
  ELSE IF st.obus # [i \in 1..Len(tx) |-> TxForm(tx[i])] THEN
         (IF Len(st.obus) = Len(tx) /\ \E i \in 1..Len(tx) : st.obus[i] # TxForm(tx[i]) /\ Len(st.obus[i]) >= 1 /\ (st.obus[i][1] \div 2) % 2 = 1
          THEN "size_flag_not_cleared" ELSE "obus_not_reproduced")
  ELSE IF \E j \in 1..Len(out) : ~SameLayer(tx, st.touch[j]) THEN "different_layers_share_packet"
  ELSE ""
ExpectedDepack(obus) == LET tx == Transmitted(obus) IN Flatten([i \in 1..Len(tx) |-> SizedForm(tx[i])])
ExpectedObuList(obus) == LET tx == Transmitted(obus) IN [i \in 1..Len(tx) |-> TxForm(tx[i])]

\* ---- OBU header codec on a byte pair ----
ObuHeaderFields(b0, b1) ==
  [ok |-> b0 < 128, type |-> (b0 \div 8) % 16, ext |-> (b0 \div 4) % 2 = 1, hassize |-> (b0 \div 2) % 2 = 1, r1 |-> b0 % 2,
   tid |-> IF (b0 \div 4) % 2 = 1 THEN b1 \div 32 ELSE 0, sid |-> IF (b0 \div 4) % 2 = 1 THEN (b1 \div 8) % 4 ELSE 0,
   r3 |-> IF (b0 \div 4) % 2 = 1 THEN b1 % 8 ELSE 0, size |-> IF (b0 \div 4) % 2 = 1 THEN 2 ELSE 1]
=============================================================================
