------------------------------- MODULE VP8Gen -------------------------------
(* Case generator for C11: (a) descriptors - every X/I/L/T/K/N/S/M flag     *)
(* combination with boundary field values, followed by 0/1/5 payload bytes, *)
(* and every truncation of them; (b) payloader histories: frames around the *)
(* fragment budget x MTU x picture-id mode x start id, three frames each.   *)
EXTENDS VP8, TraceIO, SequencesExt
CONSTANTS Rich, Mtus

RECURSIVE Pow2(_)
Pow2(n) == IF n = 0 THEN 1 ELSE 2 * Pow2(n - 1)
B(i, k) == (i \div Pow2(k)) % 2
PicIds == IF Rich THEN <<0, 1, 127, 128, 255, 256, 32767>> ELSE <<0, 127, 128, 32767>>
Tks == IF Rich THEN <<0, 90, 165, 255>> ELSE <<90, 255>>
DescOf(fi, vi) ==
  LET m == B(fi, 7)
      pid == PicIds[(vi % Len(PicIds)) + 1] IN
  [x |-> B(fi, 0), n |-> B(fi, 1), s |-> B(fi, 2), i |-> B(fi, 3), l |-> B(fi, 4), t |-> B(fi, 5), k |-> B(fi, 6), m |-> m,
   pid |-> IF vi % 2 = 0 THEN 0 ELSE 7, picid |-> IF m = 0 THEN pid % 128 ELSE pid,
   tl0 |-> IF (vi \div 2) % 2 = 0 THEN 0 ELSE 255, tk |-> Tks[((vi \div 3) % Len(Tks)) + 1],
   r0 |-> IF (vi \div 5) % 2 = 0 THEN 0 ELSE 72, r1 |-> IF (vi \div 7) % 2 = 0 THEN 0 ELSE 15]
NV == Len(PicIds) * 4
DecCase(fi, vi, pl) ==
  LET d == DescOf(fi, vi)  full == Desc(d) \o Pat(pl, vi + 1) IN
  [fam |-> "C11", kind |-> "decode", bytes |-> full, dlen |-> Len(Desc(d)), want |-> Fields(d, Pat(pl, vi + 1)), wantok |-> TRUE,
   class |-> "desc_" \o (IF d.x = 0 THEN "basic" ELSE "ext") \o (IF d.x = 1 /\ d.i = 1 /\ d.m = 1 THEN "_pid15" ELSE IF d.x = 1 /\ d.i = 1 THEN "_pid7" ELSE "")]
Decs == [j \in 1..(256 * NV * 3) |-> DecCase((j - 1) % 256, ((j - 1) \div 256) % NV, <<0, 1, 5>>[(((j - 1) \div (256 * NV)) % 3) + 1])]
\* every truncation of the descriptors with 1 payload byte (at most 7 bytes long)
TruncCand(c, cut) ==
   [fam |-> "C11", kind |-> "decode", bytes |-> Take(c.bytes, cut), dlen |-> c.dlen,
    want |-> [c.want EXCEPT !.Payload = IF cut > c.dlen THEN Take(c.want.Payload, cut - c.dlen) ELSE <<>>],
    wantok |-> (cut >= c.dlen), valid |-> cut < Len(c.bytes), class |-> IF cut >= c.dlen THEN "trunc_payload" ELSE "trunc_descriptor"]
Truncs == SelectSeq([j \in 1..(256 * NV * 7) |-> TruncCand(Decs[256 * NV + ((j - 1) \div 7) + 1], (j - 1) % 7)], LAMBDA c : c.valid)
MtuSeq == SetToSeq(Mtus)
FrameLens(m) == <<1, m - 4, m - 3, m - 2, m - 1, m, 3 * m>>
StartIds == <<0, 1, 126, 127, 128, 129, 32766, 32767>>
PayCase(mi, li, si, pidOn) ==
  LET m == MtuSeq[mi] IN
  [fam |-> "C11", kind |-> "payload", valid |-> TRUE, mtu |-> m, pidon |-> pidOn, startid |-> StartIds[si],
   frames |-> [f \in 1..3 |-> [len |-> Max(1, FrameLens(m)[((li + f - 2) % 7) + 1]), salt |-> f + li]],
   class |-> "payload_" \o (IF pidOn THEN "pid" ELSE "nopid") \o (IF m <= 12 THEN "_small_mtu" ELSE "_large_mtu")]
Pays == [j \in 1..(Len(MtuSeq) * 7 * 8 * 2) |->
   PayCase(((j - 1) % Len(MtuSeq)) + 1, (((j - 1) \div Len(MtuSeq)) % 7) + 1, (((j - 1) \div (Len(MtuSeq) * 7)) % 8) + 1, ((j - 1) \div (Len(MtuSeq) * 56)) % 2 = 0)]
Raw == Decs \o Truncs \o Pays
CaseSeq == [i \in 1..Len(Raw) |-> Raw[i] @@ [case |-> i]]
ASSUME WriteCases(CaseSeq) /\ PrintT(<<"CASES", Len(CaseSeq)>>)
=============================================================================
