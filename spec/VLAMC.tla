-------------------------------- MODULE VLAMC --------------------------------
(* Oracle sanity for C19: DecVLA(EncVLA(v)) = v for every slot subset with  *)
(* rotating temporal counts / bitrates, and the encoding has the minimal    *)
(* length the layout allows.                                                *)
EXTENDS VLA
CONSTANTS MaxNs
VARIABLES ns, sub, lvl

Init == ns \in 1..MaxNs /\ sub = 0 /\ lvl = 0
Next == lvl = 0 /\ lvl' = 1 /\ sub' \in 0..(Pow2(4 * ns) - 1) /\ UNCHANGED ns
Spec == Init /\ [][Next]_<<ns, sub, lvl>>
V(res) == MkVLA(ns, SubsetOf(sub, ns), sub % 97, res)
DomValid == Valid(V(TRUE))
DecInvertsEnc == \A res \in BOOLEAN : (SubsetOf(sub, ns) # {} \/ ~res) =>
    LET d == DecVLA(EncVLA(V(res))) IN d.ok /\ d.v = V(res)
=============================================================================
