CONSTANTS Mtus = {3, 4, 5, 8, 16, 40, 1200} Rich = FALSE
