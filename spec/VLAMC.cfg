SPECIFICATION Spec
CONSTANTS MaxNs = 3
INVARIANTS DomValid DecInvertsEnc
CHECK_DEADLOCK FALSE
