SPECIFICATION Spec
INVARIANTS FlagsRoundTrip LengthLaw HeaderBitsLaw
CHECK_DEADLOCK FALSE
