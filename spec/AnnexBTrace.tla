----------------------------- MODULE AnnexBTrace -----------------------------
(* Judge for G03: the units the H264 and H265 payloaders cut out of a byte  *)
(* stream (observed through Payload with the largest MTU, no aggregation)   *)
(* against AnnexB!Parse. Conformant streams must give exactly the units;    *)
(* any string must not panic; a string without any start code prefix is     *)
(* taken as one bare unit (the library's documented convenience).           *)
EXTENDS AnnexB, TraceIO
VARIABLES l, st
Reason(e) ==
  IF e.res # "ok" THEN "panic"
  ELSE LET r == Parse(e.bytes)
           \* an HEVC unit has a two-byte header and at least one more byte: shorter units are outside the H265 payloader's domain
           indomain == e.codec = "h264" \/ \A k \in 1..Len(r.units) : Len(r.units[k]) >= 3 IN
    IF ~indomain \/ (e.codec = "h265" /\ ~HasStartCode(e.bytes) /\ Len(e.bytes) < 3) THEN ""
    ELSE IF r.ok THEN
       (IF e.units = r.units THEN ""
        ELSE IF Len(e.units) = Len(r.units) /\ \A k \in 1..Len(r.units) : StripZeros(e.units[k]) = r.units[k] THEN "framing_zeros_left_in_unit"
        ELSE "units_differ")
    ELSE IF ~HasStartCode(e.bytes) /\ e.bytes # <<>> /\ e.units # <<e.bytes>> THEN "bare_unit_not_passed_through"
    ELSE ""
Init == l = 1 /\ st = 0
Next ==
  /\ l <= Len(Trace)
  /\ l' = l + 1
  /\ UNCHANGED st
  /\ LET e == Trace[l] IN
       IF e.ev = "reset" THEN TRUE
       ELSE LET r == Reason(e) IN IF r = "" THEN TRUE ELSE Reject(e, r)
Spec == Init /\ [][Next]_<<l, st>>
Done == Consumed
=============================================================================
