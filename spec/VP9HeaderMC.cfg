SPECIFICATION Spec
INVARIANTS ParseInvertsEncode CutRefused
CHECK_DEADLOCK FALSE
