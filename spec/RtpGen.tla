------------------------------- MODULE RtpGen -------------------------------
(* Case generator for the packet-value families C01, C04, C20: TLC          *)
(* enumerates RtpDom!Packets and, per family, the destination lengths       *)
(* (C04) or mutation sites (C20).                                           *)
EXTENDS RtpDom, TraceIO
CONSTANT Fam

Class(p) ==
  LayoutClass(p) \o (IF ExtFlush(p) THEN "_flush" ELSE "") \o (IF p.payload = <<>> THEN "_nopayload" ELSE "")
  \o (IF p.pad THEN "_pad" ELSE "")

\* C04: [which (0 packet, 1 header), dst length, prior fill (0 zero, 1 0xFF, 2 pattern)]
Dsts(p) ==
  LET hs == HeaderSize(p)  sz == Len(Canon(p))
      pl == { n \in {0, 1, sz - 1, sz, sz + 1, sz + 7, hs, hs + 1, hs - 1, (hs + sz) \div 2} : n >= 0 }
      hl == { n \in {0, 1, 11, hs - 1, hs, hs + 1, hs + 7} : n >= 0 }
  IN SetToSeq({ <<0, n, f>> : n \in pl, f \in {1, 2} } \cup { <<0, sz, 0>> }
              \cup { <<1, n, f>> : n \in hl, f \in {1, 2} })

\* C20: single mutations applied to the original or to the clone
FreeOneByteId(p) == CHOOSE id \in 1..14 : \A i \in 1..Len(p.exts) : p.exts[i].id # id
Sites(p) ==
  LET pay == IF p.payload = <<>> THEN {} ELSE { [kind |-> "payload", a |-> i, b |-> 0] : i \in {0, Len(p.payload) - 1} }
      cs == IF p.csrc = <<>> THEN {} ELSE { [kind |-> "csrc", a |-> i, b |-> 0] : i \in {0, Len(p.csrc) - 1} }
      ev == { [kind |-> "extval", a |-> i - 1, b |-> Len(p.exts[i].val) - 1] : i \in { j \in 1..Len(p.exts) : p.exts[j].val # <<>> } }
      setnew == IF ~p.x THEN { [kind |-> "set", a |-> 5, b |-> 3] }
                ELSE IF p.profile = OneByte /\ Len(p.exts) < 14 THEN { [kind |-> "set", a |-> FreeOneByteId(p), b |-> 2] }
                ELSE IF p.profile = TwoByte THEN { [kind |-> "set", a |-> 200, b |-> 20] }
                ELSE {}
      setold == IF p.x /\ p.exts # <<>> THEN { [kind |-> "set", a |-> p.exts[1].id, b |-> (IF p.profile \in {OneByte, TwoByte} THEN 5 ELSE 8)] } ELSE {}
      del == IF p.x /\ p.exts # <<>> /\ p.profile \in {OneByte, TwoByte}
             THEN { [kind |-> "del", a |-> p.exts[i].id, b |-> 0] : i \in {1, Len(p.exts)} } ELSE {}
      ps == { [kind |-> "padsize", a |-> 0, b |-> 0] }
      all == pay \cup cs \cup ev \cup setnew \cup setold \cup del \cup ps
      \* two-step histories: the observed side first gets an extension of its own, then the other side adds one
      second == IF ~p.x THEN {}
                ELSE IF p.profile = OneByte /\ Len(p.exts) < 13 THEN
                     LET a == FreeOneByteId(p)  b == CHOOSE id \in 1..14 : id # a /\ \A i \in 1..Len(p.exts) : p.exts[i].id # id IN
                     { [kind |-> "set", a |-> a, b |-> 2, prekind |-> "set", prea |-> b, preb |-> 3] }
                ELSE IF p.profile = TwoByte THEN { [kind |-> "set", a |-> 200, b |-> 20, prekind |-> "set", prea |-> 201, preb |-> 5] }
                ELSE {}
      \* growing the exported slices: both sides append (the observed side first)
      grow == (IF Len(p.csrc) < 14 THEN { [kind |-> "csrc_append", a |-> 7, b |-> 0, prekind |-> "csrc_append", prea |-> 9, preb |-> 0],
                                           [kind |-> "csrc_append", a |-> 7, b |-> 0, prekind |-> "", prea |-> 0, preb |-> 0] } ELSE {})
              \cup { [kind |-> "payload_append", a |-> 77, b |-> 0, prekind |-> "payload_append", prea |-> 99, preb |-> 0],
                     [kind |-> "payload_append", a |-> 77, b |-> 0, prekind |-> "", prea |-> 0, preb |-> 0] }
      plain == { [kind |-> m.kind, a |-> m.a, b |-> m.b, prekind |-> "", prea |-> 0, preb |-> 0] : m \in all } \cup grow
  IN SetToSeq({ [side |-> s, kind |-> m.kind, a |-> m.a, b |-> m.b, prekind |-> m.prekind, prea |-> m.prea, preb |-> m.preb]
                : s \in {"orig", "clone"}, m \in plain \cup second })

CaseOf(p) ==
  [fam |-> Fam, p |-> p, tags |-> Tags(p), class |-> Class(p),
   dsts |-> IF Fam = "C04" THEN Dsts(p) ELSE <<>>,
   sites |-> IF Fam = "C20" THEN Sites(p) ELSE <<>>]
PSeq == SetToSeq(Packets)
\* C01: the same object is later rebuilt in place into another packet of the domain (rotated index)
CaseSeq == [i \in 1..Len(PSeq) |-> CaseOf(PSeq[i]) @@ [case |-> i, p2 |-> PSeq[((i * 37) % Len(PSeq)) + 1]]]
ASSUME WriteCases(CaseSeq) /\ PrintT(<<"CASES", Len(CaseSeq)>>)
=============================================================================
