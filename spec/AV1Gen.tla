------------------------------- MODULE AV1Gen -------------------------------
(* Case generator for C13: OBU lists (1-4 OBUs, all 16 types with emphasis  *)
(* on {1,2,3,6,8,15}, extension headers with (T,S) in {(0,0),(1,0),(0,1)}   *)
(* in all orders, sizes around the MTU and the 127/128 LEB128 boundary,     *)
(* size field present/omitted on the last OBU) x MTU; LEB128 values around  *)
(* every 7-bit boundary; OBU header byte pairs.                             *)
EXTENDS AV1, TraceIO, SequencesExt
CONSTANTS Mtus, Stride, HdrStride

Obu(t, ev, n, hs, salt) ==   \* ev: 0 none, 1 (0,0), 2 (1,0), 3 (0,1)
  [type |-> t, ext |-> ev > 0, tid |-> IF ev = 2 THEN 1 ELSE 0, sid |-> IF ev = 3 THEN 1 ELSE 0, r3 |-> 0, r1 |-> 0, hassize |-> hs, payload |-> Pat(n, salt)]
TypeSeq == <<1, 2, 3, 6, 8, 15, 4, 5, 7, 0, 9, 14>>
MtuSeq == SetToSeq(Mtus)
\* around one and two packet capacities (capacity = m - 1; header 1-2 bytes, length field 1-2 bytes: offsets -7..+1), and the 127/128 boundary
SizesFor(m) == SetToSeq({ n \in {0, 1, 2, 126, 127, 128, 129} \cup ((m - 4)..(m + 1)) \cup ((2 * m - 7)..(2 * m + 1)) : n >= 0 /\ n <= 410 })
Case(m, obus, cls) == [fam |-> "C13", kind |-> "payload", valid |-> TRUE, mtu |-> m, obus |-> obus, stream |-> Stream(obus), class |-> cls]
\* S1: one OBU
S1 == Flatten([mi \in 1..Len(MtuSeq) |-> LET m == MtuSeq[mi]  sz == SizesFor(m) IN
        [j \in 1..(12 * 4 * Len(sz) * 2) |->
           LET t == TypeSeq[((j - 1) % 12) + 1]  ev == ((j - 1) \div 12) % 4  n == sz[(((j - 1) \div 48) % Len(sz)) + 1]  hs == (j - 1) \div (48 * Len(sz)) = 0 IN
           Case(m, <<Obu(t, ev, n, hs, j)>>, "one_obu" \o (IF t \in {2, 8} THEN "_not_sent" ELSE IF n + 2 > m THEN "_fragmented" ELSE "") \o (IF ~hs THEN "_nosize" ELSE ""))]])
\* S2: two OBUs (strided product)
S2 == Flatten([mi \in 1..Len(MtuSeq) |-> LET m == MtuSeq[mi]  sz == SizesFor(m)
               total == 3 * 4 * Len(sz) * 4 * 4 * Len(sz) * 2
               pick == SelectSeq([i \in 1..total |-> i], LAMBDA i : (i + mi) % Stride = 0) IN
        [k \in 1..Len(pick) |->
           LET j == pick[k] - 1
               t1 == <<1, 6, 3>>[(j % 3) + 1]  e1 == (j \div 3) % 4  n1 == sz[((j \div 12) % Len(sz)) + 1]
               j2 == j \div (12 * Len(sz))
               t2 == <<6, 2, 8, 15>>[(j2 % 4) + 1]  e2 == (j2 \div 4) % 4  n2 == sz[((j2 \div 16) % Len(sz)) + 1]  hs == (j2 \div (16 * Len(sz))) % 2 = 0 IN
           Case(m, <<Obu(t1, e1, n1, TRUE, j), Obu(t2, e2, n2, hs, j + 1)>>, "two_obus" \o (IF e1 > 0 /\ e2 > 0 /\ e1 # e2 THEN "_layers_differ" ELSE ""))]])
\* S3: three and four OBUs with all orders of extension ids, small sizes, incl. a leading temporal delimiter
S3 == Flatten([mi \in 1..Len(MtuSeq) |-> LET m == MtuSeq[mi] IN
        [j \in 1..(64 * 3 * 2) |->
           LET e1 == (j - 1) % 4  e2 == ((j - 1) \div 4) % 4  e3 == ((j - 1) \div 16) % 4  szc == ((j - 1) \div 64) % 3  td == (j - 1) \div 192 = 1
               n == <<1, 3, m>>[szc + 1]
               base == <<Obu(1, e1, n, TRUE, j), Obu(6, e2, 2, TRUE, j + 1), Obu(6, e3, n + 1, TRUE, j + 2)>> IN
           Case(m, IF td THEN <<Obu(2, 0, 0, TRUE, 0)>> \o base \o <<Obu(8, 0, 3, TRUE, 9)>> ELSE base,
                "three_obus" \o (IF e1 > 0 /\ e2 > 0 /\ e3 > 0 /\ e1 # e2 /\ e1 = e3 THEN "_layers_aba" ELSE IF e1 > 0 /\ e2 > 0 /\ e1 # e2 THEN "_layers_differ" ELSE ""))]])
\* LEB128: values as digit sequences around every 7-bit boundary up to 2^32 - 1
LebDigitSets == << <<0>>, <<1>>, <<126>>, <<127>>, <<0, 1>>, <<1, 1>>, <<126, 127>>, <<127, 127>>, <<0, 0, 1>>, <<1, 0, 1>>, <<127, 127, 127>>, <<0, 0, 0, 1>>, <<127, 127, 127, 127>>,
                  <<0, 0, 0, 0, 1>>, <<1, 0, 0, 0, 1>>, <<126, 127, 127, 127, 15>>, <<127, 127, 127, 127, 15>>, <<48, 9>>, <<22, 1>>, <<16, 3>>, <<63, 132 % 128, 61>> >>
Lebs == [j \in 1..Len(LebDigitSets) |-> [fam |-> "C13", kind |-> "leb", valid |-> TRUE, digits |-> LebDigitSets[j], bytes |-> LebBytes(LebDigitSets[j]), class |-> "leb128"]]
Hdrs == LET vs == SelectSeq([v \in 1..65536 |-> v - 1], LAMBDA v : v % HdrStride = 0 \/ v \in {0, 1, 255, 256, 1023, 1024, 32767, 32768, 65535}) IN
  [j \in 1..Len(vs) |-> [fam |-> "C13", kind |-> "obuhdr", valid |-> TRUE, v |-> vs[j], class |-> "obu_header"]]
\* S4: element lengths across the 16383/16384 LEB128 boundary with MTUs just above it
S4 == Flatten([mi \in 1..3 |-> LET m == <<16386, 16387, 16390>>[mi] IN
        [d \in 1..9 |-> Case(m, <<Obu(3, 0, 16378 + d, TRUE, d), Obu(6, 0, 3, TRUE, d + 1)>>, "two_obus_leb3_boundary")]])
Raw == S1 \o S2 \o S3 \o S4 \o Lebs \o Hdrs
CaseSeq == [i \in 1..Len(Raw) |-> Raw[i] @@ [case |-> i]]
ASSUME WriteCases(CaseSeq) /\ PrintT(<<"CASES", Len(CaseSeq)>>)
=============================================================================
