SPECIFICATION Spec
CONSTANTS Sizes = {3, 4, 5, 8, 9}
INVARIANTS ParseInvertsEncode TruncatedRefused
CHECK_DEADLOCK FALSE
