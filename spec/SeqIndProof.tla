---------------------------- MODULE SeqIndProof ----------------------------
(* TLAPS proof (unbounded, no model checking involved) that the sequencer   *)
(* seen as a counter machine keeps the invariant of SeqInd.tla: after h     *)
(* draws the state is a function of h alone. Same definitions as SeqInd.    *)
EXTENDS Integers, TLAPS
CONSTANT Start
VARIABLES sn, roc, h
vars == <<sn, roc, h>>
MOD == 65536
S0 == (Start + MOD - 1) % MOD
Init == sn = S0 /\ roc = 0 /\ h = 0
Draw == /\ sn' = (sn + 1) % MOD
        /\ roc' = IF (sn + 1) % MOD = 0 THEN roc + 1 ELSE roc
        /\ h' = h + 1
Next == Draw
Spec == Init /\ [][Next]_vars
IndInv ==
  /\ sn \in 0..(MOD - 1) /\ roc \in Nat /\ h \in Nat
  /\ roc * MOD + sn = S0 + h
ASSUME StartRange == Start \in 0..(MOD - 1)

LEMMA InitInv == Init => IndInv
  BY StartRange DEF Init, IndInv, S0, MOD
LEMMA StepInv == IndInv /\ [Next]_vars => IndInv'
  BY StartRange DEF IndInv, Next, Draw, vars, S0, MOD
THEOREM Safety == Spec => []IndInv
  BY InitInv, StepInv, PTL DEF Spec
\* what the judges use: the extended counter never loses a step, hence
\* sn = (S0 + h) % MOD and roc = (S0 + h) \div MOD
LEMMA Closed == IndInv => sn = (S0 + h) % MOD /\ roc = (S0 + h) \div MOD
  BY StartRange DEF IndInv, S0, MOD
=============================================================================
