----------------------------- MODULE Depacketizer -----------------------------
(* C09: the generic depacketizer contract. A receiver is an object with     *)
(* history; per-packet formats must behave as a function of the current     *)
(* payload only (FreshEqualsReused), stateful formats must own what they    *)
(* retain (a twin fed pristine copies, whose inputs are never overwritten,  *)
(* produces the same results), and no call may panic.                       *)
EXTENDS Naturals, Sequences, TLC

PerPacket(kind) == kind \in {"vp8", "vp9", "h265", "h265_donl", "h265_toggle", "opus"}
OwnsState(kind) == kind \in {"h264", "h264_avc", "av1"}
Ok(r) == r = "ok"

UnmarshalReason(e) ==
  IF e.res = "panic" \/ e.twin_res = "panic" \/ e.fresh_res = "panic" THEN "unmarshal_panic"
  ELSE IF PerPacket(e.kind) /\ Ok(e.res) # Ok(e.fresh_res) THEN "reuse_outcome_differs"
  ELSE IF PerPacket(e.kind) /\ Ok(e.res) /\ e.out # e.fresh_out THEN "reuse_output_differs"
  ELSE IF PerPacket(e.kind) /\ Ok(e.res) /\ e.meta # e.fresh_meta THEN "reuse_metadata_differs"
  ELSE IF OwnsState(e.kind) /\ (Ok(e.res) # Ok(e.twin_res) \/ (Ok(e.res) /\ e.out # e.twin_out)) THEN "retained_state_aliases_input"
  ELSE ""
ProbeReason(e) ==
  IF e.res # "ok" THEN "probe_panic"
  ELSE IF e.head # e.fresh_head \/ e.tail # e.fresh_tail THEN "probe_depends_on_receiver_state"
  ELSE IF e.kind = "opus" /\ ~(e.head /\ e.tail) THEN "opus_partition_flags"
  ELSE ""
SweepReason(e) == IF e.panics # 0 THEN "sweep_panic" ELSE IF e.points # 65536 THEN "sweep_incomplete" ELSE ""
=============================================================================
