CONSTANTS Stride = 257 NRandom = 200 ConcOps = 1600 Gs = {2, 4, 16}
