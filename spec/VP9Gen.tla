------------------------------- MODULE VP9Gen -------------------------------
(* Case generator for C12: descriptors (all 256 flag bytes x 20 field       *)
(* variants) with payload, all truncations of a subset; uncompressed frame  *)
(* headers (profiles x colour spaces x depth x subsampling x sizes x frame  *)
(* kinds) for vp9.Header; payloader histories in both modes.                *)
EXTENDS VP9, TraceIO, SequencesExt
CONSTANTS Mtus, TruncStride

DescCase(fl, s, pl) ==
  LET d == MkDesc(fl, s)  full == Desc(d) \o Pat(pl, s + 1) IN
  [fam |-> "C12", kind |-> "decode", valid |-> TRUE, bytes |-> full, dlen |-> Len(Desc(d)), want |-> Fields(d, Pat(pl, s + 1)), wantok |-> TRUE,
   class |-> "desc" \o (IF d.v THEN "_ss" ELSE "") \o (IF d.f /\ d.p THEN "_refs" ELSE "") \o (IF d.l THEN "_layer" ELSE "") \o (IF d.i THEN "_pid" ELSE "")]
Descs == [j \in 1..(256 * 20 * 2) |-> DescCase((j - 1) % 256, ((j - 1) \div 256) % 20, IF (j - 1) \div 5120 = 0 THEN 3 ELSE 0)]
TruncCand(c, cut) ==
  [fam |-> "C12", kind |-> "decode", valid |-> cut < Len(c.bytes), bytes |-> Take(c.bytes, cut), dlen |-> c.dlen,
   want |-> [c.want EXCEPT !.Payload = IF cut > c.dlen THEN Take(c.want.Payload, cut - c.dlen) ELSE <<>>], wantok |-> (cut >= c.dlen),
   class |-> IF cut >= c.dlen THEN "trunc_payload" ELSE "trunc_descriptor"]
MaxLen == 36
Truncs == SelectSeq([j \in 1..((5120 \div TruncStride) * MaxLen) |-> TruncCand(Descs[(((j - 1) \div MaxLen) + 1) * TruncStride], (j - 1) % MaxLen)], LAMBDA c : c.valid)

\* frame headers
Hdr(pr, cs, deep, ss, szi, kind) ==
  LET sz == << <<1, 1>>, <<2, 255>>, <<256, 640>>, <<640, 480>>, <<65535, 2>>, <<65536, 65536>> >>[szi] IN
  [profile |-> pr, existing |-> (kind = 2), idx |-> (pr + cs) % 8, nonkey |-> (kind = 1), show |-> (cs % 2 = 0), errres |-> (pr % 2 = 1),
   deep |-> deep, cs |-> cs, range |-> (cs % 3 = 0), ssx |-> (ss \div 2 = 1), ssy |-> (ss % 2 = 1), w |-> sz[1], h |-> sz[2]]
HdrCase(j) ==
  LET pr == j % 4  cs == (j \div 4) % 8  deep == (j \div 32) % 2 = 1  ss == (j \div 64) % 4  szi == ((j \div 256) % 6) + 1  kind == (j \div 1536) % 3
      h == Hdr(pr, cs, deep, ss, szi, kind) IN
  [fam |-> "C12", kind |-> "header", valid |-> TRUE, bytes |-> FrameHeader(h) \o Pat(6, j), nbits |-> Len(HeaderBits(h)), want |-> HeaderFields(h),
   class |-> "header_" \o (IF kind = 0 THEN "key" ELSE IF kind = 1 THEN "inter" ELSE "show_existing") \o "_p" \o ToString(pr) \o (IF szi = 6 THEN "_65536" ELSE "")]
Hdrs == [j \in 1..(1536 * 3) |-> HdrCase(j - 1)]

\* payloader histories: three frames (key, inter, key) per case
MtuSeq == SetToSeq(Mtus)
PayCase(j) ==
  LET mi == (j % Len(MtuSeq)) + 1  m == MtuSeq[mi]  flex == (j \div Len(MtuSeq)) % 2 = 0
      si == ((j \div (2 * Len(MtuSeq))) % 4) + 1  li == (j \div (8 * Len(MtuSeq))) % 6  pr == (j \div (48 * Len(MtuSeq))) % 4
      frame(n, kd) == [hdr |-> Hdr(pr, (j + n) % 8, n % 2 = 0, (j + n) % 4, ((j + n) % 5) + 1, kd),
                       body |-> Max(0, <<1, m - 12, m - 11, m - 3, 2 * m, 3 * m + 1>>[((li + n) % 6) + 1]), salt |-> n + j] IN
  [fam |-> "C12", kind |-> "payload", valid |-> TRUE, mtu |-> m, flexible |-> flex, startid |-> <<0, 1, 32766, 32767>>[si],
   frames |-> << frame(1, 0), frame(2, 1), frame(3, 0) >>,
   class |-> "payload_" \o (IF flex THEN "flexible" ELSE "nonflexible") \o (IF m < 100 THEN "_small_mtu" ELSE "_large_mtu")]
\* key frames whose headers differ only in the lowest bit of a size field (or not at all)
SimilarCase(j) ==
  LET pr == j % 4  cs == <<2, 7, 1>>[((j \div 4) % 3) + 1]  flex == (j \div 12) % 2 = 0  m == <<16, 1200>>[((j \div 24) % 2) + 1]
      hd(w, hh) == [profile |-> pr, existing |-> FALSE, idx |-> 0, nonkey |-> FALSE, show |-> TRUE, errres |-> FALSE, deep |-> TRUE, cs |-> cs,
                    range |-> TRUE, ssx |-> TRUE, ssy |-> FALSE, w |-> w, h |-> hh] IN
  [fam |-> "C12", kind |-> "payload", valid |-> TRUE, mtu |-> m, flexible |-> flex, startid |-> 300,
   frames |-> << [hdr |-> hd(1280, 720), body |-> 9, salt |-> 1], [hdr |-> hd(1280, 719), body |-> 9, salt |-> 1], [hdr |-> hd(1279, 719), body |-> 9, salt |-> 1],
                 [hdr |-> hd(1279, 719), body |-> 9, salt |-> 1], [hdr |-> hd(1280, 720), body |-> 9, salt |-> 2] >>,
   class |-> "payload_similar_key_frames"]
Pays == [j \in 1..(Len(MtuSeq) * 2 * 4 * 6 * 4) |-> PayCase(j - 1)] \o [j \in 1..48 |-> SimilarCase(j - 1)]
Raw == Descs \o Truncs \o Hdrs \o Pays
CaseSeq == [i \in 1..Len(Raw) |-> Raw[i] @@ [case |-> i]]
ASSUME WriteCases(CaseSeq) /\ PrintT(<<"CASES", Len(CaseSeq)>>)
=============================================================================
