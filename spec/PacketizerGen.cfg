CONSTANTS Mtus = {64, 100, 1200, 1500} Depth = 3
