CONSTANTS
  Alpha2 = {0, 1, 2, 24, 28, 29, 48, 49, 50, 64, 96, 98, 100, 127, 128, 129, 144, 156, 192, 224, 240, 248, 254, 255}
  Alpha3 = {0, 1, 28, 98, 128, 144, 240, 255}
  Stride = 3
  Sweep = FALSE
  All2 = FALSE
