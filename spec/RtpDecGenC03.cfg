CONSTANTS
  PayLens = {0, 1, 5}
  PadSizes = {0, 1, 7}
  CsrcCounts = {0, 1, 15}
  Rich = FALSE
  Fam = "C03"
  KnobSet = "some"
  Stride = 48
