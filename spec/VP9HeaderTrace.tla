---------------------------- MODULE VP9HeaderTrace ----------------------------
(* Judge for G02: codecs/vp9.Header.Unmarshal against VP9Header!Parse.      *)
(* Accept exactly the headers the bitstream syntax allows, report the       *)
(* fields it defines; a Header that has parsed something before must give   *)
(* the same answer as a fresh one.                                          *)
EXTENDS VP9Header, TraceIO
VARIABLES l, st
FieldReason(o, r) ==
  IF o.profile # r.profile THEN "profile"
  ELSE IF o.sef # r.sef THEN "show_existing_frame"
  ELSE IF r.sef THEN (IF o.idx # r.idx THEN "frame_to_show_map_idx" ELSE "")
  ELSE IF o.nonkey # r.nonkey \/ o.show # r.show \/ o.errres # r.errres THEN "frame_flags"
  ELSE IF o.hascolor # r.key \/ o.hassize # r.key THEN "color_or_size_presence"
  ELSE IF ~r.key THEN ""
  ELSE IF o.depth # r.depth THEN "bit_depth"
  ELSE IF o.cs # r.cs \/ o.range # r.range THEN "color_space_or_range"
  ELSE IF ~r.rgb_nonconformant /\ (o.ssx # r.ssx \/ o.ssy # r.ssy) THEN "subsampling"
  ELSE IF o.wm1 # r.wm1 \/ o.hm1 # r.hm1 THEN "frame_size"
  ELSE IF o.width # r.wm1 + 1 \/ o.height # r.hm1 + 1 THEN "dimension_65536_not_representable"
  ELSE ""
Reason(e) ==
  IF e.res = "panic" \/ e.used.res = "panic" THEN "panic"
  ELSE LET r == Parse(e.bytes) IN
    IF r.ok /\ e.res # "ok" THEN "wellformed_header_refused"
    ELSE IF ~r.ok /\ e.res = "ok" THEN "malformed_header_accepted"
    ELSE IF ~r.ok THEN (IF e.used.res = "ok" THEN "malformed_header_accepted_by_used_receiver" ELSE "")
    ELSE LET a == FieldReason(e.obs, r) IN
         IF a # "" THEN a
         ELSE IF e.used.res # "ok" THEN "wellformed_header_refused_by_used_receiver"
         ELSE LET b == FieldReason(e.used.obs, r) IN IF b # "" THEN "used_receiver_" \o b ELSE ""
Init == l = 1 /\ st = 0
Next ==
  /\ l <= Len(Trace)
  /\ l' = l + 1
  /\ UNCHANGED st
  /\ LET e == Trace[l] IN
       IF e.ev = "reset" THEN TRUE
       ELSE LET r == Reason(e) IN IF r = "" THEN TRUE ELSE Reject(e, r)
Spec == Init /\ [][Next]_<<l, st>>
Done == Consumed
=============================================================================
