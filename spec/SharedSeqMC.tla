---------------------------- MODULE SharedSeqMC ----------------------------
(* G08 (growth): several packetizers that share one sequencer. Each         *)
(* packetizer process makes Calls calls; a call needs Need[p] sequence      *)
(* numbers and draws them ONE AT A TIME from the shared counter (each draw  *)
(* is the sequencer's critical section, C07) - so the trains of different   *)
(* packetizers may interleave, but no number is handed out twice, none is   *)
(* skipped, and every packetizer sees its own numbers ascend.               *)
(* Specification mutants (each must violate an invariant):                  *)
(*   LocalCount - a packetizer draws the first number of a call and counts  *)
(*                the rest locally (first + i), a tempting optimisation      *)
(*                that is only right for an unshared sequencer;              *)
(*   Unlocked   - the draw is a read and a write in two steps.               *)
EXTENDS Naturals, Sequences, FiniteSets, TLC
CONSTANTS P, Calls, Need, MOD, Start, LocalCount, Unlocked
VARIABLES ctr, roc, pc, call, left, tmp, got, last
vars == <<ctr, roc, pc, call, left, tmp, got, last>>
Procs == 1..P
Total == P * Calls * Need
Init ==
  /\ ctr = (Start + MOD - 1) % MOD /\ roc = 0
  /\ pc = [p \in Procs |-> "idle"] /\ call = [p \in Procs |-> 0] /\ left = [p \in Procs |-> 0]
  /\ tmp = [p \in Procs |-> 0] /\ last = [p \in Procs |-> 0]
  /\ got = [p \in Procs |-> <<>>]          \* history: the numbers on p's packets, in emission order
Begin(p) == pc[p] = "idle" /\ call[p] < Calls /\ pc' = [pc EXCEPT ![p] = "draw"] /\ left' = [left EXCEPT ![p] = Need]
            /\ call' = [call EXCEPT ![p] = @ + 1] /\ UNCHANGED <<ctr, roc, tmp, got, last>>
Bump(v) == (v + 1) % MOD
DrawAtomic(p) ==
  /\ pc[p] = "draw" /\ left[p] > 0 /\ ~Unlocked
  /\ \/ /\ LocalCount /\ left[p] < Need             \* count locally after the first draw of a call
        /\ got' = [got EXCEPT ![p] = Append(@, Bump(last[p]))] /\ last' = [last EXCEPT ![p] = Bump(@)]
        /\ UNCHANGED <<ctr, roc>>
     \/ /\ ~(LocalCount /\ left[p] < Need)
        /\ ctr' = Bump(ctr) /\ roc' = IF Bump(ctr) = 0 THEN roc + 1 ELSE roc
        /\ got' = [got EXCEPT ![p] = Append(@, Bump(ctr))] /\ last' = [last EXCEPT ![p] = Bump(ctr)]
  /\ left' = [left EXCEPT ![p] = @ - 1]
  /\ pc' = [pc EXCEPT ![p] = IF left[p] = 1 THEN "idle" ELSE "draw"]
  /\ UNCHANGED <<call, tmp>>
DrawRead(p) == pc[p] = "draw" /\ left[p] > 0 /\ Unlocked /\ tmp' = [tmp EXCEPT ![p] = ctr] /\ pc' = [pc EXCEPT ![p] = "write"]
               /\ UNCHANGED <<ctr, roc, call, left, got, last>>
DrawWrite(p) ==
  /\ pc[p] = "write"
  /\ ctr' = Bump(tmp[p]) /\ roc' = IF Bump(tmp[p]) = 0 THEN roc + 1 ELSE roc
  /\ got' = [got EXCEPT ![p] = Append(@, Bump(tmp[p]))] /\ last' = [last EXCEPT ![p] = Bump(tmp[p])]
  /\ left' = [left EXCEPT ![p] = @ - 1]
  /\ pc' = [pc EXCEPT ![p] = IF left[p] = 1 THEN "idle" ELSE "draw"]
  /\ UNCHANGED <<call, tmp>>
Next == \E p \in Procs : Begin(p) \/ DrawAtomic(p) \/ DrawRead(p) \/ DrawWrite(p)
Spec == Init /\ [][Next]_vars
Off(v) == (v + MOD - Start) % MOD               \* position of a number in the stream that starts at Start
AllOffs == UNION {{Off(got[p][i]) : i \in 1..Len(got[p])} : p \in Procs}
Handed == LET RECURSIVE S(_) S(p) == IF p = 0 THEN 0 ELSE Len(got[p]) + S(p - 1) IN S(P)
\* no number twice, none skipped: the numbers handed out so far are exactly the first Handed numbers of the stream
NoDupNoGap == Total < MOD => AllOffs = 0..(Handed - 1) 
\* every packetizer sees its own numbers ascend (in stream position)
Ascending == \A p \in Procs : \A i \in 1..(Len(got[p]) - 1) : Off(got[p][i]) < Off(got[p][i + 1])
\* the roll-over count is the number of zeros handed out
RocIsWraps == roc = Cardinality({o \in 0..(Handed - 1) : (Start + o) % MOD = 0}) \/ ~(AllOffs = 0..(Handed - 1))
Finished == \A p \in Procs : pc[p] = "idle" /\ call[p] = Calls
=============================================================================
