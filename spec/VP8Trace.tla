------------------------------ MODULE VP8Trace ------------------------------
(* Judge for C11. The payloader is a state machine whose state is the       *)
(* running picture id: each recorded Payload call must satisfy              *)
(* ValidVP8Packetization for the current id, which then advances.           *)
EXTENDS VP8, TraceIO
VARIABLES l, st
Fresh == [poisoned |-> FALSE, id |-> 0 - 1 + 1, started |-> FALSE]
FieldNames == <<"X", "N", "S", "PID", "I", "L", "T", "K", "PictureID", "TL0PICIDX", "TID", "Y", "KEYIDX", "Payload">>
RECURSIVE FirstDiff(_, _, _)
FirstDiff(a, b, i) == IF i > Len(FieldNames) THEN "" ELSE IF a[FieldNames[i]] # b[FieldNames[i]] THEN FieldNames[i] ELSE FirstDiff(a, b, i + 1)

DecodeReason(e) ==
  LET r == RefDecode(e.bytes) IN
  IF e.res = "panic" THEN "decode_panic"
  ELSE IF r.ok # e.wantok \/ (r.ok /\ r.f # e.want) THEN "oracle_disagrees_with_case"
  ELSE IF ~e.wantok THEN (IF e.res = "err" THEN "" ELSE "truncated_descriptor_accepted")
  ELSE IF e.res # "ok" THEN "wellformed_descriptor_rejected"
  ELSE IF e.f # e.want THEN "field_" \o FirstDiff(e.f, e.want, 1)
  ELSE IF e.out # e.want.Payload THEN "returned_bytes"
  ELSE IF e.head # (e.want.S = 1) THEN "partition_head"
  ELSE ""
PayloadReason(e, id) ==
  LET frame == IF e.fillv < 0 THEN Pat(e.len, e.salt) ELSE Fill(e.len, e.fillv) IN
  IF e.res # "ok" THEN "payload_panic"
  ELSE IF \E j \in 1..Len(e.decoded) : e.decoded[j].res # "ok" THEN "own_output_rejected"
  ELSE IF \E j \in 1..Len(e.frags) : LET r == RefDecode(e.frags[j]) IN ~r.ok \/ r.f # e.decoded[j].f THEN "decoder_disagrees_with_reference"
  ELSE IF Flatten([j \in 1..Len(e.decoded) |-> e.decoded[j].f.Payload]) # frame THEN "frame_not_reproduced"
  ELSE IF \E j \in 1..Len(e.decoded) : e.decoded[j].head # (j = 1) THEN "partition_head"
  ELSE IF ~ValidVP8Packetization(frame, e.mtu, e.pidon, id, e.frags) THEN
         (IF e.pidon /\ \E j \in 1..Len(e.frags) : ~PidFormOk(RefDecode(e.frags[j]), id) THEN "picture_id" ELSE "packetization_shape")
  ELSE ""
Init == l = 1 /\ st = Fresh
Next ==
  /\ l <= Len(Trace)
  /\ l' = l + 1
  /\ LET e == Trace[l] IN
       IF e.ev = "reset" THEN st' = Fresh
       ELSE IF st.poisoned THEN UNCHANGED st
       ELSE IF e.ev = "decode" THEN
            LET r == DecodeReason(e) IN (IF r = "" THEN TRUE ELSE Reject(e, r)) /\ UNCHANGED st
       ELSE IF e.ev = "payload" THEN
            LET id == IF st.started THEN st.id ELSE e.startid
                r == PayloadReason(e, id) IN
            IF r = "" THEN st' = [st EXCEPT !.id = NextId(id), !.started = TRUE]
            ELSE Reject(e, r) /\ st' = [st EXCEPT !.poisoned = TRUE]
       ELSE Reject(e, "unknown_event") /\ UNCHANGED st
Spec == Init /\ [][Next]_<<l, st>>
Done == Consumed
=============================================================================
