------------------------------ MODULE VP8Trace ------------------------------
(* Judge for C11. The payloader is a state machine whose state is the       *)
(* running picture id: each recorded Payload call must satisfy              *)
(* ValidVP8Packetization for the current id, which then advances.           *)
EXTENDS VP8, TraceIO
VARIABLES l, st
\* payloader state: the running picture id when it is known; after a call that emitted nothing, or after the
\* application flipped EnablePictureID, the statement does not fix it: the next id-carrying frame re-synchronises
Fresh == [poisoned |-> FALSE, id |-> 0, known |-> FALSE, started |-> FALSE, pidon |-> FALSE]
FieldNames == <<"X", "N", "S", "PID", "I", "L", "T", "K", "PictureID", "TL0PICIDX", "TID", "Y", "KEYIDX", "Payload">>
RECURSIVE FirstDiff(_, _, _)
FirstDiff(a, b, i) == IF i > Len(FieldNames) THEN "" ELSE IF a[FieldNames[i]] # b[FieldNames[i]] THEN FieldNames[i] ELSE FirstDiff(a, b, i + 1)

HugeReason(e) ==     \* one item of about 17 MB: the harness reports lengths and equality facts (the bytes do not travel)
  IF e.res # "ok" THEN "huge_item_panic"
  ELSE IF e.nfrags = 0 THEN "huge_item_no_packets"
  ELSE IF e.maxlen > e.mtu THEN "huge_item_fragment_exceeds_mtu"
  ELSE IF \E k \in 1..Len(e.facts) : ~e.facts[k] THEN "huge_item_not_reproduced"
  ELSE ""
DecodeReason(e) ==
  LET r == RefDecode(e.bytes) IN
  IF e.res = "panic" THEN "decode_panic"
  ELSE IF r.ok # e.wantok \/ (r.ok /\ r.f # e.want) THEN "oracle_disagrees_with_case"
  ELSE IF ~e.wantok THEN (IF e.res = "err" THEN "" ELSE "truncated_descriptor_accepted")
  ELSE IF e.res # "ok" THEN "wellformed_descriptor_rejected"
  ELSE IF e.f # e.want THEN "field_" \o FirstDiff(e.f, e.want, 1)
  ELSE IF e.out # e.want.Payload THEN "returned_bytes"
  ELSE IF e.head # (e.want.S = 1) THEN "partition_head"
  \* "to exactly the encoded field values": also when the VP8Packet has decoded another descriptor before
  ELSE IF e.used.res # "ok" THEN "wellformed_descriptor_rejected_by_used_packet"
  ELSE IF e.used.f # e.want THEN "used_packet_field_" \o FirstDiff(e.used.f, e.want, 1)
  ELSE IF e.used.out # e.want.Payload THEN "used_packet_returned_bytes"
  ELSE ""
ObservedId(e) == LET r == RefDecode(e.frags[1]) IN IF r.f.I = 1 THEN r.f.PictureID ELSE 0
PayloadReason(e, id, known) ==
  LET frame == IF e.fillv < 0 THEN Pat(e.len, e.salt) ELSE Fill(e.len, e.fillv) IN
  IF e.res # "ok" THEN "payload_panic"
  ELSE IF e.frags = <<>> THEN (IF e.len = 0 THEN "" ELSE "no_packets_for_a_frame")
  ELSE IF \E j \in 1..Len(e.decoded) : e.decoded[j].res # "ok" THEN "own_output_rejected"
  ELSE IF \E j \in 1..Len(e.frags) : LET r == RefDecode(e.frags[j]) IN ~r.ok \/ r.f # e.decoded[j].f THEN "decoder_disagrees_with_reference"
  ELSE IF Flatten([j \in 1..Len(e.decoded) |-> e.decoded[j].f.Payload]) # frame THEN "frame_not_reproduced"
  ELSE IF \E j \in 1..Len(e.decoded) : e.decoded[j].head # (j = 1) THEN "partition_head"
  ELSE LET want == IF known THEN id ELSE ObservedId(e) IN
       IF ~ValidVP8Packetization(frame, e.mtu, e.pidon, want, e.frags) THEN
         (IF e.pidon /\ \E j \in 1..Len(e.frags) : ~PidFormOk(RefDecode(e.frags[j]), want) THEN "picture_id" ELSE "packetization_shape")
       ELSE ""
Init == l = 1 /\ st = Fresh
Next ==
  /\ l <= Len(Trace)
  /\ l' = l + 1
  /\ LET e == Trace[l] IN
       IF e.ev = "reset" THEN st' = Fresh
       ELSE IF st.poisoned THEN UNCHANGED st
       ELSE IF e.ev = "decode" THEN
            LET r == DecodeReason(e) IN (IF r = "" THEN TRUE ELSE Reject(e, r)) /\ UNCHANGED st
       ELSE IF e.ev = "huge" THEN
            LET r == HugeReason(e) IN (IF r = "" THEN TRUE ELSE Reject(e, r)) /\ UNCHANGED st
       ELSE IF e.ev = "payload" THEN
            LET toggled == st.started /\ e.pidon # st.pidon
                id0 == IF st.started THEN st.id ELSE e.startid
                known == (IF st.started THEN st.known ELSE TRUE) /\ ~toggled
                r == PayloadReason(e, id0, known) IN
            IF r # "" THEN Reject(e, r) /\ st' = [st EXCEPT !.poisoned = TRUE]
            ELSE IF e.frags = <<>> THEN st' = [st EXCEPT !.known = FALSE, !.started = TRUE, !.pidon = e.pidon, !.id = id0]
            ELSE IF e.pidon THEN st' = [st EXCEPT !.id = NextId(IF known THEN id0 ELSE ObservedId(e)), !.known = TRUE, !.started = TRUE, !.pidon = TRUE]
            ELSE st' = [st EXCEPT !.id = NextId(id0), !.known = known, !.started = TRUE, !.pidon = FALSE]
       ELSE IF e.ev = "unavailable" THEN UNCHANGED st      \* the verification accessor does not fit the implementation (counted by the orchestrator)
       ELSE Reject(e, "unknown_event") /\ UNCHANGED st
Spec == Init /\ [][Next]_<<l, st>>
Done == Consumed
=============================================================================
