------------------------------- MODULE SeqGen -------------------------------
(* Case generator for C07: fixed start values (single-threaded: first value *)
(* and successors), random sequencers, concurrent runs.                     *)
EXTENDS Naturals, Sequences, TLC, TraceIO, SequencesExt
CONSTANTS Stride, NRandom, ConcOps, Gs

Starts == { s \in 0..65535 : s % Stride = 0 \/ s \in {0, 1, 2, 32766, 32767, 32768, 65533, 65534, 65535} }
Fixed == { [fam |-> "C07", kind |-> "fixed", start |-> s, g |-> 1, k |-> 3, readers |-> 0,
            class |-> IF s >= 65533 THEN "fixed_wraps" ELSE "fixed"] : s \in Starts }
Rand == { [fam |-> "C07", kind |-> "random", start |-> 0, g |-> 1, k |-> 2, readers |-> 0, class |-> "random", n |-> i] : i \in 1..NRandom }
Conc == { [fam |-> "C07", kind |-> "concurrent", start |-> s, g |-> g, k |-> ConcOps \div g, readers |-> r,
            class |-> "concurrent_g" \o ToString(g) \o (IF s > 60000 THEN "_wraps" ELSE "")]
          : s \in {65530, 0, 32767}, g \in Gs, r \in {0, 2} }
\* a sequencer that is far along: the 64-bit roll-over count starts at and around 2^16 and 2^32 (8 bytes, big endian;
\* set through a verification-only constructor, counts are reported relative to it)
Roc0s == << <<0, 0, 0, 0, 0, 0, 255, 255>>, <<0, 0, 0, 0, 0, 1, 0, 0>>, <<0, 0, 0, 0, 255, 255, 255, 255>>, <<0, 0, 0, 1, 0, 0, 0, 0>>, <<255, 255, 255, 255, 255, 255, 255, 254>> >>
FarAlong == { [fam |-> "C07", kind |-> k, start |-> s, g |-> (IF k = "fixed" THEN 1 ELSE 4), k |-> (IF k = "fixed" THEN 4 ELSE 50), readers |-> (IF k = "fixed" THEN 0 ELSE 2),
               roc0 |-> Roc0s[i], class |-> "far_along_" \o k] : k \in {"fixed", "concurrent"}, s \in {65533, 100}, i \in 1..Len(Roc0s) }
\* the sequencer as a component of a packetizer (frames of 1-4 packets and padding runs), started before, at and after the wrap
ViaPacketizer == { [fam |-> "C07", kind |-> "packetizer", start |-> s, g |-> 1, k |-> 40, readers |-> 0, class |-> "via_packetizer"] : s \in 65440..65535 \cup {0, 1, 30000} }
Many == { [fam |-> "C07", kind |-> "random_many", start |-> 0, g |-> 1, k |-> 500000, readers |-> 0, class |-> "random_many", n |-> i] : i \in 1..2 }
\* more than three wraps on one sequencer, projected onto a handful of facts (one event per run)
Long == { [fam |-> "C07", kind |-> "long_fixed", start |-> s, g |-> 1, k |-> 200003, readers |-> 0, class |-> "long_run_several_wraps"] : s \in {0, 1, 30000, 65535} }
Raw == SetToSeq(Long) \o SetToSeq(Fixed) \o SetToSeq(Rand) \o SetToSeq(Conc) \o SetToSeq(FarAlong) \o SetToSeq(ViaPacketizer) \o SetToSeq(Many)
CaseSeq == [i \in 1..Len(Raw) |-> Raw[i] @@ [case |-> i]]
ASSUME WriteCases(CaseSeq) /\ PrintT(<<"CASES", Len(CaseSeq)>>)
=============================================================================
