----------------------------- MODULE Packetizer -----------------------------
(* C06: the packetizer as a state machine.                                  *)
(* State: ts (4-byte big-endian RTP timestamp), nextSeq (16 bit), absId     *)
(* (0 = abs-send-time off), configuration mtu / pt / ssrc. One action per   *)
(* public call. The payloader is a parameter: its fragment list comes from  *)
(* a twin payloader fed the same calls (logged), the packetizer must carry  *)
(* those fragments unchanged and in order.                                  *)
EXTENDS Bytes, TLC

OneByteProfile == 48862
\* 24-bit abs-send-time of an instant <<sec, j>> with nsec = j * 1953125 (1/512 s units):
\* ((sec + 2208988800) mod 64) * 2^18 + j * 2^9; 2208988800 mod 64 = 0
AbsSend24(inst) == BE24((inst[1] % 64) * 262144 + inst[2] * 512)

\* the header every packet of a Packetize call must carry
ExpectHdr(s, i, n, absOn, inst) ==
  [ver |-> 2, pad |-> FALSE, m |-> (i = n), pt |-> s.pt, seq |-> (s.nextSeq + i - 1) % 65536, ts |-> s.ts, ssrc |-> s.ssrc, csrc |-> <<>>,
   x |-> (absOn /\ i = n),
   profile |-> IF absOn /\ i = n THEN OneByteProfile ELSE 0,
   exts |-> IF absOn /\ i = n THEN <<[id |-> s.absId, val |-> AbsSend24(inst)]>> ELSE <<>>]
ExpectPad(s, i) ==
  [ver |-> 2, pad |-> TRUE, m |-> FALSE, pt |-> s.pt, seq |-> (s.nextSeq + i - 1) % 65536, ts |-> s.ts, ssrc |-> s.ssrc, csrc |-> <<>>,
   x |-> FALSE, profile |-> 0, exts |-> <<>>]

AfterPacketize(s, n, samples4) == [s EXCEPT !.ts = AddU32(s.ts, samples4), !.nextSeq = (s.nextSeq + n) % 65536]
AfterPadding(s, n) == [s EXCEPT !.nextSeq = (s.nextSeq + n) % 65536]
AfterSkip(s, samples4) == [s EXCEPT !.ts = AddU32(s.ts, samples4)]
AfterEnable(s, id) == [s EXCEPT !.absId = id]
=============================================================================
