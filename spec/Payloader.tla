------------------------------ MODULE Payloader ------------------------------
(* C08: the generic payloader contract over a heap of caller-owned buffers. *)
(* The system (payloader + fragments it returned) holds VALUES; Scribble    *)
(* overwrites a caller buffer and must not be observable through anything   *)
(* the payloader returned earlier or returns later.                         *)
EXTENDS Bytes, TLC

IgnoresMtu(kind) == kind = "opus"
\* laws on one recorded Payload call (lens = fragment lengths)
SizeLaw(kind, mtu, inlen, lens) ==
  IF IgnoresMtu(kind) THEN (inlen = 0 /\ Len(lens) <= 1) \/ lens = <<inlen>>
  ELSE \A i \in 1..Len(lens) : lens[i] <= mtu
NonEmptyLaw(inlen, lens) == inlen > 0 => \A i \in 1..Len(lens) : lens[i] > 0
=============================================================================
