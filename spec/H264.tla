-------------------------------- MODULE H264 --------------------------------
(* C10 / C15: RFC 6184 packetization of H.264 NAL units.                    *)
(* A NAL unit is a byte sequence whose first byte is F(1) NRI(2) Type(5).   *)
(* Payload forms: single NAL unit (types 1-23), STAP-A (type 24: 1 header   *)
(* byte then 16-bit size + unit, repeated), FU-A (type 28: indicator        *)
(* F|NRI|28, header S|E|R|Type, fragment of the unit without its first      *)
(* byte).                                                                   *)
(* The payloader is a state machine whose state is the pending SPS / PPS    *)
(* (held back to be sent as one STAP-A before the next unit).               *)
EXTENDS Bytes, TLC

NalType(u) == u[1] % 32
NalNri(u) == (u[1] \div 32) % 4
SC(n) == IF n = 4 THEN <<0, 0, 0, 1>> ELSE <<0, 0, 1>>
AnnexB(units, scs) == Flatten([i \in 1..Len(units) |-> SC(scs[i]) \o units[i]])
\* what the receiver hands on for one unit
Framed(u, avc) == (IF avc THEN <<0, Len(u) \div 65536, (Len(u) \div 256) % 256, Len(u) % 256>> ELSE <<0, 0, 0, 1>>) \o u   \* AVC: 32-bit big-endian length

-----------------------------------------------------------------------------
(* Reference encoders (independent of the library) *)
StapA(units, nri) == <<nri * 32 + 24>> \o Flatten([i \in 1..Len(units) |-> BE16(Len(units[i])) \o units[i]])
\* FU-A fragments of u at cut points (positions in u's body = u without first byte): cuts is a
\* strictly increasing sequence of offsets in 0..Len(body); fragment k = body[cuts[k]+1 .. cuts[k+1]]
FuA(u, cuts) ==
  LET body == Drop(u, 1)
      n == Len(cuts) - 1
  IN [k \in 1..n |-> <<NalNri(u) * 32 + 28, (IF k = 1 THEN 128 ELSE 0) + (IF k = n THEN 64 ELSE 0) + NalType(u)>>
                     \o Slice(body, cuts[k] + 1, cuts[k + 1])]

-----------------------------------------------------------------------------
(* Reference receiver (RFC 6184 section 5): state = [buf, open]; a fragment *)
(* with the S bit starts a new unit (anything buffered is abandoned).       *)
RECURSIVE StapUnits(_, _, _)
StapUnits(p, i, acc) ==   \* i: 1-based index of the next size field
  IF i > Len(p) THEN [ok |-> TRUE, units |-> acc]
  ELSE IF i + 1 > Len(p) THEN [ok |-> TRUE, units |-> acc]          \* stray byte: ignored (lenient like common receivers)
  ELSE LET n == U16(p, i) IN
       IF i + 1 + n > Len(p) THEN [ok |-> FALSE, units |-> acc]
       ELSE StapUnits(p, i + 2 + n, Append(acc, Slice(p, i + 2, i + 1 + n)))
DepackInit == [buf |-> <<>>, open |-> FALSE]
Resync == TRUE      \* overridden (<- FALSE) by the specification mutant that must violate the loss invariant
RefDepack(s, p, avc) ==
  IF Len(p) = 0 THEN [ok |-> FALSE, out |-> <<>>, s |-> s]
  ELSE LET t == p[1] % 32 IN
    IF t \in 1..23 THEN [ok |-> TRUE, out |-> Framed(p, avc), s |-> s]
    ELSE IF t = 24 THEN
      LET r == StapUnits(p, 2, <<>>) IN
      IF ~r.ok THEN [ok |-> FALSE, out |-> <<>>, s |-> s]
      ELSE [ok |-> TRUE, out |-> Flatten([i \in 1..Len(r.units) |-> Framed(r.units[i], avc)]), s |-> s]
    ELSE IF t = 28 THEN
      IF Len(p) < 2 THEN [ok |-> FALSE, out |-> <<>>, s |-> s]
      ELSE
        LET start == p[2] >= 128
            fin == (p[2] \div 64) % 2 = 1
            buf == (IF start /\ Resync THEN <<>> ELSE s.buf) \o Drop(p, 2)
        IN IF fin THEN [ok |-> TRUE, out |-> Framed(<<((p[1] \div 32) % 4) * 32 + (p[2] % 32)>> \o buf, avc), s |-> DepackInit]
           ELSE [ok |-> TRUE, out |-> <<>>, s |-> [buf |-> buf, open |-> TRUE]]
    ELSE [ok |-> FALSE, out |-> <<>>, s |-> s]
IsHead(p) == IF Len(p) < 2 THEN FALSE ELSE IF p[1] % 32 \in {28, 29} THEN p[2] >= 128 ELSE TRUE

-----------------------------------------------------------------------------
(* Payloader contract. Pending state pend = [sps, pps] (<<>> = none).       *)
Dropped(u) == NalType(u) \in {9, 12}
\* transmission list for one Payload call: sequence of [kind, units]; returns [items, pend]
RECURSIVE Items(_, _, _, _, _)
Items(units, i, stapA, pend, acc) ==
  IF i > Len(units) THEN [items |-> acc, pend |-> pend]
  ELSE LET u == units[i] IN
    IF Dropped(u) THEN Items(units, i + 1, stapA, pend, acc)
    ELSE IF stapA /\ NalType(u) = 7 THEN Items(units, i + 1, stapA, [pend EXCEPT !.sps = u], acc)
    ELSE IF stapA /\ NalType(u) = 8 THEN Items(units, i + 1, stapA, [pend EXCEPT !.pps = u], acc)
    ELSE IF stapA /\ pend.sps # <<>> /\ pend.pps # <<>>
         THEN Items(units, i + 1, stapA, [sps |-> <<>>, pps |-> <<>>],
                    acc \o <<[kind |-> "params", units |-> <<pend.sps, pend.pps>>], [kind |-> "unit", units |-> <<u>>]>>)
    ELSE Items(units, i + 1, stapA, pend, Append(acc, [kind |-> "unit", units |-> <<u>>]))

\* consume the encoding of one unit from out starting at index j; returns next index or 0 (shape violation)
RECURSIVE FuEnd(_, _, _, _, _)
FuEnd(out, j, u, mtu, got) ==   \* got = body bytes collected so far; j = index of the current fragment
  IF j > Len(out) THEN 0
  ELSE LET p == out[j] IN
    IF Len(p) < 3 \/ Len(p) > mtu \/ p[1] # NalNri(u) * 32 + 28 \/ p[2] % 32 # NalType(u) \/ (p[2] \div 32) % 2 # 0 THEN 0
    ELSE LET s == p[2] >= 128  e == (p[2] \div 64) % 2 = 1  body == got \o Drop(p, 2) IN
      IF s # (got = <<>>) THEN 0          \* S exactly on the first fragment (fragments are non-empty)
      ELSE IF e THEN (IF body = Drop(u, 1) /\ ~s THEN j + 1 ELSE 0)   \* E on the last only, at least two fragments
      ELSE FuEnd(out, j + 1, u, mtu, body)
UnitEnd(out, j, u, mtu) ==
  IF j > Len(out) THEN 0
  ELSE IF out[j] = u THEN (IF Len(u) <= mtu THEN j + 1 ELSE 0)
  ELSE IF Len(out[j]) >= 1 /\ out[j][1] % 32 = 28 THEN FuEnd(out, j, u, mtu, <<>>)
  ELSE 0
IsStapOf(p, units, mtu) == Len(p) <= mtu /\ Len(p) >= 1 /\ p[1] % 32 = 24 /\ p[1] < 128 /\ Drop(p, 1) = Drop(StapA(units, 0), 1)
RECURSIVE MatchItems(_, _, _, _, _)
MatchItems(items, k, out, j, mtu) ==   \* "" when out[j..] is a valid encoding of items[k..]
  IF k > Len(items) THEN (IF j = Len(out) + 1 THEN "" ELSE "extra_payloads")
  ELSE LET it == items[k] IN
    IF it.kind = "params" THEN
       IF j <= Len(out) /\ IsStapOf(out[j], it.units, mtu) THEN MatchItems(items, k + 1, out, j + 1, mtu)
       ELSE IF Len(StapA(it.units, 3)) > mtu THEN
              \* the pair does not fit one packet: it may be sent as two ordinary units
              LET j1 == UnitEnd(out, j, it.units[1], mtu) IN
              IF j1 = 0 THEN "parameter_sets_lost_stap_exceeds_mtu"
              ELSE LET j2 == UnitEnd(out, j1, it.units[2], mtu) IN
                   IF j2 = 0 THEN "parameter_sets_lost_stap_exceeds_mtu" ELSE MatchItems(items, k + 1, out, j2, mtu)
       ELSE "parameter_sets_not_one_stap_a"
    ELSE LET j1 == UnitEnd(out, j, it.units[1], mtu) IN
         IF j1 = 0 THEN "unit_shape" ELSE MatchItems(items, k + 1, out, j1, mtu)

\* head flags the statement demands: true exactly on the first payload of each unit / STAP-A
ExpectedOut(items, avc) == Flatten([k \in 1..Len(items) |-> Flatten([i \in 1..Len(items[k].units) |-> Framed(items[k].units[i], avc)])])
=============================================================================
