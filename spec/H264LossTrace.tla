------------------------------ MODULE H264LossTrace ------------------------------
(* Judge for G06 (growth): H264Packet (Annex-B and AVC framing), packet by  *)
(* packet, against the reference receiver H264!RefDepack under every loss   *)
(* pattern.                                                                 *)
EXTENDS H264, TraceIO
VARIABLES l, st
Init == l = 1 /\ st = [poisoned |-> TRUE, a |-> DepackInit, v |-> DepackInit]
Next ==
  /\ l <= Len(Trace)
  /\ l' = l + 1
  /\ LET e == Trace[l] IN
       IF e.ev = "reset" THEN st' = [poisoned |-> FALSE, a |-> DepackInit, v |-> DepackInit]
       ELSE IF st.poisoned THEN UNCHANGED st
       ELSE LET ra == RefDepack(st.a, e.p, FALSE)
                rv == RefDepack(st.v, e.p, TRUE)
                why == IF e.res # "ok" THEN "panic"
                       ELSE IF ra.ok # (e.annexb_res = "ok") \/ rv.ok # (e.avc_res = "ok") THEN "accept_or_refuse_under_loss"
                       ELSE IF ra.ok /\ e.annexb # ra.out THEN "annexb_units_under_loss"
                       ELSE IF rv.ok /\ e.avc # rv.out THEN "avc_units_under_loss" ELSE "" IN
            IF why = "" THEN st' = [st EXCEPT !.a = ra.s, !.v = rv.s]
            ELSE Reject(e, why) /\ st' = [st EXCEPT !.poisoned = TRUE]
Spec == Init /\ [][Next]_<<l, st>>
Done == Consumed
=============================================================================
