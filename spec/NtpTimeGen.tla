----------------------------- MODULE NtpTimeGen -----------------------------
(* Case generator for C18: instants around 64-second wrap points of the     *)
(* 24-bit field and whole-second boundaries x delays across [0, 64 s -      *)
(* 2^-18 s); capture-time instants; clock offsets across (-2^31 s, 2^31 s). *)
EXTENDS NtpTime, TraceIO, SequencesExt
CONSTANTS WrapKs

Deltas == { <<0, 0>>, <<0, 1>>, <<0, 3814>>, <<0, 3815>>, <<0, 3816>>, <<0, 1000>>, <<1, 0>>,
            <<-1, 999999999>>, <<-1, 999996185>>, <<-1, 999996186>>, <<-1, 999999000>>, <<-1, 0>> }
Plus(t, d) == LET ns == t[2] + d[2] IN <<t[1] + d[1] + ns \div 1000000000, ns % 1000000000>>
WrapInstants == { Plus(<<64 * k, 0>>, d) : k \in WrapKs, d \in Deltas }
Fixed == { <<0, 0>>, <<0, 1>>, <<1, 0>>, <<2085978495, 999999999>>, <<2085978495, 0>>, <<2085978432, 0>>, <<1700000000, 123456789>>,
           <<1234567890, 999999999>>, <<1234567891, 0>>, <<1234567891, 1>>, <<946684800, 500000000>> }
Instants == { t \in WrapInstants \cup Fixed : ValidInstant(t) }
Delays == { <<0, 0>>, <<0, 1>>, <<0, 3813>>, <<0, 3814>>, <<0, 3815>>, <<0, 3816>>, <<0, 500000000>>, <<1, 0>>, <<31, 999999999>>, <<32, 0>>,
            <<63, 0>>, <<63, 999000000>>, <<63, 999996183>>, <<63, 999996184>> }
Est == { [fam |-> "C18", kind |-> "estimate", send |-> t, delay |-> d,
          class |-> "estimate" \o (IF d[1] >= 32 THEN "_long_delay" ELSE "") \o (IF t[1] % 64 \in {0, 63} THEN "_near_wrap" ELSE "")]
        : t \in Instants, d \in Delays }
Cap == { [fam |-> "C18", kind |-> "capture", t |-> t, class |-> "capture"] : t \in Instants }
Offs == { [fam |-> "C18", kind |-> "offset", d |-> [neg |-> n, sec |-> s[1], nsec |-> s[2]], class |-> "offset" \o (IF n THEN "_negative" ELSE "")]
         : n \in BOOLEAN, s \in { <<0, 0>>, <<0, 1>>, <<0, 2>>, <<0, 999999999>>, <<1, 0>>, <<1, 1>>, <<2147483647, 999999999>>, <<2147483647, 0>>,
                                   <<2147483646, 500000000>>, <<3600, 250000000>>, <<0, 232>>, <<0, 233>>, <<86400, 1>>,
                                   <<2, 0>>, <<3, 0>>, <<60, 0>>, <<61, 0>>, <<3600, 0>>, <<86400, 0>>, <<2147483646, 0>>, <<1073741824, 0>>, <<1, 999999999>>, <<2, 500000000>> } }
Raw == SetToSeq(Est) \o SetToSeq(Cap) \o SetToSeq(Offs)
CaseSeq == [i \in 1..Len(Raw) |-> Raw[i] @@ [case |-> i]]
ASSUME \A i \in 1..Len(Raw) : Raw[i].kind = "estimate" => ValidDelay(Raw[i].delay)
ASSUME WriteCases(CaseSeq) /\ PrintT(<<"CASES", Len(CaseSeq)>>)
=============================================================================
