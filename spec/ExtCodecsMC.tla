---------------------------- MODULE ExtCodecsMC ----------------------------
(* Oracle sanity: Dec(Enc(v)) = v over the value axes, sizes, and the       *)
(* decoder ignores trailing bytes.                                          *)
EXTENDS ExtCodecs
VARIABLES c, k
Codecs == {"audio", "tcc", "playout", "abssend", "abscapture"}
Init == c \in Codecs /\ k \in 0..4095
Next == UNCHANGED <<c, k>>
Spec == Init /\ [][Next]_<<c, k>>
B8(n) == <<n % 256, (n * 7) % 256, n \div 16, 255 - (n % 256), n % 251, n % 13, (n \div 256) % 256, (n * 3) % 256>>
Val ==
  CASE c = "audio" -> [level |-> k % 128, voice |-> (k \div 128) % 2 = 1]
    [] c = "tcc" -> [seq |-> (k * 16 + (k % 16)) % 65536]
    [] c = "playout" -> [min |-> k, max |-> 4095 - k]
    [] c = "abssend" -> [ts |-> (k * 4096 + k) % 16777216]
    [] c = "abscapture" -> [ts |-> B8(k), hasoff |-> k % 2 = 0, off |-> IF k % 2 = 0 THEN B8(4095 - k) ELSE Zeros(8)]
RoundTrip == InRange(c, Val) /\ Dec(c, Enc(c, Val)) = Val
SizeLaw == Len(Enc(c, Val)) = (IF c = "abscapture" /\ Val.hasoff THEN 16 ELSE Size(c))
TrailingIgnored == c # "abscapture" => Dec(c, Enc(c, Val) \o <<k % 256, 7>>) = Val
=============================================================================
