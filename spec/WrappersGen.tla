------------------------------ MODULE WrappersGen ------------------------------
(* G04 generator: byte strings for the deprecated partition-head checkers   *)
(* and LEB128 readers, digit sequences for the LEB128 encoders.             *)
EXTENDS Bytes, TraceIO, SequencesExt
CONSTANTS Alpha
A == SetToSeq(Alpha)
One == [b \in 1..256 |-> <<b - 1>>]
Two == [j \in 1..(Len(A) * Len(A)) |-> <<A[((j - 1) \div Len(A)) + 1], A[((j - 1) % Len(A)) + 1]>>]
Three == [j \in 1..(Len(A) * Len(A)) |-> <<A[((j - 1) \div Len(A)) + 1], 128 + (j % 128), A[((j - 1) % Len(A)) + 1]>>]
Strings == << <<>> >> \o One \o Two \o Three
ByteCases == [j \in 1..Len(Strings) |-> [fam |-> "G04", kind |-> "bytes", bytes |-> Strings[j], class |-> "bytes" \o ToString(Len(Strings[j]))]]
\* 7-bit digit sequences (least significant first, canonical): values up to 2^56 - 1 fit EncodeLEB128's 64-bit result
DigitSets == << <<0>>, <<1>>, <<127>>, <<0, 1>>, <<127, 1>>, <<127, 127>>, <<0, 0, 1>>, <<127, 127, 127>>, <<0, 0, 0, 1>>, <<127, 127, 127, 127>>,
               <<0, 0, 0, 0, 1>>, <<127, 127, 127, 127, 15>>, <<1, 2, 3, 4, 5, 6, 7>>, <<0, 0, 0, 0, 0, 0, 0, 1>>, <<127, 127, 127, 127, 127, 127, 127, 127>> >>
DigitCases == [j \in 1..Len(DigitSets) |-> [fam |-> "G04", kind |-> "digits", digits |-> DigitSets[j], class |-> "digits" \o ToString(Len(DigitSets[j]))]]
Raw == ByteCases \o DigitCases
CaseSeq == [i \in 1..Len(Raw) |-> Raw[i] @@ [case |-> i]]
ASSUME WriteCases(CaseSeq) /\ PrintT(<<"CASES", Len(CaseSeq)>>)
=============================================================================
