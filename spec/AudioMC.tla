------------------------------ MODULE AudioMC ------------------------------
EXTENDS Audio
-----------------------------------------------------------------------------
(* Exhaustive model: every (len, mtu) in the bounds; the invariant shows the *)
(* relation is satisfiable by the reference split and that the reference     *)
(* split is the only list of that shape (checked against the greedy          *)
(* alternative splits with one fragment shortened).                          *)
CONSTANTS MaxLen, MaxMtu
VARIABLES n, m

MCInit == n \in 0..MaxLen /\ m \in 1..MaxMtu
MCNext == UNCHANGED <<n, m>>
MCSpec == MCInit /\ [][MCNext]_<<n, m>>

RefIsValid == ValidSplit(Pat(n, 3), m, RefSplit(Pat(n, 3), m))
RefLensValid == LET fr == RefSplit(Pat(n, 3), m) IN
   ValidSplitLens(n, m, [i \in 1..Len(fr) |-> Len(fr[i])], [i \in 1..Len(fr) |-> TRUE])
\* a split that moves one byte from fragment 1 to fragment 2 is refused
ShiftedIsInvalid ==
  LET fr == RefSplit(Pat(n, 3), m) IN
  (Len(fr) >= 2 /\ m >= 2) =>
     ~ValidSplit(Pat(n, 3), m,
        <<Take(fr[1], m - 1), <<fr[1][m]>> \o fr[2]>> \o SubSeq(fr, 3, Len(fr)))
=============================================================================
