CONSTANTS
  BigIds = {0, 1, 2, 14, 15, 16, 255}
  BigLens = {0, 1, 3, 4, 16, 17, 255, 256, 300}
  MidIds = {0, 1, 2, 15, 16}
  MidLens = {0, 1, 16, 17, 256}
  D1 = 1
  D2 = 2
  D3 = 3
