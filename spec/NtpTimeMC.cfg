SPECIFICATION Spec
CONSTANTS M = 16 MaxT = 70 MaxD = 16
INVARIANTS Recovered NeverLater FullWrapLost
CHECK_DEADLOCK FALSE
