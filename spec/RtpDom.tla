------------------------------- MODULE RtpDom -------------------------------
(* The enumerated domain of RTP packet values shared by C01-C04 and C20:    *)
(* the full product of the interacting dimensions (extension layout x       *)
(* payload length x padding x CSRC count); independent scalars rotate       *)
(* through a covering row chosen by a deterministic index.                  *)
EXTENDS RtpWire, SequencesExt

CONSTANTS PayLens, PadSizes, CsrcCounts, Rich   \* Rich = TRUE adds the larger layout families

Ext(id, n) == [id |-> id, val |-> Pat(n, id)]

OneByteLayouts ==
  {<<>>}
  \cup { <<Ext(id, n)>> : id \in {1, 14}, n \in {1, 2, 3, 4, 15, 16} }
  \cup { <<Ext(1, a), Ext(2, b)>> : a \in {1, 3, 16}, b \in {1, 2, 3, 16} }
  \cup { <<Ext(3, 1), Ext(1, 1), Ext(2, 1)>>, <<Ext(1, 3), Ext(2, 3), Ext(14, 3)>>, <<Ext(1, 2), Ext(2, 3), Ext(3, 4)>> }
  \cup (IF Rich THEN { [i \in 1..14 |-> Ext(i, 1)], [i \in 1..14 |-> Ext(i, 16)], <<Ext(5, 16), Ext(6, 16), Ext(7, 16)>> } ELSE {})
TwoByteLayouts ==
  {<<>>}
  \cup { <<Ext(id, n)>> : id \in {1, 15, 16, 255}, n \in IF Rich THEN {0, 1, 3, 4, 16, 17, 255} ELSE {0, 2, 17} }
  \cup { <<Ext(1, a), Ext(255, b)>> : a \in {0, 1, 2}, b \in {0, 1, 2} }
  \cup (IF Rich THEN { <<Ext(1, 255), Ext(2, 255)>>, <<Ext(1, 0), Ext(2, 0), Ext(3, 0)>> } ELSE {})
LegacyLayouts ==
  { [profile |-> pr, exts |-> <<[id |-> 0, val |-> Pat(4 * w, 7)]>>]
      : pr \in {0, 4660, 48863, 4097, 65535}, w \in IF Rich THEN {0, 1, 2, 64} ELSE {0, 1, 2} }

Layouts ==
  { [x |-> FALSE, profile |-> 0, exts |-> <<>>] }
  \cup { [x |-> TRUE, profile |-> OneByte, exts |-> e] : e \in OneByteLayouts }
  \cup { [x |-> TRUE, profile |-> TwoByte, exts |-> e] : e \in TwoByteLayouts }
  \cup { [x |-> TRUE, profile |-> l.profile, exts |-> l.exts] : l \in LegacyLayouts }
LayoutSeq == SetToSeq(Layouts)

PTs == <<0, 1, 96, 127>>
Seqs == <<0, 1, 32767, 32768, 65535>>
Words == << <<0, 0, 0, 0>>, <<255, 255, 255, 255>>, <<18, 52, 86, 120>>, <<128, 0, 0, 1>> >>
Csrc(i) == <<i, (2 * i) % 256, 255 - i, 200 + i>>

Mk(li, pl, ps, nc) ==
  LET lay == LayoutSeq[li]
      r == li * 31 + pl * 7 + ps * 3 + nc
  IN [ver |-> r % 4, pad |-> ps > 0, x |-> lay.x, m |-> (r \div 4) % 2 = 1, pt |-> PTs[(r % 4) + 1],
      seq |-> Seqs[(r % 5) + 1], ts |-> Words[(r % 4) + 1], ssrc |-> Words[((r \div 2) % 4) + 1],
      csrc |-> [i \in 1..nc |-> Csrc(i)], profile |-> lay.profile, exts |-> lay.exts,
      payload |-> Pat(pl, r), padsize |-> ps]

Packets == { Mk(li, pl, ps, nc) : li \in 1..Len(LayoutSeq), pl \in PayLens, ps \in PadSizes, nc \in CsrcCounts }

LayoutClass(p) ==
  IF ~p.x THEN "noext"
  ELSE IF p.profile = OneByte THEN "onebyte"
  ELSE IF p.profile = TwoByte THEN "twobyte" ELSE "legacy"
\* does the extension block end exactly where the canonical header ends with no zero fill
ExtFlush(p) == p.x /\ Len(ExtBody(p.profile, p.exts)) % 4 = 0
Tags(p) == [layout |-> LayoutClass(p), ext_flush |-> ExtFlush(p), nexts |-> Len(p.exts),
            paylen |-> Len(p.payload), padsize |-> p.padsize, ncsrc |-> Len(p.csrc),
            ext_empty_block |-> p.x /\ ExtBody(p.profile, p.exts) = <<>>]
=============================================================================
