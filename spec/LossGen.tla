------------------------------- MODULE LossGen -------------------------------
(* Case generator for C15: a lossy in-order channel. Frame A is sent, every *)
(* subset of its packets may be dropped (mask), optional garbage precedes,  *)
(* then frame B is delivered intact. A and B come from the independent      *)
(* H264 encoder (explicit payloads) or from the real payloaders (feed       *)
(* descriptors expanded by the harness).                                    *)
EXTENDS H264, TraceIO, SequencesExt
CONSTANTS MaxA, Rich

U(t, nri, n, salt) == <<nri * 32 + t>> \o Pat(n - 1, salt)
RECURSIVE Pow2(_)
Pow2(n) == IF n = 0 THEN 1 ELSE 2 * Pow2(n - 1)
EvenCuts(n, k) == [j \in 1..(k + 1) |-> ((j - 1) * n) \div k]
FramesA == << FuA(U(5, 3, 13, 1), EvenCuts(12, 2)), FuA(U(5, 3, 13, 2), EvenCuts(12, 3)), FuA(U(1, 1, 21, 3), EvenCuts(20, 5)),
              FuA(U(5, 2, 31, 4), EvenCuts(30, Min(MaxA, 10))), <<U(1, 1, 6, 5)>>, <<StapA(<<U(7, 3, 4, 6), U(8, 3, 3, 7)>>, 3)>>,
              FuA(U(5, 3, 9, 8), EvenCuts(8, 2)) \o FuA(U(1, 2, 9, 9), EvenCuts(8, 2)) >>
FramesB == << FuA(U(5, 3, 11, 21), EvenCuts(10, 2)), FuA(U(1, 1, 16, 22), EvenCuts(15, 3)), <<U(1, 2, 7, 23)>>,
              <<StapA(<<U(7, 3, 4, 24), U(8, 3, 3, 25)>>, 3)>> \o FuA(U(5, 3, 11, 26), EvenCuts(10, 2)),
              <<U(6, 0, 3, 27)>> \o FuA(U(1, 1, 9, 28), EvenCuts(8, 4)),
              FuA(U(5, 3, 9, 29), <<0, 0, 4, 8>>),            \* start fragment without payload (RFC 6184 5.8 allows it)
              FuA(U(1, 2, 9, 30), <<0, 3, 3, 8>>) >>          \* empty middle fragment
\* packets arriving between frame A's survivors and frame B: damaged continuations that a receiver refuses
AfterH264 == << <<>>, <<(<<124>>)>>, <<(<<124, 5, 9, 9>>)>>, <<(<<120, 0, 9, 1>>)>> >>       \* short FU-A, middle FU-A, STAP-A with a size beyond the payload
AfterAV1 == << <<>>, <<(<<128, 127, 1>>)>>, <<(<<128, 255>>)>>, <<(<<144, 3>>)>>, <<(<<192, 2, 7, 7>>)>> >>   \* Z=1 with a length beyond the payload, bad LEB128, Z=1 W=1, Z=1 Y=1
Garbage == << <<>>, <<(<<124>>)>>, <<(<<124, 5, 1, 2>>)>>, <<(<<124, 133, 9, 9>>)>>, <<(<<>>), <<28, 69, 7>>, <<60, 1>> >> >>
H264Cases ==
  LET nA == Len(FramesA)  nB == Len(FramesB)  nG == IF Rich THEN Len(Garbage) ELSE 3 IN
  Flatten([ai \in 1..nA |->
    LET a == FramesA[ai]  nm == Pow2(Min(Len(a), MaxA)) IN
    [j \in 1..(nm * nB * nG * 2) |->
       LET mask == (j - 1) % nm  bi == (((j - 1) \div nm) % nB) + 1  gi == (((j - 1) \div (nm * nB)) % nG) + 1  avc == (j - 1) \div (nm * nB * nG) = 1
           af == AfterH264[((mask + bi + gi) % Len(AfterH264)) + 1] IN
       [fam |-> "C15", kind |-> IF avc THEN "h264_avc" ELSE "h264", a |-> [src |-> "bytes", items |-> a], mask |-> mask,
        garbage |-> Garbage[gi], after |-> af, b |-> [src |-> "bytes", items |-> FramesB[bi]], wellformed_b |-> TRUE,
        class |-> "h264_" \o (IF Len(a) = 1 THEN "unfragmented_a" ELSE "fu" \o ToString(Len(a)) \o "_a") \o (IF gi > 1 \/ af # <<>> THEN "_garbage" ELSE "")]]])
Feed(pk, shape, len, salt, mtu) == [src |-> "feed", feed |-> [pkind |-> pk, shape |-> shape, len |-> len, salt |-> salt, mtu |-> mtu]]
FeedCases ==
  LET specs == << <<"av1", "av1", "obu", 30, 6>>, <<"av1", "av1", "obu_ext", 40, 8>>, <<"av1", "av1", "obu_nosize_last", 25, 5>>, <<"av1", "av1", "obu", 60, 16>>, <<"av1", "av1", "obu_frame_only", 50, 20>>,
                  <<"h264", "h264", "annexb3", 40, 8>>, <<"h264_avc", "h264", "annexb_mixed", 50, 12>>, <<"h264", "h264_nostap", "h264_slice", 30, 7>> >>
      nm == Pow2(MaxA) IN
  Flatten([si \in 1..Len(specs) |->
    LET afs == IF specs[si][1] = "av1" THEN AfterAV1 ELSE AfterH264 IN
    [j \in 1..(nm * 2 * 2 * Len(afs)) |->
       LET sp == specs[si]  mask == (j - 1) % nm  bsalt == ((j - 1) \div nm) % 2  g == ((j - 1) \div (nm * 2)) % 2  af == afs[((j - 1) \div (nm * 4)) + 1] IN
       [fam |-> "C15", kind |-> sp[1], a |-> Feed(sp[2], sp[3], sp[4], 1, sp[5]), mask |-> mask,
        garbage |-> IF g = 0 THEN <<>> ELSE << <<128, 1, 2>> >>, after |-> af, b |-> Feed(sp[2], sp[3], sp[4] - 7 * bsalt, 2 + bsalt, sp[5]), wellformed_b |-> TRUE,
        class |-> sp[1] \o "_real_payloader" \o (IF g = 1 \/ af # <<>> THEN "_garbage" ELSE "")]]])
Raw == H264Cases \o FeedCases
CaseSeq == [i \in 1..Len(Raw) |-> Raw[i] @@ [case |-> i]]
ASSUME WriteCases(CaseSeq) /\ PrintT(<<"CASES", Len(CaseSeq)>>)
=============================================================================
