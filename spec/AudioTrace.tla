---------------------------- MODULE AudioTrace ----------------------------
(* Judge for C16: every recorded step of the real payloaders must be a     *)
(* step the Audio specification allows. Total monitor (DESIGN 2.2).        *)
EXTENDS Audio, TraceIO

VARIABLES l, st   \* cursor; st = [poisoned, held] (fragments handed out by the last Payload)

Fresh == [poisoned |-> FALSE, held |-> <<>>]
Inp(e) == IF e.fillv < 0 THEN Pat(e.len, e.salt) ELSE Fill(e.len, e.fillv)      \* constant-byte inputs (0x00, 0xFF, ...) besides the pattern

PayloadReason(e) ==
  IF e.res # "ok" THEN "outcome_" \o e.res
  ELSE IF ~e.input_unchanged THEN "input_modified"
  ELSE IF e.kind \in {"g711", "g722"} THEN
         IF e.big THEN (IF ValidSplitLens(e.len, e.mtu, e.lens, e.facts) THEN "" ELSE "split_shape")
         ELSE IF ValidSplit(Inp(e), e.mtu, e.frags) THEN ""
         ELSE IF Flatten(e.frags) # Inp(e) THEN "split_not_lossless" ELSE "split_shape"
  ELSE IF ~ValidOpus(Inp(e), e.frags) THEN "opus_not_passthrough"
  \* "returns one fragment equal to the input": an empty (non-nil) byte string is an input of length 0 and comes back as one empty fragment
  ELSE IF e.len = 0 /\ ~e.isnil /\ e.frags # <<(<<>>)>> THEN "opus_empty_input_not_one_fragment"
  ELSE ""

Reason(e, s) ==
  CASE e.ev = "payload" -> PayloadReason(e)
    [] e.ev = "reread"  -> IF e.frags = s.held THEN "" ELSE "fragment_aliases_input"
    [] e.ev = "depack"  ->
         IF e.res = "panic" THEN "outcome_panic"
         ELSE IF e.len = 0 /\ e.res # "err" THEN "empty_accepted"
         ELSE IF e.len > 0 /\ e.res # "ok" THEN "nonempty_rejected"
         ELSE IF e.len > 0 /\ e.out # Inp(e) THEN "payload_changed"
         \* "rejects nil and empty payloads", "returns any non-empty payload unchanged": also when the packet has decoded something before
         ELSE IF e.used_res \in {"panic", "differ"} THEN "used_receiver_" \o e.used_res
         ELSE IF e.len = 0 /\ e.used_res # "err" THEN "empty_accepted_by_a_used_receiver"
         ELSE IF e.len > 0 /\ (e.used_res # "ok" \/ e.used_out # Inp(e)) THEN "payload_changed_by_a_used_receiver"
         ELSE IF ~(e.head /\ e.tail) THEN "partition_flags"          \* "always": also for the payloads Unmarshal rejects
         ELSE IF \E k \in 1..Len(e.heads) : ~e.heads[k] THEN "partition_head_not_always"
         ELSE IF \E k \in 1..Len(e.tails) : ~e.tails[k] THEN "partition_tail_not_always" ELSE ""
    [] OTHER -> "unknown_event"

Step(e, s) == IF e.ev = "payload" /\ ~e.big THEN [s EXCEPT !.held = e.frags] ELSE s

Init == l = 1 /\ st = Fresh
Next ==
  /\ l <= Len(Trace)
  /\ l' = l + 1
  /\ LET e == Trace[l] IN
       IF e.ev = "reset" THEN st' = Fresh
       ELSE IF st.poisoned THEN UNCHANGED st
       ELSE LET r == Reason(e, st) IN
            IF r = "" THEN st' = Step(e, st)
            ELSE Reject(e, r) /\ st' = [st EXCEPT !.poisoned = TRUE]
Spec == Init /\ [][Next]_<<l, st>>
Done == Consumed
=============================================================================
