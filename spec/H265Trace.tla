------------------------------ MODULE H265Trace ------------------------------
(* Judge for C14.                                                           *)
EXTENDS H265, TraceIO
VARIABLES l, st

HugeReason(e) ==     \* one item of about 17 MB: the harness reports lengths and equality facts (the bytes do not travel)
  IF e.res # "ok" THEN "huge_item_panic"
  ELSE IF e.nfrags = 0 THEN "huge_item_no_packets"
  ELSE IF e.maxlen > e.mtu THEN "huge_item_fragment_exceeds_mtu"
  ELSE IF \E k \in 1..Len(e.facts) : ~e.facts[k] THEN "huge_item_not_reproduced"
  ELSE ""
DecodeReason(e) ==
  LET r == RefParse(e.bytes, e.donl) IN
  IF r.ok # e.wantok \/ (r.ok /\ r.m # e.want) THEN "oracle_disagrees_with_case"
  ELSE IF e.res = "panic" THEN "parse_panic"
  ELSE IF ~e.wantok THEN
       IF e.res = "err" THEN ""
       ELSE IF e.lenient /\ e.m.type = "ap" /\ e.m.first = e.full.first /\ Len(e.m.others) >= 1 /\ Len(e.m.others) < Len(e.full.others)
               /\ e.m.others = SubSeq(e.full.others, 1, Len(e.m.others)) THEN ""      \* complete units before the cut
       ELSE "truncated_payload_accepted"
  ELSE IF e.res # "ok" THEN "wellformed_payload_rejected"
  ELSE IF e.m # e.want THEN
       IF e.m.type # e.want.type THEN "packet_type"
       ELSE IF e.want.type = "paci" /\ [e.m EXCEPT !.tsci = e.want.tsci] = e.want THEN "tsci_fields"
       ELSE "field_" \o e.want.type
  ELSE IF e.head # IsHead265(e.bytes) THEN "partition_head"
  \* "to exactly the encoded field values": also on an H265Packet that has decoded payloads of every kind before
  ELSE IF e.used.res # "ok" THEN "wellformed_payload_rejected_by_used_receiver"
  ELSE IF e.used.m # e.want THEN "used_receiver_field_" \o e.want.type
  ELSE ""
Hdr16Reason(e) ==
  LET v == e.v IN
  IF e.F # (HF(v) = 1) \/ e.Type # HType(v) \/ e.LayerID # HLayer(v) \/ e.TID # HTid(v) THEN "nal_header_accessor"
  ELSE IF e.ap # (HType(v) = 48) \/ e.fu # (HType(v) = 49) \/ e.paci # (HType(v) = 50) \/ e.vcl # (HType(v) < 32) THEN "nal_header_predicate"
  ELSE ""
Fu8Reason(e) == IF e.S # (e.v >= 128) \/ e.E # ((e.v \div 64) % 2 = 1) \/ e.FuType # e.v % 64 THEN "fu_header_accessor" ELSE ""

\* payloader: parse with the reference parser, reassemble, compare with the input units
APHeaderOk(p, m) ==
  LET us == <<m.first.nal>> \o [k \in 1..Len(m.others) |-> m.others[k].nal]
      h == U16(p, 1) IN
  /\ HType(h) = 48 /\ HF(h) = 0
  /\ HLayer(h) = MinOf([i \in 1..Len(us) |-> HLayer(U16(us[i], 1))])
  /\ HTid(h) = MinOf([i \in 1..Len(us) |-> HTid(U16(us[i], 1))])
PayloadReason(e) ==
  IF e.res # "ok" THEN "payload_panic"
  ELSE IF ~e.stream_intact THEN "wrote_into_callers_stream_buffer"     \* the access units lie in one caller buffer
  ELSE IF \E j \in 1..Len(e.frags) : Len(e.frags[j]) > e.mtu THEN "fragment_exceeds_mtu"
  ELSE IF \E j \in 1..Len(e.parsed) : e.parsed[j].res # "ok" THEN "own_output_rejected"
  ELSE LET rs == [j \in 1..Len(e.frags) |-> RefParse(e.frags[j], e.donl)] IN
    IF \E j \in 1..Len(rs) : ~rs[j].ok THEN "output_not_wellformed"
    ELSE IF \E j \in 1..Len(rs) : rs[j].m # e.parsed[j].m THEN "parser_disagrees_with_reference"
    ELSE LET ra == Reassemble([j \in 1..Len(rs) |-> rs[j].m], 1, <<>>, <<>>, 0) IN
      IF ra.shape # "" THEN ra.shape
      ELSE IF ra.units # e.units THEN
             (IF e.donl /\ \E j \in 1..Len(rs) : rs[j].m.type = "fu" THEN "units_not_reproduced_donl_in_fragments"
              ELSE IF e.donl /\ e.mtu <= 5 /\ e.frags = <<>> THEN "units_dropped_donl_mtu_le_5"
              ELSE "units_not_reproduced")
      ELSE IF \E j \in 1..Len(rs) : rs[j].m.type = "ap" /\ ~APHeaderOk(e.frags[j], rs[j].m) THEN "aggregation_header"
      ELSE IF e.skipagg /\ \E j \in 1..Len(rs) : rs[j].m.type = "ap" THEN "aggregated_despite_skip"
      ELSE ""
Reason(e) ==
  CASE e.ev = "decode" -> DecodeReason(e)
    [] e.ev = "huge" -> HugeReason(e)
    [] e.ev = "hdr16" -> Hdr16Reason(e)
    [] e.ev = "fu8" -> Fu8Reason(e)
    [] e.ev = "payload" -> PayloadReason(e)
    [] OTHER -> "unknown_event"
Init == l = 1 /\ st = FALSE
Next ==
  /\ l <= Len(Trace)
  /\ l' = l + 1
  /\ LET e == Trace[l] IN
       IF e.ev = "reset" THEN st' = FALSE
       ELSE IF st THEN UNCHANGED st
       ELSE LET r == Reason(e) IN
            \* a payloader call is judged on its own (no abstract state is carried from call to call), so a refused call does not
            \* hide the following calls of the same history
            IF r = "" THEN st' = FALSE ELSE Reject(e, r) /\ st' = (e.ev # "payload")
Spec == Init /\ [][Next]_<<l, st>>
Done == Consumed
=============================================================================
