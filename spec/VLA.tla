--------------------------------- MODULE VLA ---------------------------------
(* C19: the Video Layers Allocation RTP header extension, written from the  *)
(* video-layers-allocation00 text.                                          *)
(*   byte 0: RID(2) NS(2) sl_bm(4)                                          *)
(*   if sl_bm = 0: one 4-bit spatial-layer bitmask per RTP stream, two per  *)
(*      byte, high nibble first, zero padded                                *)
(*   2-bit (temporal layer count - 1) per active spatial layer, four per    *)
(*      byte, most significant first, zero padded                           *)
(*   one LEB128 target bitrate (kbps) per temporal layer, layers in stream  *)
(*      then spatial order                                                  *)
(*   optionally, per active layer: width-1 (16), height-1 (16), fps (8)     *)
(* A VLA value: [rid, ns, hasres, layers], layers ordered by (stream,       *)
(* spatial): [stream, spatial, rates (sequence of LEB128 digit sequences),  *)
(* w, h, fps] (w = h = fps = 0 when hasres is FALSE).                       *)
EXTENDS Bytes, TLC

Pow2(n) == 2 ^ n
RECURSIVE SumSeq(_)
SumSeq(s) == IF s = <<>> THEN 0 ELSE Head(s) + SumSeq(Tail(s))
Mask(v, s) == SumSeq([i \in 1..Len(v.layers) |-> IF v.layers[i].stream = s THEN Pow2(v.layers[i].spatial) ELSE 0])
Shared(v) == Mask(v, 0) # 0 /\ \A s \in 0..(v.ns - 1) : Mask(v, s) = Mask(v, 0)

Ordered(v) == \A i \in 1..(Len(v.layers) - 1) :
   LET a == v.layers[i]  b == v.layers[i + 1] IN a.stream < b.stream \/ (a.stream = b.stream /\ a.spatial < b.spatial)
Valid(v) ==
  /\ v.ns \in 1..4 /\ v.rid \in 0..(v.ns - 1)
  /\ \A i \in 1..Len(v.layers) : /\ v.layers[i].stream \in 0..(v.ns - 1) /\ v.layers[i].spatial \in 0..3
                                 /\ Len(v.layers[i].rates) \in 1..4
  /\ Ordered(v)

Byte0(v) == v.rid * 64 + (v.ns - 1) * 16 + (IF Shared(v) THEN Mask(v, 0) ELSE 0)
MaskBytes(v) ==
  IF Shared(v) THEN <<>>
  ELSE [i \in 1..((v.ns + 1) \div 2) |-> Mask(v, 2 * i - 2) * 16 + (IF 2 * i - 1 < v.ns THEN Mask(v, 2 * i - 1) ELSE 0)]
TlField(v, k) == IF k <= Len(v.layers) THEN Len(v.layers[k].rates) - 1 ELSE 0
TlBytes(v) ==
  [i \in 1..((Len(v.layers) + 3) \div 4) |->
     TlField(v, 4 * i - 3) * 64 + TlField(v, 4 * i - 2) * 16 + TlField(v, 4 * i - 1) * 4 + TlField(v, 4 * i)]
RateBytes(v) == Flatten([i \in 1..Len(v.layers) |-> Flatten([j \in 1..Len(v.layers[i].rates) |-> LebBytes(v.layers[i].rates[j])])])
ResBytes(v) ==
  IF ~v.hasres THEN <<>>
  ELSE Flatten([i \in 1..Len(v.layers) |-> BE16(v.layers[i].w - 1) \o BE16(v.layers[i].h - 1) \o <<v.layers[i].fps>>])
EncVLA(v) == <<Byte0(v)>> \o MaskBytes(v) \o TlBytes(v) \o RateBytes(v) \o ResBytes(v)

-----------------------------------------------------------------------------
(* Reference decoder (used to show EncVLA is decodable and consumes all).   *)
BitSet(m, k) == (m \div Pow2(k)) % 2 = 1
Slots(masks, ns) == \* ordered (stream, spatial) pairs
  LET all == [k \in 1..(4 * ns) |-> [stream |-> (k - 1) \div 4, spatial |-> (k - 1) % 4]] IN
  SelectSeq(all, LAMBDA sl : BitSet(masks[sl.stream + 1], sl.spatial))
RECURSIVE ReadRates(_, _, _, _)
\* read cnt LEB128 numbers from b at 1-based position pos
ReadRates(b, pos, cnt, acc) ==
  IF cnt = 0 THEN [ok |-> TRUE, rates |-> acc, next |-> pos]
  ELSE LET r == ReadLeb(b, pos) IN
       IF ~r.ok THEN [ok |-> FALSE, rates |-> acc, next |-> pos]
       ELSE ReadRates(b, r.next, cnt - 1, Append(acc, r.digits))
RECURSIVE ReadLayers(_, _, _, _, _, _)
ReadLayers(b, pos, slots, tls, k, acc) ==
  IF k > Len(slots) THEN [ok |-> TRUE, layers |-> acc, next |-> pos]
  ELSE LET r == ReadRates(b, pos, tls[k], <<>>) IN
       IF ~r.ok THEN [ok |-> FALSE, layers |-> acc, next |-> pos]
       ELSE ReadLayers(b, r.next, slots, tls, k + 1,
              Append(acc, [stream |-> slots[k].stream, spatial |-> slots[k].spatial, rates |-> r.rates, w |-> 0, h |-> 0, fps |-> 0]))
DecVLA(b) ==
  IF Len(b) < 1 THEN [ok |-> FALSE]
  ELSE
    LET rid == b[1] \div 64  ns == ((b[1] \div 16) % 4) + 1  slbm == b[1] % 16
        nmask == IF slbm # 0 THEN 0 ELSE (ns + 1) \div 2
    IN IF Len(b) < 1 + nmask THEN [ok |-> FALSE]
    ELSE
      LET masks == [s \in 1..ns |-> IF slbm # 0 THEN slbm
                                     ELSE IF s % 2 = 1 THEN b[2 + (s - 1) \div 2] \div 16 ELSE b[2 + (s - 1) \div 2] % 16]
          slots == Slots(masks, ns)
          ntl == (Len(slots) + 3) \div 4
          p0 == 2 + nmask
      IN IF Len(b) < 1 + nmask + ntl THEN [ok |-> FALSE]
      ELSE
        LET tls == [k \in 1..Len(slots) |-> ((b[p0 + (k - 1) \div 4] \div Pow2(2 * (3 - ((k - 1) % 4)))) % 4) + 1]
            rl == ReadLayers(b, p0 + ntl, slots, tls, 1, <<>>)
        IN IF ~rl.ok THEN [ok |-> FALSE]
           ELSE IF rl.next = Len(b) + 1 THEN [ok |-> TRUE, v |-> [rid |-> rid, ns |-> ns, hasres |-> FALSE, layers |-> rl.layers]]
           ELSE IF Len(b) - rl.next + 1 # 5 * Len(slots) THEN [ok |-> FALSE]
           ELSE [ok |-> TRUE, v |-> [rid |-> rid, ns |-> ns, hasres |-> TRUE,
                  layers |-> [k \in 1..Len(slots) |-> [rl.layers[k] EXCEPT
                       !.w = U16(b, rl.next + 5 * (k - 1)) + 1, !.h = U16(b, rl.next + 5 * (k - 1) + 2) + 1, !.fps = b[rl.next + 5 * (k - 1) + 4]]]]]
-----------------------------------------------------------------------------
(* The enumerated value domain (shared by the model check and the generator) *)
RateClasses == << <<0>>, <<1>>, <<127>>, <<0, 1>>, <<127, 127>>, <<0, 0, 1>>, <<0, 0, 0, 1>>, <<0, 0, 0, 0, 1>>, <<127, 127, 127, 127, 15>>, <<0, 0, 0, 0, 0, 0, 0, 64>> >>
MkVLA(n, subset, salt, res) ==
  LET slots == SelectSeq([k \in 1..(4 * n) |-> k - 1], LAMBDA k : k \in subset)
  IN [rid |-> salt % n, ns |-> n, hasres |-> res,
      layers |-> [i \in 1..Len(slots) |->
         [stream |-> slots[i] \div 4, spatial |-> slots[i] % 4,
          rates |-> [j \in 1..(((salt + i) % 4) + 1) |-> RateClasses[((salt + 3 * i + j) % 10) + 1]],
          \* salt % 8 = 7: the all-minimum resolution (1 x 1 at 0 fps) on every layer: all-zero records
          w |-> IF res THEN (IF salt % 8 = 7 THEN 1 ELSE IF (salt + i) % 3 = 0 THEN 65536 ELSE 1 + ((salt * 37 + i) % 1920)) ELSE 0,
          h |-> IF res THEN (IF salt % 8 = 7 THEN 1 ELSE IF (salt + i) % 5 = 0 THEN 1 ELSE 1 + ((salt * 11 + i) % 1080)) ELSE 0,
          fps |-> IF res THEN (IF salt % 8 = 7 THEN 0 ELSE (salt * 7 + i) % 256) ELSE 0]]]
RECURSIVE Card(_)
Card(m) == IF m = 0 THEN 0 ELSE (m % 2) + Card(m \div 2)
SubsetOf(m, n) == { k \in 0..(4 * n - 1) : (m \div Pow2(k)) % 2 = 1 }

=============================================================================
