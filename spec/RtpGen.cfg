CONSTANTS
  PayLens = {0, 1, 5}
  PadSizes = {0, 1, 255}
  CsrcCounts = {0, 1, 15}
  Rich = FALSE
  Fam = "C01"
