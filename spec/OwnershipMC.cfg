SPECIFICATION Spec
CONSTANTS Bufs = {b1, b2} Insts = {1, 2} MaxCalls = 3 Aliasing = FALSE SharedResults = FALSE GlobalScratch = FALSE
INVARIANT ResultsOwned
CHECK_DEADLOCK FALSE
