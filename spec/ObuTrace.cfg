SPECIFICATION Spec
POSTCONDITION Done
CHECK_DEADLOCK FALSE
