SPECIFICATION Spec
CONSTANT Resync <- ResyncOff
CONSTANTS Sizes = {2, 3, 6, 7, 8, 9, 13} Mtu = 7
INVARIANTS DepackInvertsAnyEncoding RefSatisfiesContract LossInv
CHECK_DEADLOCK FALSE
