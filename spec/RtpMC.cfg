SPECIFICATION Spec
CONSTANTS
  PayLens = {0, 1, 5}
  PadSizes = {0, 1, 255}
  CsrcCounts = {0, 1, 15}
  Rich = FALSE
  KnobSet = "some"
INVARIANTS DomWellFormed ParseInvertsImage HeaderParseInvertsImage CanonIsImage CanonSize TruncatedHeaderRejected
CHECK_DEADLOCK FALSE
