----------------------------- MODULE NtpTimeApa -----------------------------
(* C18, symbolic leg (Apalache, unbounded integers): a transcription of the *)
(* library's 32.32 fixed-point conversions. Lemma RoundTrip: for every      *)
(* instant t (in ns since the Unix epoch) of NTP era 0,                     *)
(*     0 <= t - ToTime(ToNtp(t)) <= 1.                                      *)
(* Lemma OffsetRoundTrip: the same for a clock offset |d| < 2^31 s.         *)
(* The transcription is bound to the code by exact agreement on the sampled *)
(* points of the trace (checked by the orchestrator with big integers); if  *)
(* the code's rounding changes while the tolerance still holds, this leg is *)
(* reported as "model no longer matches" and the verdict rests on the       *)
(* sampled leg (no alarm).                                                  *)
EXTENDS Integers
VARIABLES
  \* @type: Int;
  t,
  \* @type: Int;
  d

ToNtp(ns) == ((ns \div 1000000000) + 2208988800) * 4294967296 + (((ns % 1000000000) * 4294967296) \div 1000000000)
ToTime(n) == ((n \div 4294967296) - 2208988800) * 1000000000 + (((n % 4294967296) * 1000000000) \div 4294967296)
\* offset (non-negative magnitude) -> Q32.32 -> duration, as the library does it on the magnitude
ToQ(ns) == (ns \div 1000000000) * 4294967296 + (((ns % 1000000000) * 4294967296) \div 1000000000)
FromQ(q) == (q \div 4294967296) * 1000000000 + (((q % 4294967296) * 1000000000) \div 4294967296)

Init == t \in 0..2085978495999999999 /\ d \in 0..2147483647999999999
Next == UNCHANGED <<t, d>>
RoundTrip == 0 <= t - ToTime(ToNtp(t)) /\ t - ToTime(ToNtp(t)) <= 1
OffsetRoundTrip == 0 <= d - FromQ(ToQ(d)) /\ d - FromQ(ToQ(d)) <= 1
Inv == RoundTrip /\ OffsetRoundTrip
=============================================================================
