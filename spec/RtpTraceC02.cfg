SPECIFICATION Spec
CONSTANTS Prop = "C02"
POSTCONDITION Done
CHECK_DEADLOCK FALSE
