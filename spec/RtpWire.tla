------------------------------ MODULE RtpWire ------------------------------
(* RFC 3550 section 5.1 / 5.3.1 and RFC 8285 wire grammar of an RTP packet, *)
(* written independently of pion/rtp: a reference encoder (Canon: the       *)
(* canonical layout), the set of all RFC-legal images of a packet value     *)
(* (Image with knobs), and a reference decoder (Parse).                     *)
(*                                                                          *)
(* A packet value is a record                                               *)
(*  [ver, pad, x, m, pt, seq, ts, ssrc, csrc, profile, exts, payload,       *)
(*   padsize]                                                               *)
(* with ts/ssrc/csrc entries as 4-byte big-endian tuples (TLC ints are 32   *)
(* bit), exts an ordered sequence of [id, val]. When x is FALSE profile is 0 *)
(* and exts is empty (the projection ignores them, DESIGN 2.5a).            *)
EXTENDS Bytes, TLC

OneByte == 48862   \* 0xBEDE
TwoByte == 4096    \* 0x1000

B2N(b) == IF b THEN 1 ELSE 0

ExtLegal(profile, exts) ==
  IF profile = OneByte THEN \A i \in 1..Len(exts) : exts[i].id \in 1..14 /\ Len(exts[i].val) \in 1..16
  ELSE IF profile = TwoByte THEN \A i \in 1..Len(exts) : exts[i].id \in 1..255 /\ Len(exts[i].val) \in 0..255
  ELSE Len(exts) = 1 /\ exts[1].id = 0 /\ Len(exts[1].val) % 4 = 0

\* the antecedent of C01, verbatim
WellFormedHeader(h) ==
  /\ h.ver \in 0..3 /\ h.pt \in 0..127 /\ h.seq \in 0..65535
  /\ Len(h.csrc) <= 15
  /\ (h.x => ExtLegal(h.profile, h.exts))
  /\ (~h.x => h.exts = <<>>)
WellFormed(p) ==
  /\ WellFormedHeader(p)
  /\ p.padsize \in 0..255
  /\ (p.pad <=> p.padsize \in 1..255)

ElemBytes(profile, e) ==
  IF profile = OneByte THEN <<e.id * 16 + (Len(e.val) - 1)>> \o e.val
  ELSE IF profile = TwoByte THEN <<e.id, Len(e.val)>> \o e.val
  ELSE e.val
PadTo4(s) == s \o Zeros((4 - (Len(s) % 4)) % 4)
ExtBody(profile, exts) == Flatten([i \in 1..Len(exts) |-> ElemBytes(profile, exts[i])])

FixedBytes(h) ==
  <<h.ver * 64 + B2N(h.pad) * 32 + B2N(h.x) * 16 + Len(h.csrc), B2N(h.m) * 128 + h.pt>>
  \o BE16(h.seq) \o h.ts \o h.ssrc \o Flatten(h.csrc)
ExtBlock(profile, body) == BE16(profile) \o BE16(Len(body) \div 4) \o body
CanonHeader(h) ==
  FixedBytes(h) \o (IF h.x THEN ExtBlock(h.profile, PadTo4(ExtBody(h.profile, h.exts))) ELSE <<>>)
Trailer(p) == IF p.pad THEN Zeros(p.padsize - 1) \o <<p.padsize>> ELSE <<>>
Canon(p) == CanonHeader(p) \o p.payload \o Trailer(p)
HeaderSize(h) == Len(CanonHeader(h))

-----------------------------------------------------------------------------
(* Non-canonical but RFC-legal images. A knob record chooses:               *)
(*   pre[i]  zero bytes before element i (RFC 8285: padding may appear      *)
(*           anywhere between elements)                                     *)
(*   tailw   extra whole zero words after the (padded) elements             *)
(*   term    one-byte only: append terminator 0xF? followed by junk bytes   *)
(*   padfill value of the RTP padding bytes before the count (RFC 3550:     *)
(*           their content is unspecified)                                  *)
KnobBody(profile, exts, k) ==
  LET elems == Flatten([i \in 1..Len(exts) |->
                 Zeros(IF i <= Len(k.pre) THEN k.pre[i] ELSE 0) \o ElemBytes(profile, exts[i])])
      term == IF profile = OneByte /\ k.term THEN <<15 * 16 + 3, 170, 187>> ELSE <<>>
      \* after a terminator the rest of the block is ignored: fill with non-zero junk
      filled == IF term = <<>> THEN PadTo4(elems)
                ELSE LET s == elems \o term IN s \o Fill((4 - (Len(s) % 4)) % 4, 204)
  IN filled \o Zeros(4 * k.tailw)
ImageHeader(h, k) ==
  FixedBytes(h) \o (IF h.x THEN ExtBlock(h.profile,
        IF h.profile \in {OneByte, TwoByte} THEN KnobBody(h.profile, h.exts, k) ELSE ExtBody(h.profile, h.exts))
     ELSE <<>>)
Image(p, k) ==
  ImageHeader(p, k) \o p.payload
  \o (IF p.pad THEN Fill(p.padsize - 1, k.padfill) \o <<p.padsize>> ELSE <<>>)
CanonKnob == [pre |-> <<>>, tailw |-> 0, term |-> FALSE, padfill |-> 0]

-----------------------------------------------------------------------------
(* Reference decoder. Offsets are 0-based like the library's n; b[i + 1] is  *)
(* the byte at offset i.                                                    *)
At(b, off) == b[off + 1]
Sub(b, from, to) == Slice(b, from + 1, to)      \* bytes at offsets from .. to-1

\* strict element walk inside [i, to): elements must lie wholly inside the block
RECURSIVE Walk(_, _, _, _, _)
Walk(b, i, to, profile, acc) ==
  IF i >= to THEN [ok |-> TRUE, els |-> acc]
  ELSE IF At(b, i) = 0 THEN Walk(b, i + 1, to, profile, acc)
  ELSE IF profile = OneByte THEN
         LET id == At(b, i) \div 16  ln == (At(b, i) % 16) + 1 IN
         IF id = 15 THEN [ok |-> TRUE, els |-> acc]
         ELSE IF i + 1 + ln > to THEN [ok |-> FALSE, els |-> acc]
         ELSE Walk(b, i + 1 + ln, to, profile, Append(acc, [id |-> id, val |-> Sub(b, i + 1, i + 1 + ln)]))
  ELSE
         IF i + 2 > to THEN [ok |-> FALSE, els |-> acc]
         ELSE LET id == At(b, i)  ln == At(b, i + 1) IN
              IF i + 2 + ln > to THEN [ok |-> FALSE, els |-> acc]
              ELSE Walk(b, i + 2 + ln, to, profile, Append(acc, [id |-> id, val |-> Sub(b, i + 2, i + 2 + ln)]))

Fail == [ok |-> FALSE]

ParseHeader(b) ==
  IF Len(b) < 12 THEN Fail
  ELSE
    LET cc == b[1] % 16
        x == Bit(b[1], 4) = 1
        n0 == 12 + 4 * cc
    IN
    IF Len(b) < n0 THEN Fail
    ELSE IF x /\ Len(b) < n0 + 4 THEN Fail
    ELSE
      LET profile == IF x THEN U16(b, n0 + 1) ELSE 0
          words == IF x THEN U16(b, n0 + 3) ELSE 0
          extStart == n0 + 4
          extEnd == extStart + 4 * words
          n == IF x THEN extEnd ELSE n0
      IN
      IF x /\ Len(b) < extEnd THEN Fail
      ELSE
        LET walk == IF ~x THEN [ok |-> TRUE, els |-> <<>>]
                    ELSE IF profile \in {OneByte, TwoByte} THEN Walk(b, extStart, extEnd, profile, <<>>)
                    ELSE [ok |-> TRUE, els |-> <<[id |-> 0, val |-> Sub(b, extStart, extEnd)]>>]
        IN
        IF ~walk.ok THEN Fail
        ELSE [ok |-> TRUE, n |-> n,
              h |-> [ver |-> b[1] \div 64, pad |-> Bit(b[1], 5) = 1, x |-> x, m |-> b[2] >= 128, pt |-> b[2] % 128,
                     seq |-> U16(b, 3), ts |-> Sub(b, 4, 8), ssrc |-> Sub(b, 8, 12),
                     csrc |-> [i \in 1..cc |-> Sub(b, 12 + 4 * (i - 1), 12 + 4 * i)],
                     profile |-> profile, exts |-> walk.els]]

Parse(b) ==
  LET ph == ParseHeader(b) IN
  IF ~ph.ok THEN Fail
  ELSE
    LET pad == ph.h.pad
        padsize == IF pad /\ Len(b) > ph.n THEN b[Len(b)] ELSE 0
    IN
    IF pad /\ (padsize = 0 \/ ph.n + padsize > Len(b)) THEN Fail
    ELSE [ok |-> TRUE, n |-> ph.n,
          p |-> ph.h @@ [payload |-> Sub(b, ph.n, Len(b) - padsize), padsize |-> padsize]]

HeaderOf(p) == [f \in (DOMAIN p) \ {"payload", "padsize"} |-> p[f]]

-----------------------------------------------------------------------------
(* Loose walk used by C02: the statement only demands that every reported   *)
(* extension value is the input bytes following its own element header; it  *)
(* does not fix where a decoder of malformed input stops. Elements are only *)
(* required to lie inside the input.                                        *)
RECURSIVE LooseWalk(_, _, _, _, _, _)
LooseWalk(b, i, to, profile, acc, want) ==
  IF Len(acc) >= want \/ i >= to THEN acc
  ELSE IF At(b, i) = 0 THEN LooseWalk(b, i + 1, to, profile, acc, want)
  ELSE IF profile = OneByte THEN
         LET id == At(b, i) \div 16  ln == (At(b, i) % 16) + 1 IN
         IF id = 15 THEN acc
         ELSE IF i + 1 + ln > Len(b) THEN acc
         ELSE LooseWalk(b, i + 1 + ln, to, profile, Append(acc, [id |-> id, val |-> Sub(b, i + 1, i + 1 + ln)]), want)
  ELSE
         IF i + 2 > Len(b) THEN acc
         ELSE LET id == At(b, i)  ln == At(b, i + 1) IN
              IF i + 2 + ln > Len(b) THEN acc
              ELSE LooseWalk(b, i + 2 + ln, to, profile, Append(acc, [id |-> id, val |-> Sub(b, i + 2, i + 2 + ln)]), want)
=============================================================================
