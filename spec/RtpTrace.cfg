SPECIFICATION Spec
CONSTANTS Prop = "any"
POSTCONDITION Done
CHECK_DEADLOCK FALSE
