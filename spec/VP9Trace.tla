------------------------------ MODULE VP9Trace ------------------------------
(* Judge for C12. Payloader state: the running 15-bit picture id.           *)
EXTENDS VP9, TraceIO
VARIABLES l, st
Fresh == [poisoned |-> FALSE, id |-> 0, started |-> FALSE]
HugeReason(e) ==     \* one item of about 17 MB: the harness reports lengths and equality facts (the bytes do not travel)
  IF e.res # "ok" THEN "huge_item_panic"
  ELSE IF e.nfrags = 0 THEN "huge_item_no_packets"
  ELSE IF e.maxlen > e.mtu THEN "huge_item_fragment_exceeds_mtu"
  ELSE IF \E k \in 1..Len(e.facts) : ~e.facts[k] THEN "huge_item_not_reproduced"
  ELSE ""
DecodeReason(e) ==
  IF e.res = "panic" THEN "decode_panic"
  ELSE IF ~e.wantok THEN (IF e.res = "err" THEN "" ELSE "truncated_descriptor_accepted")
  ELSE IF e.res # "ok" THEN "wellformed_descriptor_rejected"
  ELSE IF e.f # e.want THEN
         LET names == <<"I", "P", "L", "F", "B", "E", "V", "Z", "PictureID", "TID", "U", "SID", "D", "PDiff", "TL0PICIDX", "NS", "Y", "G", "NG", "Width", "Height", "PGTID", "PGU", "PGPDiff", "Payload">>
             bad == SelectSeq(names, LAMBDA n : e.f[n] # e.want[n]) IN
         "field_" \o (IF bad = <<>> THEN "record_shape" ELSE bad[1])
  ELSE IF e.out # e.want.Payload THEN "returned_bytes"
  ELSE IF e.head # e.want.B THEN "partition_head"
  \* also on a VP9Packet that has decoded descriptors with every optional part before
  ELSE IF e.used.res # "ok" THEN "wellformed_descriptor_rejected_by_used_packet"
  ELSE IF e.used.f # e.want THEN
         LET names == <<"I", "P", "L", "F", "B", "E", "V", "Z", "PictureID", "TID", "U", "SID", "D", "PDiff", "TL0PICIDX", "NS", "Y", "G", "NG", "Width", "Height", "PGTID", "PGU", "PGPDiff", "Payload">>
             bad == SelectSeq(names, LAMBDA n : e.used.f[n] # e.want[n]) IN
         "used_packet_field_" \o (IF bad = <<>> THEN "record_shape" ELSE bad[1])
  ELSE IF e.used.out # e.want.Payload THEN "used_packet_returned_bytes"
  ELSE IF ~e.append_safe THEN "decoded_lists_share_memory"      \* the caller appended to one list of the decoded descriptor
  ELSE ""
HeaderReason(e) ==
  IF e.res = "panic" \/ e.trunc_panics # 0 THEN "header_panic"
  ELSE IF e.res # "ok" THEN "wellformed_header_rejected"
  ELSE IF e.f # e.want THEN
         LET names == <<"Profile", "ShowExistingFrame", "FrameToShowMapIdx", "NonKeyFrame", "ShowFrame", "ErrorResilientMode", "HasColor", "BitDepth", "ColorSpace", "ColorRange", "SubsamplingX", "SubsamplingY", "Width", "Height">>
             bad == SelectSeq(names, LAMBDA n : e.f[n] # e.want[n]) IN
         "header_field_" \o (IF bad = <<>> THEN "record_shape" ELSE bad[1])
  ELSE ""
PayloadReason(e, id) ==
  IF e.res # "ok" THEN "payload_panic"
  ELSE IF \E j \in 1..Len(e.decoded) : e.decoded[j].res # "ok" THEN "own_output_rejected"
  ELSE IF \E j \in 1..Len(e.frags) : Len(e.frags[j]) > e.mtu THEN "fragment_exceeds_mtu"
  ELSE LET dec == [j \in 1..Len(e.decoded) |-> e.decoded[j].f] IN
       IF Len(dec) = 0 THEN "no_packets"
       ELSE IF Flatten([j \in 1..Len(dec) |-> dec[j].Payload]) # e.frame THEN "frame_not_reproduced"
       ELSE IF \E j \in 1..Len(dec) : dec[j].PictureID # id \/ ~dec[j].I \/ e.frags[j][2] < 128 THEN "picture_id"
       ELSE IF \E j \in 1..Len(dec) : dec[j].B # (j = 1) \/ dec[j].E # (j = Len(dec)) THEN "begin_end_flags"
       ELSE IF e.existing THEN ""      \* a show_existing_frame has no frame type and no coded size: only the lossless / id / B-E clauses apply
       ELSE IF ~e.flexible /\ e.key /\ (e.w > 65535 \/ e.h > 65535) THEN ""      \* coded size 65536 does not fit the 16-bit SS fields (stated limit)
       ELSE IF ~ValidVP9Packetization(e.frame, e.flexible, e.key, e.w, e.h, id, dec, e.frags) THEN
              (IF ~e.flexible /\ e.key /\ ~(dec[1].V /\ dec[1].Y /\ Len(dec[1].Width) >= 1 /\ dec[1].Width[1] = e.w /\ dec[1].Height[1] = e.h) THEN "scalability_structure_size"
               ELSE IF ~e.flexible /\ \E j \in 1..Len(dec) : dec[j].P # ~e.key THEN "p_bit" ELSE "packetization_shape")
       ELSE ""
Init == l = 1 /\ st = Fresh
Next ==
  /\ l <= Len(Trace)
  /\ l' = l + 1
  /\ LET e == Trace[l] IN
       IF e.ev = "reset" THEN st' = Fresh
       ELSE IF st.poisoned THEN UNCHANGED st
       ELSE IF e.ev = "huge" THEN LET r == HugeReason(e) IN (IF r = "" THEN TRUE ELSE Reject(e, r)) /\ UNCHANGED st
       ELSE IF e.ev = "decode" THEN LET r == DecodeReason(e) IN (IF r = "" THEN TRUE ELSE Reject(e, r)) /\ UNCHANGED st
       ELSE IF e.ev = "header" THEN LET r == HeaderReason(e) IN (IF r = "" THEN TRUE ELSE Reject(e, r)) /\ UNCHANGED st
       ELSE IF e.ev = "payload" THEN
            LET id == IF st.started THEN st.id ELSE e.startid
                r == PayloadReason(e, id) IN
            IF r = "" THEN st' = [st EXCEPT !.id = NextId(id), !.started = TRUE]
            ELSE Reject(e, r) /\ st' = [st EXCEPT !.poisoned = TRUE]
       ELSE Reject(e, "unknown_event") /\ UNCHANGED st
Spec == Init /\ [][Next]_<<l, st>>
Done == Consumed
=============================================================================
