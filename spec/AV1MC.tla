-------------------------------- MODULE AV1MC --------------------------------
(* Oracle sanity for C13: a reference one-OBU-per-packet aggregator and a   *)
(* reference greedy W=0 aggregator both satisfy AggregationReason = "" for  *)
(* every bounded OBU list; stitching their output returns the transmitted   *)
(* OBUs; LEB128 digits round-trip; a packet that mixes layers is refused.   *)
EXTENDS AV1
CONSTANTS Sizes, Mtu
VARIABLES os, lvl, pol
Obu(t, e, tid, sid, n, hs, salt) == [type |-> t, ext |-> e, tid |-> tid, sid |-> sid, r3 |-> 0, r1 |-> 0, hassize |-> hs, payload |-> Pat(n, salt)]
Lists == { <<Obu(t, e, 1, 0, n, TRUE, 1)>> : t \in {1, 2, 3, 6, 8, 15}, e \in BOOLEAN, n \in Sizes }
         \cup { <<Obu(2, FALSE, 0, 0, 0, TRUE, 1), Obu(1, e, 0, 0, n1, TRUE, 2), Obu(6, e, 0, 1, n2, hs, 3)>> : e \in BOOLEAN, n1 \in Sizes, n2 \in Sizes, hs \in BOOLEAN }
Init == os \in Lists /\ lvl = 0 /\ pol = "one"
Next == lvl = 0 /\ lvl' = 1 /\ pol' \in {"one", "w0"} /\ UNCHANGED os
Spec == Init /\ [][Next]_<<os, lvl, pol>>
\* policy "one": every OBU alone, W = 1, fragments of Mtu - 1 bytes
OneOBU(b) == LET room == Mtu - 1  k == (Len(b) + room - 1) \div room IN
  [j \in 1..k |-> <<(IF j > 1 THEN 128 ELSE 0) + (IF j < k THEN 64 ELSE 0) + 16>> \o Slice(b, (j - 1) * room + 1, Min(j * room, Len(b)))]
\* policy "w0": every OBU alone but length-prefixed (W = 0) when it fits in one packet
W0OBU(b) == IF Len(b) + 2 <= Mtu /\ Len(b) < 128 THEN << <<0>> \o LebOfNat(Len(b)) \o b >> ELSE OneOBU(b)
RefPayload == LET tx == Transmitted(os) IN Flatten([i \in 1..Len(tx) |-> IF pol = "one" THEN OneOBU(TxForm(tx[i])) ELSE W0OBU(TxForm(tx[i]))])
RefSatisfies == AggregationReason(os, Mtu, RefPayload) = ""
LebRoundTrip == \A n \in {0, 1, 127, 128, 129, 16383, 16384, 2097151, 2097152, 268435455, 268435456, 2147483647} :
   LET r == ReadLeb(LebOfNat(n), 1) IN r.ok /\ DigitsVal(r.digits) = n /\ r.next = Len(LebOfNat(n)) + 1
\* two OBUs of different spatial layers squeezed into one W=2 packet are refused
MixedLayersRefused ==
  LET a == Obu(6, TRUE, 0, 0, 2, TRUE, 1)  b == Obu(6, TRUE, 0, 1, 2, TRUE, 2)
      pkt == <<32>> \o LebOfNat(Len(TxForm(a))) \o TxForm(a) \o TxForm(b) IN
  AggregationReason(<<a, b>>, 100, <<pkt>>) = "different_layers_share_packet"
=============================================================================
