------------------------------ MODULE SeqTrace ------------------------------
(* Judge for C07. Hook events ("next") are replayed as the inc/wrap step of *)
(* the Sequencer model with MOD = 65536; every client return must name a    *)
(* hook event with its value inside its own [inv, ret] window (witness      *)
(* proposed by the harness, verified here), each hook event is claimed at   *)
(* most once and all are claimed; issue order (forced by the values) must    *)
(* respect real time; RollOverCount reads are judged by call windows: every *)
(* issue whose call returned before the read began is visible, no issue     *)
(* whose call began after the read returned is.                             *)
EXTENDS Naturals, Sequences, FiniteSets, TLC, TraceIO
VARIABLES l, st
MOD == 65536

Fresh(e, line) == [poisoned |-> FALSE, base |-> line, kind |-> e.kind, start |-> e.start, sn |-> MOD, roc |-> 0, c |-> 0,
                   nhook |-> 0, lastref |-> 0, ncalls |-> 0, npos |-> 0, maxinv |-> 0, maxinv2 |-> 0, pzLast |-> (e.start + MOD - 1) % MOD, pzRoc |-> 0, pzBroken |-> FALSE]
HookAt(s, k) == Trace[s.base + k]          \* k-th hook event of the current case (1-based)
CallAt(s, k) == Trace[s.base + s.nhook + k]   \* the call that claimed the k-th issue (calls are listed in issue order)
RocAfter(s, k) == IF k = 0 THEN 0 ELSE HookAt(s, k).roc

Wraps(vs) == Cardinality({k \in 2..Len(vs) : vs[k] < vs[k - 1]})      \* a number smaller than the one before it: the counter passed zero
Reason(e, s) ==
  CASE e.ev = "next" ->
         IF s.sn = MOD THEN   \* first value
            (IF s.kind \in {"fixed", "concurrent"} /\ e.v # s.start THEN "first_value_not_start"
             ELSE IF s.kind = "random" /\ e.v >= 32768 THEN "random_start_not_below_2_15"
             ELSE IF e.roc # (IF e.v = 0 THEN 1 ELSE 0) THEN "rollover_count" ELSE "")
         ELSE IF e.v # (s.sn + 1) % MOD THEN "not_successor"
         ELSE IF e.roc # s.roc + (IF e.v = 0 THEN 1 ELSE 0) THEN "rollover_count" ELSE ""
    [] e.ev = "call" ->
         IF e.ref = 0 THEN "value_not_issued_during_call"
         ELSE IF e.ref > s.nhook THEN "harness_ref_out_of_range"
         ELSE IF e.ref <= s.lastref THEN "value_handed_out_twice"
         ELSE LET h == HookAt(s, e.ref) IN
              IF h.ev # "next" \/ h.v # e.v THEN "harness_bad_witness"
              ELSE IF ~(e.inv < h.c /\ h.c < e.ret) THEN "value_not_issued_during_call"
              ELSE IF e.ret < s.maxinv THEN "issue_order_contradicts_real_time" ELSE ""   \* an earlier issue went to a call invoked after this one returned
    [] e.ev = "random_many" -> IF e.not_below_2_15 # 0 \/ e.max_first >= 32768 THEN "random_start_not_below_2_15" ELSE ""
    [] e.ev = "lin" ->      \* hook-less: forced linearization order (by value) must respect real time
         IF e.pos # s.npos THEN "harness_lin_order"
         ELSE IF e.v # (s.start + e.pos) % MOD THEN "value_duplicated_or_skipped"
         ELSE IF e.ret < s.maxinv2 THEN "issue_order_contradicts_real_time"
         ELSE ""
    [] e.ev = "read" ->     \* judged by call windows: issues 1..lo are visible (call lo returned before the read began), issue hi+1 is not (invoked after the read returned)
         IF e.lo > s.nhook \/ e.hi > s.nhook \/ s.ncalls # s.nhook THEN "harness_read_refs"
         ELSE IF e.lo > 0 /\ ~(CallAt(s, e.lo).ev = "call" /\ CallAt(s, e.lo).ref = e.lo /\ CallAt(s, e.lo).ret < e.inv) THEN "harness_read_lo"
         ELSE IF e.hi < s.nhook /\ ~(CallAt(s, e.hi + 1).ev = "call" /\ CallAt(s, e.hi + 1).ref = e.hi + 1 /\ CallAt(s, e.hi + 1).inv > e.ret) THEN "harness_read_hi"
         ELSE IF e.roc < RocAfter(s, e.lo) \/ e.roc > RocAfter(s, e.hi) THEN "rollover_read_not_linearizable" ELSE ""
    [] e.ev = "pz" ->       \* numbers drawn by a packetizer (an instrument here: which numbers it puts on packets is C06's business):
                            \* RollOverCount must have advanced by the number of wraps the observed number stream shows
         IF e.res # "ok" \/ e.nil_packets # 0 \/ s.pzBroken THEN ""       \* nothing can be observed through a broken instrument (for the rest of the case)
         ELSE IF e.roc # s.pzRoc + Wraps(<<s.pzLast>> \o e.seqs) THEN "rollover_count_via_packetizer"
         ELSE ""
    [] e.ev = "long" ->     \* several wraps on one sequencer (closed form: SeqInd.tla): no step breaks the succession, the j-th zero is handed out
                            \* by call j * 2^16 - s0 and raises the count to j, the final value and count follow from the number of calls
         LET s0 == (s.start + MOD - 1) % MOD  wraps == (s0 + e.calls) \div MOD IN
         IF e.res # "ok" THEN "panic"
         ELSE IF e.first # s.start THEN "first_value_not_start"
         ELSE IF e.breaks # 0 THEN "not_successor"
         ELSE IF e.last # (s.start + e.calls - 1) % MOD THEN "not_successor"
         ELSE IF Len(e.zeros) # wraps \/ e.roc # wraps THEN "rollover_count"
         ELSE IF \E j \in 1..Len(e.zeros) : e.zeros[j][1] # j * MOD - s0 \/ e.zeros[j][2] # j THEN "rollover_count"
         ELSE ""
    [] e.ev = "unavailable" -> ""      \* the verification constructor for a preset roll-over count does not fit the implementation
    [] e.ev = "end" ->
         IF e.panics # 0 THEN "panic"
         ELSE IF e.nhooks # e.expected \/ s.nhook # e.expected THEN "missing_or_extra_issue"
         ELSE IF s.ncalls # e.expected THEN "unclaimed_issue" ELSE ""
    [] OTHER -> "unknown_event"
Step(e, s) ==
  CASE e.ev = "next" -> [s EXCEPT !.sn = e.v, !.roc = e.roc, !.c = e.c, !.nhook = s.nhook + 1]
    [] e.ev = "call" -> [s EXCEPT !.lastref = e.ref, !.ncalls = s.ncalls + 1, !.maxinv = IF e.inv > s.maxinv THEN e.inv ELSE s.maxinv]
    [] e.ev = "random_many" -> IF e.not_below_2_15 # 0 \/ e.max_first >= 32768 THEN "random_start_not_below_2_15" ELSE ""
    [] e.ev = "pz" -> IF e.res # "ok" \/ e.nil_packets # 0 THEN [s EXCEPT !.pzBroken = TRUE]
                      ELSE IF e.seqs = <<>> THEN [s EXCEPT !.pzRoc = e.roc]
                      ELSE [s EXCEPT !.pzLast = e.seqs[Len(e.seqs)], !.pzRoc = e.roc]
    [] e.ev = "lin" -> [s EXCEPT !.npos = s.npos + 1, !.maxinv2 = IF e.inv > s.maxinv2 THEN e.inv ELSE s.maxinv2]
    [] OTHER -> s

Init == l = 1 /\ st = [poisoned |-> TRUE]
Next ==
  /\ l <= Len(Trace)
  /\ l' = l + 1
  /\ LET e == Trace[l] IN
       IF e.ev = "reset" THEN st' = Fresh(e, l)
       ELSE IF st.poisoned THEN UNCHANGED st
       ELSE LET r == Reason(e, st) IN
            IF r = "" THEN st' = Step(e, st)
            ELSE Reject(e, r) /\ st' = [st EXCEPT !.poisoned = TRUE]
Spec == Init /\ [][Next]_<<l, st>>
Done == Consumed
=============================================================================
