SPECIFICATION Spec
CONSTANTS Sizes = {1, 4, 9, 14} Mtu = 6 Resync = FALSE
INVARIANT AfterLoss
CHECK_DEADLOCK FALSE
