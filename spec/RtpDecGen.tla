----------------------------- MODULE RtpDecGen -----------------------------
(* Case generator for C02 (arbitrary / damaged input, reused receivers) and *)
(* C03 (every RFC-grammar image of a packet value, standalone views).       *)
(* Images come from RtpWire!Image, i.e. from the RFC grammar and not from   *)
(* the library's encoder.                                                   *)
EXTENDS RtpDom, TraceIO
CONSTANTS Fam, KnobSet, Stride

Knobs == IF KnobSet = "canon" THEN {CanonKnob}
         ELSE IF KnobSet = "some" THEN
                { CanonKnob, [pre |-> <<1>>, tailw |-> 0, term |-> FALSE, padfill |-> 255],
                  [pre |-> <<0, 2>>, tailw |-> 1, term |-> FALSE, padfill |-> 0],
                  [pre |-> <<3, 0, 5>>, tailw |-> 0, term |-> TRUE, padfill |-> 0],
                  [pre |-> <<>>, tailw |-> 1, term |-> TRUE, padfill |-> 255] }
         ELSE { [pre |-> pr, tailw |-> tw, term |-> tm, padfill |-> pf]
                 : pr \in {<<>>, <<1>>, <<0, 2>>, <<3, 0, 5>>}, tw \in {0, 1}, tm \in {FALSE, TRUE}, pf \in {0, 255} }

PSeq == SetToSeq(Packets)
KSeq == SetToSeq(Knobs)
\* base images (i indexes packets, j knobs)
Img(i, j) == Image(PSeq[i], KSeq[j])
KnobClass(k) == (IF k = CanonKnob THEN "canon" ELSE "noncanon") \o (IF k.term THEN "_term" ELSE "")
                \o (IF k.pre # <<>> THEN "_gaps" ELSE "") \o (IF k.tailw > 0 THEN "_tailwords" ELSE "")

-----------------------------------------------------------------------------
(* C03 *)
ImageCase(i, j) ==
  LET p == PSeq[i]  k == KSeq[j]  hdr == ImageHeader(p, k) IN
  [fam |-> "C03", kind |-> "image",
   bytes |-> hdr \o p.payload \o (IF p.pad THEN Fill(p.padsize - 1, k.padfill) \o <<p.padsize>> ELSE <<>>),
   prev |-> Img(((i * 7) % Len(PSeq)) + 1, 1), p |-> p, n |-> Len(hdr), term |-> (k.term /\ p.x /\ p.profile = OneByte),
   class |-> "image_" \o LayoutClass(p) \o "_" \o KnobClass(k), tags |-> Tags(p)]
ImageSeq == [idx \in 1..(Len(PSeq) * Len(KSeq)) |-> ImageCase(((idx - 1) \div Len(KSeq)) + 1, ((idx - 1) % Len(KSeq)) + 1)]
ViewCases ==
  { [fam |-> "C03", kind |-> "view", profile |-> PSeq[i].profile, exts |-> PSeq[i].exts,
     bytes |-> ExtBlock(PSeq[i].profile, IF PSeq[i].profile \in {OneByte, TwoByte}
                                          THEN KnobBody(PSeq[i].profile, PSeq[i].exts, KSeq[j])
                                          ELSE ExtBody(PSeq[i].profile, PSeq[i].exts)),
     class |-> "view_" \o LayoutClass(PSeq[i]) \o "_" \o KnobClass(KSeq[j]), tags |-> Tags(PSeq[i])]
    : i \in { ii \in 1..Len(PSeq) : PSeq[ii].x /\ PSeq[ii].payload = <<>> /\ ~PSeq[ii].pad /\ PSeq[ii].csrc = <<>> },
      j \in { jj \in 1..Len(KSeq) : ~KSeq[jj].term } }

-----------------------------------------------------------------------------
(* C02: damage applied to the images selected by Stride *)
SelSeq == SelectSeq([i \in 1..Len(PSeq) |-> i], LAMBDA i : i % Stride = 0)
PrevOf(i) == Img(((i * 5) % Len(PSeq)) + 1, ((i % Len(KSeq)) + 1))
\* every truncation of the selected images (sequences, not sets: no normalisation of big records)
TruncOf(i) == LET b == Img(i, 1)  pv == PrevOf(i) IN
  [c \in 1..Len(b) |-> [fam |-> "C02", kind |-> "bytes", bytes |-> Take(b, c - 1), prev |-> pv, class |-> "trunc_" \o LayoutClass(PSeq[i])]]
Trunc == Flatten([k \in 1..Len(SelSeq) |-> TruncOf(SelSeq[k])])
SetAt(b, pos, v) == [b EXCEPT ![pos] = v]
AlphaSeq(v) == <<0, 1, 15, 16, 128, 255, (v + 1) % 256, (v + 255) % 256>>
MutPosSeq(b, p) ==
  LET n0 == 12 + 4 * Len(p.csrc)
      cand == <<1, 2, Len(b)>> \o (IF p.x THEN [q \in 1..16 |-> n0 + q] ELSE <<>>) IN
  SelectSeq(cand, LAMBDA q : q >= 1 /\ q <= Len(b))
MutClass(pos, b, p) ==
  "mut_" \o (IF pos = 1 THEN "byte0" ELSE IF pos = Len(b) THEN "last" ELSE IF pos = 2 THEN "byte1"
             ELSE IF pos <= 16 + 4 * Len(p.csrc) THEN "exthdr" ELSE "extbody") \o "_" \o LayoutClass(p)
MutOf(i) ==
  LET b == Img(i, ((i \div Stride) % Len(KSeq)) + 1)  pv == PrevOf(i)  ps == MutPosSeq(b, PSeq[i])  al == AlphaSeq(b[1]) IN
  [j \in 1..(Len(ps) * 8) |->
     LET pos == ps[((j - 1) \div 8) + 1]  v == al[((j - 1) % 8) + 1] IN
     [fam |-> "C02", kind |-> "bytes", bytes |-> SetAt(b, pos, v), prev |-> pv, class |-> MutClass(pos, b, PSeq[i])]]
MutCases == Flatten([k \in 1..Len(SelSeq) |-> MutOf(SelSeq[k])])
PairA == SelectSeq([i \in 1..Len(PSeq) |-> i], LAMBDA i : i % (Stride * 4) = 1)
PairB == SelectSeq([i \in 1..Len(PSeq) |-> i], LAMBDA i : i % Stride = 2)
Pairs == [j \in 1..(Len(PairA) * Len(PairB)) |->
   LET a == PairA[((j - 1) \div Len(PairB)) + 1]  bb == PairB[((j - 1) % Len(PairB)) + 1] IN
   [fam |-> "C02", kind |-> "bytes", bytes |-> Img(bb, 1), prev |-> Img(a, ((a % Len(KSeq)) + 1)),
    class |-> "pair_" \o LayoutClass(PSeq[a]) \o "_then_" \o LayoutClass(PSeq[bb])]]

Retag(c) == [c EXCEPT !.fam = Fam]
Damage == LET s == Trunc \o MutCases \o Pairs IN [i \in 1..Len(s) |-> Retag(s[i])]
Raw == IF Fam = "C03" THEN ImageSeq \o SetToSeq(ViewCases) \o Damage ELSE Damage
CaseSeq == [i \in 1..Len(Raw) |-> Raw[i] @@ [case |-> i]]
ASSUME WriteCases(CaseSeq) /\ PrintT(<<"CASES", Len(CaseSeq)>>)
=============================================================================
