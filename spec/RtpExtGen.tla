----------------------------- MODULE RtpExtGen -----------------------------
(* Case generator for C05: every Set/Del history up to the given depths     *)
(* over three alphabets (big: depth <= D1, mid: depth D2, small: depth D3), *)
(* from every start state.                                                  *)
EXTENDS Naturals, Sequences, TLC, TraceIO, SequencesExt
CONSTANTS BigIds, BigLens, MidIds, MidLens, D1, D2, D3

Starts == <<"fresh", "onebyte", "twobyte", "legacy", "um_onebyte", "um_twobyte", "um_legacy", "um_dup", "um_onebyte_plain", "um_twobyte_plain">>
Ops(ids, lens) ==
  SetToSeq({ [op |-> "set", id |-> id, len |-> n, src |-> 0] : id \in ids, n \in lens }
           \cup { [op |-> "del", id |-> id, len |-> 0, src |-> 0] : id \in ids })
RECURSIVE Pow(_, _)
Pow(k, n) == IF n = 0 THEN 1 ELSE k * Pow(k, n - 1)
\* the idx-th history of length n over alphabet AS (idx from 0)
Hist(AS, n, idx) == [j \in 1..n |-> AS[((idx \div Pow(Len(AS), j - 1)) % Len(AS)) + 1] @@ [salt |-> j]]
CasesFor(AS, n, tag) ==
  [k \in 1..(Len(Starts) * Pow(Len(AS), n)) |->
     LET si == ((k - 1) % Len(Starts)) + 1  idx == (k - 1) \div Len(Starts) IN
     [fam |-> "C05", start |-> Starts[si], ops |-> Hist(AS, n, idx), depth |-> n,
      class |-> Starts[si] \o "_" \o tag \o "_d" \o ToString(n)]]
RECURSIVE Upto(_, _, _)
Upto(AS, n, tag) == IF n = 0 THEN CasesFor(AS, 0, tag) ELSE Upto(AS, n - 1, tag) \o CasesFor(AS, n, tag)
Big == Ops(BigIds, BigLens)
Mid == Ops(MidIds, MidLens)
S(id, n) == [op |-> "set", id |-> id, len |-> n]
D(id) == [op |-> "del", id |-> id, len |-> 0]
F(id, src) == [op |-> "setfrom", id |-> id, len |-> 0, src |-> src]
Small == <<S(5, 1) @@ [src |-> 0], D(5) @@ [src |-> 0], S(1, 1) @@ [src |-> 0], S(1, 17) @@ [src |-> 0], S(2, 0) @@ [src |-> 0], S(2, 4) @@ [src |-> 0], S(0, 4) @@ [src |-> 0], S(16, 1) @@ [src |-> 0],
           D(1) @@ [src |-> 0], D(2) @@ [src |-> 0], D(0) @@ [src |-> 0], F(2, 1), F(1, 2), S(1, 4) @@ [src |-> 0]>>
Raw == Upto(Big, D1, "big") \o (IF D2 > D1 THEN CasesFor(Mid, D2, "mid") ELSE <<>>) \o (IF D3 > D2 THEN CasesFor(Small, D3, "small") ELSE <<>>)
CaseSeq == [i \in 1..Len(Raw) |-> Raw[i] @@ [case |-> i]]
ASSUME WriteCases(CaseSeq) /\ PrintT(<<"CASES", Len(CaseSeq)>>)
=============================================================================
