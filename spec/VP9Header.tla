------------------------------ MODULE VP9Header ------------------------------
(* G02 (growth): the VP9 uncompressed frame header, written from the VP9    *)
(* bitstream specification (v0.6) section 6.2: uncompressed_header() up to  *)
(* frame_size(), which is what codecs/vp9.Header exposes.                   *)
(*   frame_marker f(2) = 2; profile_low_bit f(1); profile_high_bit f(1);    *)
(*   Profile = 2*high + low; if Profile = 3: reserved_zero f(1);            *)
(*   show_existing_frame f(1); if set: frame_to_show_map_idx f(3), end.     *)
(*   frame_type f(1) (0 = key); show_frame f(1); error_resilient_mode f(1); *)
(*   key frames: frame_sync_code 0x49 0x83 0x42; color_config();            *)
(*   frame_size(): frame_width_minus_1 f(16), frame_height_minus_1 f(16).   *)
(* color_config(): if Profile >= 2: ten_or_twelve_bit f(1) (BitDepth 12/10) *)
(*   else BitDepth 8; color_space f(3); if color_space # 7 (RGB):           *)
(*   color_range f(1); if Profile in {1,3}: subsampling_x f(1),             *)
(*   subsampling_y f(1), reserved_zero f(1) else both 1;                    *)
(*   else color_range = 1; if Profile in {1,3}: subsampling 0,0 and         *)
(*   reserved_zero f(1).                                                    *)
EXTENDS Bytes, TLC

BitsOf(b) == [k \in 1..(8 * Len(b)) |-> Bit(b[((k - 1) \div 8) + 1], 7 - ((k - 1) % 8))]
RECURSIVE BitsVal(_, _, _)
BitsVal(bs, pos, n) == IF n = 0 THEN 0 ELSE 2 * BitsVal(bs, pos, n - 1) + bs[pos + n - 1]     \* value of bs[pos .. pos+n-1], most significant first
HasBits(bs, pos, n) == pos + n - 1 <= Len(bs)

Bad == [ok |-> FALSE]
\* color_config at pos; returns [ok, pos, depth, cs, range, ssx, ssy]
Color(bs, pos, profile) ==
  LET need1 == IF profile >= 2 THEN 1 ELSE 0 IN
  IF ~HasBits(bs, pos, need1 + 3) THEN Bad
  ELSE
    LET depth == IF profile >= 2 THEN (IF bs[pos] = 1 THEN 12 ELSE 10) ELSE 8
        p1 == pos + need1
        cs == BitsVal(bs, p1, 3)
        p2 == p1 + 3
        odd == profile \in {1, 3}
    IN IF cs # 7 THEN
          (IF ~HasBits(bs, p2, 1 + (IF odd THEN 3 ELSE 0)) THEN Bad
           ELSE [ok |-> TRUE, pos |-> p2 + 1 + (IF odd THEN 3 ELSE 0), depth |-> depth, cs |-> cs, range |-> bs[p2] = 1,
                 ssx |-> IF odd THEN bs[p2 + 1] = 1 ELSE TRUE, ssy |-> IF odd THEN bs[p2 + 2] = 1 ELSE TRUE])
       ELSE
          (IF odd /\ ~HasBits(bs, p2, 1) THEN Bad
           ELSE [ok |-> TRUE, pos |-> p2 + (IF odd THEN 1 ELSE 0), depth |-> depth, cs |-> cs, range |-> TRUE,
                 \* profiles 0 and 2 with RGB are not conformant streams; the fields are then unspecified (see Judged)
                 ssx |-> FALSE, ssy |-> FALSE])

\* the whole header; result [ok, profile, sef, idx, nonkey, show, errres, key (BOOLEAN: color/size present), depth, cs, range, ssx, ssy, wm1, hm1, rgb_nonconformant]
Parse(b) ==
  LET bs == BitsOf(b) IN
  IF ~HasBits(bs, 1, 4) \/ BitsVal(bs, 1, 2) # 2 THEN Bad
  ELSE
    LET profile == 2 * bs[4] + bs[3]
        p0 == IF profile = 3 THEN 6 ELSE 5
    IN IF ~HasBits(bs, p0, 1) THEN Bad
       ELSE IF bs[p0] = 1 THEN
              (IF ~HasBits(bs, p0 + 1, 3) THEN Bad
               ELSE [ok |-> TRUE, profile |-> profile, sef |-> TRUE, idx |-> BitsVal(bs, p0 + 1, 3), key |-> FALSE])
       ELSE IF ~HasBits(bs, p0 + 1, 3) THEN Bad
       ELSE
         LET nonkey == bs[p0 + 1] = 1  show == bs[p0 + 2] = 1  er == bs[p0 + 3] = 1  p1 == p0 + 4 IN
         IF nonkey THEN [ok |-> TRUE, profile |-> profile, sef |-> FALSE, nonkey |-> TRUE, show |-> show, errres |-> er, key |-> FALSE]
         ELSE IF ~HasBits(bs, p1, 24) \/ BitsVal(bs, p1, 8) # 73 \/ BitsVal(bs, p1 + 8, 8) # 131 \/ BitsVal(bs, p1 + 16, 8) # 66 THEN Bad
         ELSE LET c == Color(bs, p1 + 24, profile) IN
              IF ~c.ok \/ ~HasBits(bs, c.pos, 32) THEN Bad
              ELSE [ok |-> TRUE, profile |-> profile, sef |-> FALSE, nonkey |-> FALSE, show |-> show, errres |-> er, key |-> TRUE,
                    depth |-> c.depth, cs |-> c.cs, range |-> c.range, ssx |-> c.ssx, ssy |-> c.ssy,
                    wm1 |-> BitsVal(bs, c.pos, 16), hm1 |-> BitsVal(bs, c.pos + 16, 16),
                    rgb_nonconformant |-> (c.cs = 7 /\ profile \in {0, 2})]

\* ---- independent encoder (used by the generator): fields -> bits -> bytes ----
RECURSIVE ToBits(_, _)
ToBits(v, n) == IF n = 0 THEN <<>> ELSE ToBits(v \div 2, n - 1) \o <<v % 2>>
B2N(x) == IF x THEN 1 ELSE 0
RECURSIVE Pack(_, _)
Pack(bs, fill) ==   \* bits to bytes, the last byte completed with the fill bit
  IF bs = <<>> THEN <<>>
  ELSE LET n == Min(8, Len(bs))
           first == SubSeq(bs, 1, n) \o [i \in 1..(8 - n) |-> fill]
       IN <<BitsVal(first, 1, 8)>> \o Pack(SubSeq(bs, n + 1, Len(bs)), fill)
HdrBits(f) ==
  <<1, 0, f.profile % 2, f.profile \div 2>> \o (IF f.profile = 3 THEN <<f.rz>> ELSE <<>>) \o
  (IF f.sef THEN <<1>> \o ToBits(f.idx, 3)
   ELSE <<0, B2N(f.nonkey), B2N(f.show), B2N(f.errres)>> \o
        (IF f.nonkey THEN <<>>
         ELSE ToBits(73, 8) \o ToBits(131, 8) \o ToBits(66, 8) \o
              (IF f.profile >= 2 THEN <<B2N(f.depth = 12)>> ELSE <<>>) \o ToBits(f.cs, 3) \o
              (IF f.cs # 7 THEN <<B2N(f.range)>> \o (IF f.profile \in {1, 3} THEN <<B2N(f.ssx), B2N(f.ssy), f.rz>> ELSE <<>>)
               ELSE (IF f.profile \in {1, 3} THEN <<f.rz>> ELSE <<>>)) \o
              ToBits(f.wm1, 16) \o ToBits(f.hm1, 16)))
=============================================================================
