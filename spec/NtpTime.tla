------------------------------- MODULE NtpTime -------------------------------
(* C18: NTP time mapping and send-time estimation.                          *)
(* Instants are <<sec, nsec>> since the Unix epoch (TLC integers are 32 bit; *)
(* a nanosecond count would overflow). The judge is a TOLERANCE relation on *)
(* the real outputs - it does not depend on how the code rounds.            *)
(* The abstract protocol Stamp -> Deliver(delay) -> Estimate is modelled on *)
(* field ticks (2^-18 s) with a small wrap modulus M; TLC checks that the   *)
(* estimate recovers the send tick for every delay below M and that the     *)
(* bound is tight (delay = M is not recovered).                             *)
EXTENDS Integers, Sequences, TLC

Abs(x) == IF x < 0 THEN -x ELSE x
\* a - b in nanoseconds, defined when the second counts differ by at most 1
NearBy(a, b) == a[1] <= b[1] + 1 /\ b[1] <= a[1] + 1      \* no subtraction of far-apart values (32-bit overflow)
DiffNs(a, b) == (a[1] - b[1]) * 1000000000 + (a[2] - b[2])
Within(a, b, tol) == NearBy(a, b) /\ Abs(DiffNs(a, b)) <= tol
\* b is not later than a, and at most tol earlier
NotAfterWithin(a, b, tol) == NearBy(a, b) /\ DiffNs(a, b) >= 0 /\ DiffNs(a, b) <= tol
AddDelay(t, d) == LET ns == t[2] + d[2] IN <<t[1] + d[1] + ns \div 1000000000, ns % 1000000000>>

ValidInstant(t) == t[1] >= 0 /\ t[1] <= 2085978495 /\ t[2] \in 0..999999999   \* 1970 .. end of NTP era 0
ValidDelay(d) == d[2] \in 0..999999999 /\ (d[1] < 63 \/ (d[1] = 63 /\ d[2] < 999996185))  \* [0, 64 s - 2^-18 s)
CaptureTol == 1
OffsetTol == 1
EstimateTol == 3816    \* 2^-18 s = 3814.7 ns, plus the 1 ns each conversion may lose

\* durations: [neg, sec, nsec]
DurEq(a, b, tol) ==
  LET sa == IF a.neg THEN -1 ELSE 1  sb == IF b.neg THEN -1 ELSE 1 IN
  IF a.sec = 0 /\ b.sec = 0 THEN Abs(sa * a.nsec - sb * b.nsec) <= tol
  ELSE a.neg = b.neg /\ Abs(a.sec - b.sec) <= 1 /\ Abs((a.sec - b.sec) * 1000000000 + (a.nsec - b.nsec)) <= tol
=============================================================================
