------------------------------- MODULE PipelineGen -------------------------------
(* G07 generator: frames (lists of H264 NAL units or AV1 OBUs) for the whole *)
(* sending pipeline: payloader -> packetizer -> Marshal.                     *)
EXTENDS Bytes, TraceIO, SequencesExt
CONSTANTS Mtus, Sizes
MtuSeq == SetToSeq(Mtus)
SizeSeq == SetToSeq(Sizes)
U(t, n, salt) == <<2 * 32 + t>> \o Pat(n - 1, salt)
Obu(t, n, salt) == [type |-> t, ext |-> FALSE, tid |-> 0, sid |-> 0, r3 |-> 0, r1 |-> 0, hassize |-> TRUE, payload |-> Pat(n, salt)]
H264Frames(n) == << <<U(5, n, 1)>>, <<U(1, 3, 2), U(1, n, 3)>>, <<U(1, 2, 4)>>, <<U(5, 2 * n, 5), U(1, 4, 6), U(1, 5, 7)>> >>
AV1Frames(n) == << <<Obu(1, 3, 1), Obu(6, n, 2)>>, <<Obu(6, 2, 3)>>, <<Obu(3, n, 4), Obu(4, 2 * n, 5), Obu(6, 1, 6)>> >>
\* VP8 frames and Opus packets: one byte string per frame (an Opus packet is never split: it has to fit the packet)
VP8Frames(n) == << <<Pat(n, 1)>>, <<Pat(3, 2)>>, <<Pat(2 * n, 3)>>, <<Pat(1, 4)>> >>
OpusFrames(n, mtu) == << <<Pat(Min(n, mtu - 12), 1)>>, <<Pat(1, 2)>>, <<Pat(Min(2 * n, mtu - 12), 3)>> >>
Codecs == <<"h264", "av1", "vp8", "opus">>
Starts == <<0, 65533, 65535, 30000>>
Case(codec, mi, si, st) ==
  [fam |-> "G07", codec |-> codec, mtu |-> MtuSeq[mi], seqstart |-> Starts[st],
   frames |-> IF codec = "h264" THEN H264Frames(SizeSeq[si]) ELSE IF codec = "vp8" THEN VP8Frames(SizeSeq[si]) ELSE IF codec = "opus" THEN OpusFrames(SizeSeq[si], MtuSeq[mi]) ELSE <<>>,
   obus |-> IF codec = "av1" THEN AV1Frames(SizeSeq[si]) ELSE <<>>,
   class |-> codec \o "_mtu" \o ToString(MtuSeq[mi])]
Raw == [j \in 1..(4 * Len(MtuSeq) * Len(SizeSeq) * 4) |->
          LET k == j - 1 IN
          Case(Codecs[(k % 4) + 1], ((k \div 4) % Len(MtuSeq)) + 1, ((k \div (4 * Len(MtuSeq))) % Len(SizeSeq)) + 1, ((k \div (4 * Len(MtuSeq) * Len(SizeSeq))) % 4) + 1)]
CaseSeq == [i \in 1..Len(Raw) |-> Raw[i] @@ [case |-> i]]
ASSUME WriteCases(CaseSeq) /\ PrintT(<<"CASES", Len(CaseSeq)>>)
=============================================================================
