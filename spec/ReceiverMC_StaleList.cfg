SPECIFICATION Spec
CONSTANTS MaxSteps = 4 StaleOptional = FALSE StaleList = TRUE CtorShared = FALSE
INVARIANTS FreshEqualsReused CtorGivesZero
CHECK_DEADLOCK FALSE
