----------------------------- MODULE ExtCodecs -----------------------------
(* C17: the five fixed-size header-extension payload codecs as bit-field    *)
(* encoders/decoders written from their specifications:                     *)
(*   audio level (RFC 6464): V(1) level(7)                                  *)
(*   transport-cc: 16-bit sequence number, big endian                       *)
(*   playout delay: MIN(12) MAX(12)                                         *)
(*   abs-send-time: 24-bit 6.18 fixed point, big endian                     *)
(*   abs-capture-time: 64-bit UQ32.32 + optional 64-bit Q32.32 offset       *)
(* 64-bit quantities are 8-byte big-endian tuples (TLC ints are 32 bit).    *)
EXTENDS Bytes, TLC

Size(c) == CASE c = "audio" -> 1 [] c = "tcc" -> 2 [] c = "playout" -> 3 [] c = "abssend" -> 3 [] c = "abscapture" -> 8

InRange(c, v) ==
  CASE c = "audio" -> v.level \in 0..127
    [] c = "tcc" -> v.seq \in 0..65535
    [] c = "playout" -> v.min \in 0..4095 /\ v.max \in 0..4095
    [] c = "abssend" -> v.ts \in 0..16777215
    [] c = "abscapture" -> TRUE
\* codecs whose Marshal must refuse out-of-range values (never truncate)
MustRefuse(c) == c \in {"audio", "playout"}

Enc(c, v) ==
  CASE c = "audio" -> <<(IF v.voice THEN 128 ELSE 0) + v.level>>
    [] c = "tcc" -> BE16(v.seq)
    [] c = "playout" -> <<v.min \div 16, (v.min % 16) * 16 + v.max \div 256, v.max % 256>>
    [] c = "abssend" -> BE24(v.ts)
    [] c = "abscapture" -> IF v.hasoff THEN v.ts \o v.off ELSE v.ts

Dec(c, b) ==
  CASE c = "audio" -> [level |-> b[1] % 128, voice |-> b[1] >= 128]
    [] c = "tcc" -> [seq |-> U16(b, 1)]
    [] c = "playout" -> [min |-> b[1] * 16 + b[2] \div 16, max |-> (b[2] % 16) * 256 + b[3]]
    [] c = "abssend" -> [ts |-> U24(b, 1)]
    [] c = "abscapture" -> IF Len(b) >= 16 THEN [ts |-> Take(b, 8), hasoff |-> TRUE, off |-> Slice(b, 9, 16)]
                           ELSE [ts |-> Take(b, 8), hasoff |-> FALSE, off |-> Zeros(8)]
\* what Unmarshal(Marshal(v)) must give
Norm(c, v) == IF c = "abscapture" /\ ~v.hasoff THEN [v EXCEPT !.off = Zeros(8)] ELSE v
=============================================================================
