------------------------------ MODULE VLATrace ------------------------------
(* Judge for C19.                                                           *)
EXTENDS VLA, TraceIO
VARIABLES l, st

DecodeReason(d, want, bytes, pfx) ==
  IF d.res = "panic" THEN pfx \o "panic"
  ELSE IF d.res # "ok" THEN pfx \o "valid_encoding_rejected"
  ELSE IF d.n # Len(bytes) THEN pfx \o "consumed_length"
  ELSE IF d.v # want THEN pfx \o "decoded_value"
  ELSE IF "append_safe" \in DOMAIN d /\ ~d.append_safe THEN pfx \o "decoded_layers_share_memory"    \* the caller appended to one layer's bitrate list
  ELSE ""
MarshalReason(e) ==
  IF e.res = "panic" THEN "marshal_panic"
  ELSE IF e.kind = "invalid" THEN
         (IF e.res # "err" THEN "invalid_accepted_" \o e.rule ELSE "")
  ELSE IF e.in # e.v THEN "harness_mismatch"
  ELSE IF ~Valid(e.v) THEN "harness_not_valid"
  ELSE IF e.res # "ok" THEN "valid_refused"
  ELSE IF Len(e.v.layers) > 0 /\ e.bytes # EncVLA(e.v) THEN
         (IF Len(e.bytes) > Len(EncVLA(e.v)) /\ Take(e.bytes, Len(EncVLA(e.v))) = EncVLA(e.v) THEN "layout_surplus_bytes" ELSE "layout")
  ELSE LET r1 == DecodeReason(e.back, e.v, e.bytes, "roundtrip_") IN
       IF r1 # "" THEN r1 ELSE DecodeReason(e.backused, e.v, e.bytes, "roundtrip_reused_")
UnmarshalReason(e) ==
  IF e.kind = "bytes" THEN
     (IF e.fresh.res = "panic" \/ e.used.res = "panic" THEN "unmarshal_panic"
      ELSE IF e.fresh.n > Len(e.bytes) \/ e.used.n > Len(e.bytes) THEN "consumed_more_than_given"
      ELSE "")
  ELSE IF Len(e.want.layers) = 0 THEN
     (IF e.fresh.res = "panic" \/ e.used.res = "panic" THEN "unmarshal_panic" ELSE "")
  ELSE LET r1 == DecodeReason(e.fresh, e.want, e.bytes, "reference_") IN
       IF r1 # "" THEN r1 ELSE DecodeReason(e.used, e.want, e.bytes, "reference_reused_")
\* fixed values marshalled and decoded after every event must give what they gave when the harness started
Canary(e, r) == IF r # "" THEN r ELSE IF ~e.canary_ok THEN "shared_state_changed_by_earlier_use" ELSE ""
Reason(e) ==
  CASE e.ev = "marshal" -> Canary(e, MarshalReason(e))
    [] e.ev = "unmarshal" -> Canary(e, UnmarshalReason(e))
    [] OTHER -> "unknown_event"
Init == l = 1 /\ st = 0
Next ==
  /\ l <= Len(Trace)
  /\ l' = l + 1
  /\ LET e == Trace[l] IN
       IF e.ev = "reset" THEN st' = 0
       ELSE LET r == Reason(e) IN
            /\ (IF r = "" THEN TRUE ELSE Reject(e, r))
            /\ st' = 0
Spec == Init /\ [][Next]_<<l, st>>
Done == Consumed
=============================================================================
