SPECIFICATION Spec
CONSTANTS MaxSteps = 4 StaleOptional = TRUE StaleList = FALSE CtorShared = FALSE
INVARIANTS FreshEqualsReused CtorGivesZero
CHECK_DEADLOCK FALSE
