---------------------------- MODULE PayloaderTrace ----------------------------
(* Judge for C08: every recorded Payload call and every re-read after the   *)
(* caller overwrote its buffers must satisfy the Payloader contract.        *)
EXTENDS Payloader, TraceIO
VARIABLES l, st
Reason(e) ==
  CASE e.ev = "payload" ->
         IF e.res # "ok" THEN "payload_panic"
         ELSE IF ~SizeLaw(e.kind, e.mtu, e.inlen, e.lens) THEN (IF IgnoresMtu(e.kind) THEN "opus_not_single_fragment" ELSE "fragment_exceeds_mtu")
         ELSE IF ~NonEmptyLaw(e.inlen, e.lens) THEN "empty_fragment"
         ELSE IF ~e.input_unchanged THEN "input_modified"
         ELSE IF ~e.behind_input_unchanged THEN "wrote_behind_input"      \* the caller's buffer continues behind the input (spare capacity)
         ELSE IF ~e.twin_equal THEN "output_depends_on_overwritten_input"
         ELSE ""
    [] e.ev = "reread" -> IF \E i \in 1..Len(e.unchanged) : ~e.unchanged[i] THEN "returned_fragment_aliases_input" ELSE ""
    [] e.ev = "callerwrite" -> IF ~e.others_unchanged THEN "returned_fragments_share_memory" ELSE ""      \* the caller appended to one fragment and wrote over another
    [] e.ev = "parallel" -> IF ~e.same_as_alone THEN "concurrent_instances_interfere" ELSE ""      \* four more instances, each on its own goroutine, same history
    [] OTHER -> "unknown_event"
Init == l = 1 /\ st = FALSE
Next ==
  /\ l <= Len(Trace)
  /\ l' = l + 1
  /\ LET e == Trace[l] IN
       IF e.ev = "reset" THEN st' = FALSE
       ELSE IF st THEN UNCHANGED st
       ELSE LET r == Reason(e) IN
            IF r = "" THEN st' = FALSE ELSE Reject(e, r) /\ st' = TRUE
Spec == Init /\ [][Next]_<<l, st>>
Done == Consumed
=============================================================================
