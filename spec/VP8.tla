--------------------------------- MODULE VP8 ---------------------------------
(* C11: RFC 7741 payload descriptor (encoder written from the RFC figure,   *)
(* reference decoder) and the VP8 payloader contract.                       *)
(*   |X|R|N|S|R| PID |  [ |I|L|T|K| RSV | ]  [ |M| PictureID (7 or 15) | ]   *)
(*   [ TL0PICIDX ]  [ |TID|Y| KEYIDX | ]                                    *)
(* A descriptor value d: [x, n, s, pid, i, l, t, k, m, picid, tl0, tk,      *)
(* r0, r1] (0/1 flags; tk is the raw TID/Y/KEYIDX octet; r0/r1 are the      *)
(* reserved bits a receiver must ignore).                                   *)
EXTENDS Bytes, TLC

Desc(d) ==
  <<d.x * 128 + d.n * 32 + d.s * 16 + d.pid + d.r0>>
  \o (IF d.x = 1 THEN <<d.i * 128 + d.l * 64 + d.t * 32 + d.k * 16 + d.r1>> ELSE <<>>)
  \o (IF d.x = 1 /\ d.i = 1 THEN (IF d.m = 1 THEN <<128 + d.picid \div 256, d.picid % 256>> ELSE <<d.picid>>) ELSE <<>>)
  \o (IF d.x = 1 /\ d.l = 1 THEN <<d.tl0>> ELSE <<>>)
  \o (IF d.x = 1 /\ (d.t = 1 \/ d.k = 1) THEN <<d.tk>> ELSE <<>>)
WellFormedDesc(d) ==
  /\ d.x \in 0..1 /\ d.n \in 0..1 /\ d.s \in 0..1 /\ d.pid \in 0..7 /\ d.i \in 0..1 /\ d.l \in 0..1 /\ d.t \in 0..1 /\ d.k \in 0..1
  /\ d.m \in 0..1 /\ (d.m = 0 => d.picid \in 0..127) /\ (d.m = 1 => d.picid \in 0..32767) /\ d.tl0 \in 0..255 /\ d.tk \in 0..255
  /\ d.r0 \in {0, 8, 64, 72} /\ d.r1 \in 0..15
\* the field values a decoder must report for descriptor d followed by payload
Fields(d, payload) ==
  LET on == d.x = 1 IN
  [X |-> d.x, N |-> d.n, S |-> d.s, PID |-> d.pid,
   I |-> IF on THEN d.i ELSE 0, L |-> IF on THEN d.l ELSE 0, T |-> IF on THEN d.t ELSE 0, K |-> IF on THEN d.k ELSE 0,
   PictureID |-> IF on /\ d.i = 1 THEN d.picid ELSE 0,
   TL0PICIDX |-> IF on /\ d.l = 1 THEN d.tl0 ELSE 0,
   TID |-> IF on /\ d.t = 1 THEN d.tk \div 64 ELSE 0,
   Y |-> IF on /\ d.t = 1 THEN (d.tk \div 32) % 2 ELSE 0,
   KEYIDX |-> IF on /\ d.k = 1 THEN d.tk % 32 ELSE 0,
   Payload |-> payload]

\* reference decoder: [ok, f (fields), m (15-bit form used), dlen]
RefDecode(b) ==
  IF Len(b) < 1 THEN [ok |-> FALSE]
  ELSE
    LET x == b[1] \div 128
        p1 == IF x = 1 THEN 2 ELSE 1                     \* bytes consumed so far
    IN IF x = 1 /\ Len(b) < 2 THEN [ok |-> FALSE]
    ELSE
      LET i == IF x = 1 THEN b[2] \div 128 ELSE 0
          l == IF x = 1 THEN (b[2] \div 64) % 2 ELSE 0
          t == IF x = 1 THEN (b[2] \div 32) % 2 ELSE 0
          k == IF x = 1 THEN (b[2] \div 16) % 2 ELSE 0
      IN IF i = 1 /\ Len(b) < p1 + 1 THEN [ok |-> FALSE]
      ELSE
        LET m == IF i = 1 THEN b[p1 + 1] \div 128 ELSE 0
            p2 == p1 + (IF i = 1 THEN (IF m = 1 THEN 2 ELSE 1) ELSE 0)
        IN IF Len(b) < p2 THEN [ok |-> FALSE]
        ELSE
          LET picid == IF i = 0 THEN 0 ELSE IF m = 1 THEN (b[p1 + 1] % 128) * 256 + b[p1 + 2] ELSE b[p1 + 1]
              p3 == p2 + l
          IN IF Len(b) < p3 THEN [ok |-> FALSE]
          ELSE
            LET p4 == p3 + (IF t = 1 \/ k = 1 THEN 1 ELSE 0) IN
            IF Len(b) < p4 THEN [ok |-> FALSE]
            ELSE
              LET tk == IF t = 1 \/ k = 1 THEN b[p4] ELSE 0 IN
              [ok |-> TRUE, m |-> m, dlen |-> p4,
               f |-> [X |-> x, N |-> (b[1] \div 32) % 2, S |-> (b[1] \div 16) % 2, PID |-> b[1] % 8, I |-> i, L |-> l, T |-> t, K |-> k,
                      PictureID |-> picid, TL0PICIDX |-> IF l = 1 THEN b[p3] ELSE 0,
                      TID |-> IF t = 1 THEN tk \div 64 ELSE 0, Y |-> IF t = 1 THEN (tk \div 32) % 2 ELSE 0,
                      KEYIDX |-> IF k = 1 THEN tk % 32 ELSE 0, Payload |-> Drop(b, p4)]]

-----------------------------------------------------------------------------
(* Payloader contract for one frame: out is the list of emitted payloads.   *)
PidFormOk(r, id) ==
  IF id = 0 THEN (r.f.I = 0 \/ (r.f.PictureID = 0))          \* id 0: absent or 7-bit zero (not observably different)
  ELSE IF id < 128 THEN r.f.I = 1 /\ r.m = 0 /\ r.f.PictureID = id
  ELSE r.f.I = 1 /\ r.m = 1 /\ r.f.PictureID = id
ValidVP8Packetization(frame, mtu, pidOn, id, out) ==
  LET rs == [j \in 1..Len(out) |-> RefDecode(out[j])] IN
  /\ Len(out) >= 1
  /\ \A j \in 1..Len(out) : rs[j].ok /\ Len(out[j]) <= mtu
  /\ \A j \in 1..Len(out) : rs[j].f.S = (IF j = 1 THEN 1 ELSE 0) /\ rs[j].f.PID = 0
  /\ Flatten([j \in 1..Len(out) |-> rs[j].f.Payload]) = frame
  /\ pidOn => \A j \in 1..Len(out) : PidFormOk(rs[j], id)
NextId(id) == (id + 1) % 32768
=============================================================================
