SPECIFICATION Spec
CONSTANTS Depth = 3 Lens = {1, 52, 53, 157} Mtu = 64
INVARIANTS SeqContinuous TsLaw AbsOnlyOnMarked
CHECK_DEADLOCK FALSE
