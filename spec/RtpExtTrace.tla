---------------------------- MODULE RtpExtTrace ----------------------------
(* Judge for C05: every recorded SetExtension / DelExtension / observation  *)
(* / wire round trip must be a step of RtpHeaderExt.                        *)
EXTENDS RtpHeaderExt, TraceIO

VARIABLES l, st
\* st.s = [x, profile, exts]; st.freshIds = ids whose current value was accepted while x was FALSE
Fresh == [poisoned |-> FALSE, s |-> [x |-> FALSE, profile |-> 0, exts |-> <<>>], freshIds |-> {}]

\* the abstract state is the underlying ordered list; the accessors must present it as a map (first match per id)
ObsState(o) == [x |-> o.x, profile |-> o.profile, exts |-> o.raw]
ProfileClass(s) == IF ~s.x THEN "noext" ELSE IF s.profile = OneByte THEN "onebyte" ELSE IF s.profile = TwoByte THEN "twobyte" ELSE "legacy"
Representable(s, id, n) ==
  IF s.profile = OneByte THEN id \in 1..14 /\ n \in 1..16
  ELSE IF s.profile = TwoByte THEN id \in 1..255 /\ n \in 0..255
  ELSE id = 0

ObsReason(o, t, prev) ==
  IF o.res # "ok" THEN "accessor_panic"
  ELSE IF ~o.x /\ o.ids # <<>> THEN "ids_reported_without_extension"
  ELSE IF o.ids # IdsOf(t.exts) THEN "getextensionids_disagrees_with_list"
  ELSE IF o.vals # [i \in 1..Len(o.ids) |-> Lookup(t.exts, o.ids[i])] THEN "getextension_not_first_match"
  ELSE IF ~UniqueIds(t.exts) /\ UniqueIds(prev) THEN "duplicate_ids"      \* a wire image may repeat an id; the accessors must not create repeats
  ELSE IF \E i \in 1..Len(o.probes) : o.probes[i].val # Lookup(t.exts, o.probes[i].id) THEN "get_disagrees_with_ids"      \* probes: ids not listed by GetExtensionIDs
  ELSE ""

\* what the receiver reads under id: its listed value, else the probe of that unlisted id, else nothing
WireExts(w) == [i \in 1..Len(w.ids) |-> [id |-> w.ids[i], val |-> w.vals[i]]]
ProbeVal(w, id) == IF Has(WireExts(w), id) THEN Lookup(WireExts(w), id)
                   ELSE IF \E i \in 1..Len(w.probes) : w.probes[i].id = id THEN w.probes[CHOOSE i \in 1..Len(w.probes) : w.probes[i].id = id].val
                   ELSE <<>>
WireReason(w, t, freshIds) ==
  LET pc == ProfileClass(t) IN
  IF w.res = "panic" THEN "wire_panic_" \o pc \o (IF t.exts = <<>> THEN "_empty" ELSE "")
  ELSE IF w.res = "merr" THEN (IF LegacyNotWords(t) THEN "" ELSE "wire_marshal_refused_" \o pc)
  ELSE IF w.res = "uerr" THEN
         (IF \E i \in 1..Len(t.exts) : ~Representable(t, t.exts[i].id, Len(t.exts[i].val)) /\ t.exts[i].id \in freshIds
          THEN "wire_unreadable_unrepresentable_accepted_on_fresh_header"
          ELSE "wire_unmarshal_rejects_" \o pc)
  ELSE
    LET lost == { i \in 1..Len(t.exts) : ProbeVal(w, t.exts[i].id) # Lookup(t.exts, t.exts[i].id) } IN      \* per id: what GetExtension shows before = after the wire
    IF lost = {} THEN ""
    ELSE IF \E i \in lost : ~Representable(t, t.exts[i].id, Len(t.exts[i].val)) /\ t.exts[i].id \in freshIds
         THEN "wire_lost_unrepresentable_accepted_on_fresh_header"
    ELSE IF \E i \in 1..Len(t.exts) : ~Representable(t, t.exts[i].id, Len(t.exts[i].val)) /\ t.exts[i].id \in freshIds
         THEN "wire_lost_next_to_unrepresentable_accepted_on_fresh_header"
    ELSE IF t.profile = OneByte /\ \E i \in 1..Len(t.exts) : t.exts[i].val = <<>>
         THEN "wire_lost_with_onebyte_zero_length"
    ELSE IF \E i \in lost : ~Representable(t, t.exts[i].id, Len(t.exts[i].val))
         THEN "wire_lost_unrepresentable_" \o pc
    ELSE "wire_lost_representable_" \o pc

FreshAfter(e, s) ==
  IF e.ev \in {"set", "setfrom"} /\ e.res = "ok" THEN (IF s.s.x THEN s.freshIds \ {e.id} ELSE {e.id})
  ELSE IF e.ev = "del" /\ e.res = "ok" THEN s.freshIds \ {e.id} ELSE s.freshIds

\* refusal of the step itself: the state after it is unknown, the case is poisoned
EffectReason(e, s) ==
  LET t == ObsState(e.obs) IN
  IF e.ev = "start" THEN ObsReason(e.obs, t, t.exts)      \* the start state is whatever Unmarshal produced (it may repeat an id)
  ELSE IF e.res = "panic" THEN e.ev \o "_panic"
  \* "a call that returns an error leaves the header unchanged": every field, also the ones no accessor shows while the X bit is clear
  ELSE IF e.res = "err" /\ ~e.struct_unchanged THEN (IF e.ev = "del" THEN "del_error_changed_header" ELSE "set_error_changed_header")
  ELSE IF e.ev = "set" /\ ~SetEffect(s.s, e.id, Pat(e.len, e.salt), e.res, t)
       THEN (IF e.res = "err" THEN "set_error_changed_header" ELSE "set_effect")
  ELSE IF e.ev = "setfrom" /\ ~SetEffect(s.s, e.id, Lookup(IF s.s.x THEN s.s.exts ELSE <<>>, e.src), e.res, t)
       THEN (IF e.res = "err" THEN "set_error_changed_header" ELSE "set_effect_shared_value")
  ELSE IF e.ev = "del" /\ ~DelEffect(s.s, e.id, e.res, t)
       THEN (IF e.res = "err" THEN "del_error_changed_header" ELSE "del_effect")
  ELSE ObsReason(e.obs, t, s.s.exts)
\* the wire round trip is an observation: a refusal is reported, the history goes on
WireR(e, s) == WireReason(e.wire, ObsState(e.obs), IF e.ev = "start" THEN {} ELSE FreshAfter(e, s))

Step(e, s) ==
  [s EXCEPT !.s = ObsState(e.obs),
            !.freshIds = IF e.ev = "start" THEN {} ELSE FreshAfter(e, s)]

Init == l = 1 /\ st = Fresh
Next ==
  /\ l <= Len(Trace)
  /\ l' = l + 1
  /\ LET e == Trace[l] IN
       IF e.ev = "reset" THEN st' = Fresh
       ELSE IF st.poisoned THEN UNCHANGED st
       ELSE IF e.ev \notin {"start", "set", "del", "setfrom"} THEN Reject(e, "unknown_event") /\ st' = [st EXCEPT !.poisoned = TRUE]
       ELSE LET r == EffectReason(e, st) IN
            IF r # "" THEN Reject(e, r) /\ st' = [st EXCEPT !.poisoned = TRUE]
            ELSE LET w == WireR(e, st) IN
                 /\ (IF w = "" THEN TRUE ELSE Reject(e, w))
                 /\ st' = Step(e, st)
Spec == Init /\ [][Next]_<<l, st>>
Done == Consumed
=============================================================================
