---------------------------- MODULE DepacketizerGen ----------------------------
(* Case generator for C09: short byte strings (exhaustive up to the bounds) *)
(* alone and after a "warm" payload that filled every field of the          *)
(* receiver; payloader outputs with single edits (nil / empty / drop / dup  *)
(* / truncate / mutate) as multi-packet histories; optional 2^24 sweeps.    *)
EXTENDS Naturals, Sequences, FiniteSets, TLC, TraceIO, SequencesExt
CONSTANTS Alpha2, Alpha3, Stride, Sweep, All2

Kinds == <<"h264", "h264_avc", "h265", "h265_donl", "vp8", "vp9", "av1", "av1_legacy", "opus",
           "h265_single", "h265_single_donl", "h265_fu", "h265_fu_donl", "h265_ap", "h265_ap_donl", "h265_paci", "h265_toggle">>
Warm(k) ==
  CASE k = "vp8" -> <<144, 240, 129, 35, 69, 231, 1, 2, 3>>
    [] k = "vp9" -> <<255, 129, 35, 53, 3, 4, 56, 2, 128, 1, 224, 1, 64, 0, 240, 2, 52, 1, 88, 2, 3, 9, 9, 9>>
    [] k \in {"h265", "h265_donl", "h265_toggle", "h265_ap", "h265_ap_donl"} -> <<96, 1, 0, 7, 0, 3, 64, 1, 5, 0, 0, 3, 66, 1, 6>>   \* aggregation packet
    [] k \in {"h265_fu", "h265_fu_donl"} -> <<98, 1, 147, 0, 7, 1, 2, 3>>
    [] k = "h265_paci" -> <<100, 1, 130, 56, 1, 2, 3, 38, 1, 9>>
    [] k \in {"h264", "h264_avc"} -> <<124, 133, 1, 2, 3>>                                   \* FU-A start
    [] k \in {"av1", "av1_legacy"} -> <<80, 2, 48, 1, 50, 2>>                                  \* Y=1: last element continues
    [] OTHER -> <<1, 2, 3>>
\* short strings as index-arithmetic sequences (no sets of tuples: a 65 536-element set made the generator crawl)
A2 == SetToSeq(Alpha2)
A3 == SetToSeq(Alpha3)
OneSeq == [b \in 1..256 |-> <<b - 1>>]
TwoAlpha == [j \in 1..(Len(A2) * Len(A2)) |-> <<A2[((j - 1) \div Len(A2)) + 1], A2[((j - 1) % Len(A2)) + 1]>>]
TwoAll == [j \in 1..65536 |-> <<(j - 1) \div 256, (j - 1) % 256>>]
ThreeSeq == [j \in 1..(Len(A3) * Len(A3) * Len(A3)) |->
               <<A3[((j - 1) \div (Len(A3) * Len(A3))) + 1], A3[(((j - 1) \div Len(A3)) % Len(A3)) + 1], A3[((j - 1) % Len(A3)) + 1]>>]
\* a fresh receiver sees every two-byte string when All2; the warm variant (between two warm payloads) keeps the alphabet
StringsCold == << <<>> >> \o OneSeq \o (IF All2 THEN TwoAll ELSE TwoAlpha) \o ThreeSeq
StringsWarm == << <<>> >> \o OneSeq \o TwoAlpha \o ThreeSeq
BytesCase(k, s, warm) ==
  [fam |-> "C09", kind |-> k, src |-> "bytes", items |-> IF warm THEN <<Warm(k), s, Warm(k)>> ELSE <<s>>, probes |-> TRUE, scribble |-> TRUE,
   class |-> k \o "_bytes" \o ToString(Len(s)) \o (IF warm THEN "_warm" ELSE "")]
BytesCases(ki) ==
  LET k == Kinds[ki] IN
  [j \in 1..Len(StringsCold) |-> BytesCase(k, StringsCold[j], FALSE)] \o [j \in 1..Len(StringsWarm) |-> BytesCase(k, StringsWarm[j], TRUE)]

\* well-formed payloads of different forms; every ordered pair is decoded by one receiver
Forms(k) ==
  CASE k \in {"h265", "h265_donl", "h265_toggle"} -> << <<96, 1, 0, 7, 0, 3, 64, 1, 5, 0, 0, 3, 66, 1, 6>>,      \* aggregation packet
                                        <<98, 1, 147, 0, 7, 1, 2, 3>>,                              \* FU start
                                        <<98, 1, 19, 9, 8, 7>>,                                     \* FU middle
                                        <<100, 1, 130, 56, 170, 187, 204, 38, 1, 9>>,               \* PACI with a 3-byte PHES (TSCI)
                                        <<100, 1, 2, 0, 38, 1, 9>>,                                 \* PACI without PHES
                                        <<100, 1, 3, 33, 1, 2, 38, 1, 9, 9>>,                       \* PACI with PHSsize 18? (short PHES) - may be refused
                                        <<38, 1, 0, 9, 4, 4, 4>> >>                                 \* single NAL unit
    [] k = "vp8" -> << <<144, 240, 129, 35, 69, 231, 1, 2, 3>>, <<144, 128, 35, 7>>, <<16, 1, 2>>, <<128, 32, 165, 9>>, <<128, 16, 57, 9>>, <<128, 64, 200, 9>> >>
    [] k = "vp9" -> << <<255, 129, 35, 53, 3, 4, 56, 2, 128, 1, 224, 1, 64, 0, 240, 2, 52, 1, 88, 2, 3, 9, 9, 9>>, <<128, 5, 9>>, <<160, 129, 1, 34, 7, 9>>,
                        <<208, 200, 5, 6, 9>>, <<2, 24, 1, 2, 3, 4, 1, 4, 9>>, <<0, 9>>, <<176, 130, 2, 33, 9>> >>
    [] k \in {"h264", "h264_avc"} -> << <<124, 133, 1, 2, 3>>, <<124, 5, 4, 5>>, <<124, 69, 6>>, <<120, 0, 2, 103, 1, 0, 2, 104, 2>>, <<101, 1, 2>> >>
    [] k \in {"av1", "av1_legacy"} -> << <<80, 2, 48, 1, 50, 2>>, <<144, 7, 8>>, <<16, 48, 1>>, <<0, 2, 48, 1>>, <<216, 1, 9, 50, 3>> >>
    [] OTHER -> << <<1, 2, 3>>, <<4>> >>
PairCases(ki) ==
  LET k == Kinds[ki]  f == Forms(k)  n == Len(f) IN
  [j \in 1..(n * n) |->
     [fam |-> "C09", kind |-> k, src |-> "bytes", items |-> <<f[((j - 1) \div n) + 1], f[((j - 1) % n) + 1], f[((j - 1) \div n) + 1]>>, probes |-> TRUE, scribble |-> TRUE,
      class |-> k \o "_wellformed_pairs"]]
PayloadersFor(k) ==
  CASE k \in {"h264", "h264_avc"} -> <<"h264", "h264_nostap">>
    [] k \in {"h265", "h265_toggle", "h265_single", "h265_fu", "h265_ap", "h265_paci"} -> <<"h265", "h265_skipagg">>
    [] k \in {"h265_donl", "h265_single_donl", "h265_fu_donl", "h265_ap_donl"} -> <<"h265_donl", "h265_donl_skipagg">>
    [] k = "vp8" -> <<"vp8", "vp8pid">>
    [] k = "vp9" -> <<"vp9", "vp9_flex">>
    [] k \in {"av1", "av1_legacy"} -> <<"av1">>
    [] OTHER -> <<"opus">>
ShapesFor(k) ==
  CASE k \in {"h264", "h264_avc"} -> <<"annexb3", "annexb_mixed", "h264_slice">>
    [] k \in {"h265", "h265_donl", "h265_toggle", "h265_single", "h265_single_donl", "h265_fu", "h265_fu_donl", "h265_ap", "h265_ap_donl", "h265_paci"} -> <<"h265nals", "annexb4">>
    [] k = "vp9" -> <<"vp9_key", "vp9_inter", "pat">>
    [] k \in {"av1", "av1_legacy"} -> <<"obu", "obu_ext", "obu_nosize_last">>
    [] OTHER -> <<"pat">>
Edits == << <<>> >> \o
  SetToSeq({ <<[at |-> a, op |-> o, pos |-> 1, val |-> 0]>> : a \in 0..3, o \in {"nil", "empty", "drop", "dup", "trunc"} }
           \cup { <<[at |-> a, op |-> "mut", pos |-> p, val |-> v]>> : a \in 0..2, p \in {0, 1}, v \in {0, 28, 124, 128, 255} }
           \cup { <<[at |-> 0, op |-> "drop", pos |-> 0, val |-> 0], [at |-> 0, op |-> "drop", pos |-> 0, val |-> 0]>>,
                  <<[at |-> 1, op |-> "drop", pos |-> 0, val |-> 0], [at |-> 3, op |-> "dup", pos |-> 0, val |-> 0]>> })
Mtus == <<5, 12, 20, 100>>
FLens == <<3, 30, 90>>
FeedCases(ki) ==
  LET k == Kinds[ki]  ps == PayloadersFor(k)  sh == ShapesFor(k)
      total == Len(ps) * Len(sh) * Len(Mtus) * Len(FLens) * Len(Edits)
      pick == SelectSeq([i \in 1..total |-> i], LAMBDA i : (i + ki) % Stride = 0)
  IN [j \in 1..Len(pick) |->
       LET i == pick[j] - 1
           e == Edits[(i % Len(Edits)) + 1]  i1 == i \div Len(Edits)
           p == ps[(i1 % Len(ps)) + 1]  i2 == i1 \div Len(ps)
           s == sh[(i2 % Len(sh)) + 1]  i3 == i2 \div Len(sh)
           m == Mtus[(i3 % Len(Mtus)) + 1]  n == FLens[((i3 \div Len(Mtus)) % Len(FLens)) + 1]
       IN [fam |-> "C09", kind |-> k, src |-> "feed", feed |-> [pkind |-> p, shape |-> s, len |-> n, salt |-> (i % 5) + 1, mtu |-> m],
           edits |-> e, probes |-> (i % 2 = 0), scribble |-> TRUE,
           class |-> k \o "_feed" \o (IF e = <<>> THEN "" ELSE "_" \o e[1].op)]]
SweepCases == IF Sweep THEN [j \in 1..(Len(Kinds) * 256) |->
     [fam |-> "C09", kind |-> Kinds[((j - 1) \div 256) + 1], src |-> "sweep", hi |-> (j - 1) % 256, class |-> Kinds[((j - 1) \div 256) + 1] \o "_sweep"]]
  ELSE <<>>
RECURSIVE Concat(_)
Concat(ss) == IF ss = <<>> THEN <<>> ELSE Head(ss) \o Concat(Tail(ss))
Raw == Concat([ki \in 1..Len(Kinds) |-> BytesCases(ki) \o FeedCases(ki) \o PairCases(ki)]) \o SweepCases
CaseSeq == [i \in 1..Len(Raw) |-> Raw[i] @@ [case |-> i]]
ASSUME WriteCases(CaseSeq) /\ PrintT(<<"CASES", Len(CaseSeq)>>)
=============================================================================
