------------------------------ MODULE AV1Trace ------------------------------
(* Judge for C13.                                                           *)
EXTENDS AV1, TraceIO
VARIABLES l, st
HugeReason(e) ==     \* one item of about 17 MB: the harness reports lengths and equality facts (the bytes do not travel)
  IF e.res # "ok" THEN "huge_item_panic"
  ELSE IF e.nfrags = 0 THEN "huge_item_no_packets"
  ELSE IF e.maxlen > e.mtu THEN "huge_item_fragment_exceeds_mtu"
  ELSE IF \E k \in 1..Len(e.facts) : ~e.facts[k] THEN "huge_item_not_reproduced"
  ELSE ""
PayloadReason(e) ==
  IF e.res # "ok" THEN "payload_panic"
  ELSE IF LET r == ReadStream(e.stream, 1, <<>>) IN ~r.ok \/ r.obus # e.obus THEN "oracle_stream"
  ELSE LET a == AggregationReason(e.obus, e.mtu, e.frags) IN
    IF a # "" THEN a
    ELSE IF e.dep_res # "ok" THEN "depacketizer_rejects_payloader_output"
    ELSE IF e.dep # ExpectedDepack(e.obus) THEN "depacketizer_obus"
    ELSE IF \E j \in 1..Len(e.heads) : e.heads[j] # ~AggZ(e.frags[j]) THEN "partition_head"
    ELSE IF e.legacy_res # "ok" THEN "legacy_path_rejects_payloader_output"
    ELSE IF e.legacy # ExpectedObuList(e.obus) THEN "legacy_path_obus"
    ELSE ""
LebReason(e) ==
  IF e.res # "ok" THEN "leb_read_failed"
  ELSE IF e.written # e.bytes THEN "leb_write"
  ELSE IF e.read # e.digits \/ e.readn # Len(e.bytes) THEN "leb_read"
  ELSE IF e.read_trailing # e.digits \/ e.readn_trailing # Len(e.bytes) THEN "leb_read_with_trailing_bytes"
  ELSE ""
HdrReason(e) ==
  LET b0 == e.v \div 256  b1 == e.v % 256  f == ObuHeaderFields(b0, b1) IN
  IF e.res = "panic" \/ e.short = "panic" THEN "obu_header_panic"
  ELSE IF ~f.ok THEN (IF e.res = "err" THEN "" ELSE "forbidden_bit_accepted")
  ELSE IF e.res # "ok" THEN "wellformed_obu_header_rejected"
  ELSE IF e.type # f.type \/ e.ext # f.ext \/ e.hassize # f.hassize \/ e.r1 # f.r1 \/ e.tid # f.tid \/ e.sid # f.sid \/ e.r3 # f.r3 THEN "obu_header_fields"
  ELSE IF e.size # f.size \/ e.marshal # (IF f.ext THEN <<b0, b1>> ELSE <<b0>>) THEN "obu_header_marshal"
  ELSE IF f.ext /\ e.short # "err" THEN "missing_extension_byte_accepted"
  ELSE ""
Reason(e) ==
  CASE e.ev = "payload" -> PayloadReason(e)
    [] e.ev = "huge" -> HugeReason(e)
    [] e.ev = "leb" -> LebReason(e)
    [] e.ev = "obuhdr" -> HdrReason(e)
    [] OTHER -> "unknown_event"
Init == l = 1 /\ st = FALSE
Next ==
  /\ l <= Len(Trace)
  /\ l' = l + 1
  /\ LET e == Trace[l] IN
       IF e.ev = "reset" THEN st' = FALSE
       ELSE IF st THEN UNCHANGED st
       ELSE LET r == Reason(e) IN
            IF r = "" THEN st' = FALSE ELSE Reject(e, r) /\ st' = TRUE
Spec == Init /\ [][Next]_<<l, st>>
Done == Consumed
=============================================================================
