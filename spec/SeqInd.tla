------------------------------- MODULE SeqInd -------------------------------
(* C07, symbolic leg (Apalache, unbounded integers, the REAL modulus 65536): *)
(* an inductive invariant for the sequencer seen as a counter machine. Any   *)
(* number of clients share it; since a draw is one critical section (checked *)
(* on the PlusCal model Sequencer.tla with every interleaving and bound to   *)
(* the code by the hook trace), its sequential behaviour is one action.      *)
(* IndInv says that after h draws from NewFixedSequencer(s) the state is a   *)
(* function of h alone:  sn = (s - 1 + h) mod 2^16  and  roc = the number of *)
(* times the counter passed zero = (s0 + h) div 2^16 with s0 = (s - 1) mod   *)
(* 2^16 - for EVERY h, i.e. beyond every wrap, which no bounded run reaches. *)
(* It yields what SeqTrace / SharedSeqTrace assume: the h-th number handed   *)
(* out is (s + h - 1) mod 2^16 (so 65536 consecutive draws are pairwise      *)
(* distinct) and RollOverCount counts exactly the zeros handed out.          *)
EXTENDS Integers
CONSTANT
  \* @type: Int;
  Start
VARIABLES
  \* @type: Int;
  sn,
  \* @type: Int;
  roc,
  \* @type: Int;
  h,
  \* @type: Int;
  lastOut
MOD == 65536
S0 == (Start + MOD - 1) % MOD
CInit == Start \in 0..(MOD - 1)
Init == sn = S0 /\ roc = 0 /\ h = 0 /\ lastOut = -1
Draw == /\ sn' = (sn + 1) % MOD
        /\ roc' = IF (sn + 1) % MOD = 0 THEN roc + 1 ELSE roc
        /\ h' = h + 1
        /\ lastOut' = (sn + 1) % MOD
Next == Draw
TypeOK == sn \in 0..(MOD - 1) /\ roc >= 0 /\ h >= 0 /\ lastOut \in -1..(MOD - 1)
IndInv ==
  /\ TypeOK
  /\ Start \in 0..(MOD - 1)
  /\ sn = (S0 + h) % MOD
  /\ roc = (S0 + h) \div MOD
  /\ (h > 0 => lastOut = (Start + h - 1) % MOD)
  /\ (h = 0 => lastOut = -1)
\* consequences used by the judges (checked from IndInv at length 0)
Consequences ==
  /\ (h > 0 => lastOut = sn)
  /\ roc * MOD + sn = S0 + h                       \* the 80-bit extended counter never loses a step
IndInit == sn \in 0..(MOD - 1) /\ roc \in Nat /\ h \in Nat /\ lastOut \in (-1)..(MOD - 1) /\ IndInv
=============================================================================
