------------------------------- MODULE AV1LossGen -------------------------------
(* G05 generator: every loss subset of the packets of a frame from the      *)
(* reference sender (one fragmented OBU between two small ones), followed   *)
(* by an intact frame; the packets themselves are the case.                 *)
EXTENDS AV1Loss, TraceIO, SequencesExt
CONSTANTS Sizes, Mtus
Obu(t, n, salt) == [type |-> t, ext |-> FALSE, tid |-> 0, sid |-> 0, r3 |-> 0, r1 |-> 0, hassize |-> TRUE, payload |-> Pat(n, salt)]
ObuE(t, n, salt) == [type |-> t, ext |-> TRUE, tid |-> 1, sid |-> 0, r3 |-> 0, r1 |-> 0, hassize |-> TRUE, payload |-> Pat(n, salt)]
SizeSeq == SetToSeq(Sizes)
MtuSeq == SetToSeq(Mtus)
Frame(n, ext) == IF ext THEN <<ObuE(6, 2, 1), ObuE(6, n, 2), ObuE(6, 1, 3)>> ELSE <<Obu(1, 2, 1), Obu(6, n, 2), Obu(6, 1, 3)>>
RECURSIVE Pow2(_)
Pow2(k) == IF k = 0 THEN 1 ELSE 2 * Pow2(k - 1)
CasesFor(mi, si, ext) ==
  LET m == MtuSeq[mi]  pa == PacketsM(Frame(SizeSeq[si], ext), m)  pb == PacketsM(Frame(SizeSeq[((si) % Len(SizeSeq)) + 1], ~ext), m) IN
  [mask \in 1..Pow2(Len(pa)) |->
     LET kept == SelectSeq([i \in 1..Len(pa) |-> [p |-> pa[i], keep |-> ((mask - 1) \div Pow2(i - 1)) % 2 = 1]], LAMBDA x : x.keep) IN
     [fam |-> "G05", packets |-> [i \in 1..Len(kept) |-> kept[i].p] \o pb, nb |-> Len(pb), class |-> "loss_mtu" \o ToString(m)]]
Raw == Flatten([mi \in 1..Len(MtuSeq) |-> Flatten([si \in 1..Len(SizeSeq) |-> CasesFor(mi, si, FALSE) \o CasesFor(mi, si, TRUE)])])
CaseSeq == [i \in 1..Len(Raw) |-> Raw[i] @@ [case |-> i]]
ASSUME WriteCases(CaseSeq) /\ PrintT(<<"CASES", Len(CaseSeq)>>)
=============================================================================
