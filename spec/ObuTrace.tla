-------------------------------- MODULE ObuTrace --------------------------------
(* Judge for G09 (growth): obu.OBU.Marshal writes the low-overhead bitstream *)
(* format of the AV1 specification section 5.2 - each OBU marshalled alone    *)
(* and the concatenation of all of them are read back BY THE SPECIFICATION    *)
(* (AV1!ReadStream, open_bitstream_unit syntax) and must give the OBU values  *)
(* the case was built from; the bytes must also be the specification's own    *)
(* encoding (minimal LEB128 size field), and the library's ParseOBUHeader on  *)
(* the marshalled bytes must report the header fields.                        *)
EXTENDS AV1, TraceIO
VARIABLES l, st
Reason(e) ==
  IF e.res # "ok" THEN "panic"
  ELSE IF e.empty_res # "err" \/ e.cut_res # "err" THEN "header_parser_accepts_a_header_that_is_not_there"
  ELSE IF Len(e.each) # Len(e.obus) THEN "harness_shape"
  ELSE IF \E i \in 1..Len(e.obus) : e.each[i] # StreamForm(e.obus[i]) THEN "obu_bytes_are_not_the_specified_encoding"
  ELSE IF \E i \in 1..Len(e.obus) : LET r == ReadStream(e.each[i], 1, <<>>) IN ~r.ok \/ r.obus # <<e.obus[i]>> THEN "marshalled_obu_does_not_read_back"
  ELSE IF LET r == ReadStream(e.stream, 1, <<>>) IN ~r.ok \/ r.obus # e.obus THEN "marshalled_stream_does_not_read_back"
  ELSE IF \E i \in 1..Len(e.obus) : LET o == e.obus[i]  h == e.parsed[i] IN
            h.res # "ok" \/ h.type # o.type \/ h.ext # o.ext \/ h.hassize # o.hassize \/ h.r1 # o.r1 \/ h.tid # o.tid \/ h.sid # o.sid \/ h.r3 # o.r3 \/ h.size # (IF o.ext THEN 2 ELSE 1)
       THEN "own_header_parser_disagrees"
  ELSE ""
Init == l = 1 /\ st = TRUE
Next ==
  /\ l <= Len(Trace)
  /\ l' = l + 1
  /\ LET e == Trace[l] IN
       IF e.ev = "reset" THEN st' = FALSE
       ELSE IF st THEN UNCHANGED st
       ELSE LET r == Reason(e) IN IF r = "" THEN UNCHANGED st ELSE Reject(e, r) /\ st' = TRUE
Spec == Init /\ [][Next]_<<l, st>>
Done == Consumed
=============================================================================
