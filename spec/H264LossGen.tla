------------------------------- MODULE H264LossGen -------------------------------
(* G06 generator: every loss subset of the packets of a frame from the      *)
(* independent RFC 6184 encoder (a single unit, a unit in FU-A fragments,   *)
(* a STAP-A), followed by an intact frame; the packets themselves are the   *)
(* case.                                                                    *)
EXTENDS H264, TraceIO, SequencesExt
CONSTANTS Sizes, NFrag
U(t, n, salt) == <<3 * 32 + t>> \o Pat(n - 1, salt)
SizeSeq == SetToSeq(Sizes)
Cuts(u, k) == LET n == Len(u) - 1 IN [j \in 1..(k + 1) |-> ((j - 1) * n) \div k]
Frame(n, k, salt) == << U(1, 3, salt) >> \o FuA(U(5, n, salt + 1), Cuts(U(5, n, salt + 1), k)) \o << StapA(<<U(7, 4, salt + 2), U(8, 3, salt + 3)>>, 3) >>
RECURSIVE Pow2(_)
Pow2(k) == IF k = 0 THEN 1 ELSE 2 * Pow2(k - 1)
CasesFor(si, k) ==
  LET pa == Frame(SizeSeq[si], k, 1)  pb == Frame(SizeSeq[(si % Len(SizeSeq)) + 1], ((k + 1) % 3) + 2, 5) IN
  [mask \in 1..Pow2(Len(pa)) |->
     LET kept == SelectSeq([i \in 1..Len(pa) |-> [p |-> pa[i], keep |-> ((mask - 1) \div Pow2(i - 1)) % 2 = 1]], LAMBDA x : x.keep) IN
     [fam |-> "G06", packets |-> [i \in 1..Len(kept) |-> kept[i].p] \o pb, class |-> "loss_fu" \o ToString(k)]]
Raw == Flatten([si \in 1..Len(SizeSeq) |-> Flatten([kk \in 1..(NFrag - 1) |-> CasesFor(si, kk + 1)])])
CaseSeq == [i \in 1..Len(Raw) |-> Raw[i] @@ [case |-> i]]
ASSUME WriteCases(CaseSeq) /\ PrintT(<<"CASES", Len(CaseSeq)>>)
=============================================================================
