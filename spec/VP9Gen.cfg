CONSTANTS Mtus = {12, 13, 14, 16, 1200} TruncStride = 17
