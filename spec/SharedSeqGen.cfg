CONSTANTS Gs = {2, 4, 8} CallsPer = 40 Mtu = 100 Salts = 3
