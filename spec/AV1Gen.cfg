CONSTANTS Mtus = {2, 3, 4, 5, 8, 16, 130, 200} Stride = 83 HdrStride = 53
