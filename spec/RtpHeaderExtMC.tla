--------------------------- MODULE RtpHeaderExtMC ---------------------------
(* Exhaustive model of C05 under the reference policy: every history of     *)
(* Set/Del up to Depth from the four start states.                          *)
EXTENDS RtpHeaderExt
CONSTANTS Ids, Lens, Depth
VARIABLES s, d, last

Starts == { [x |-> FALSE, profile |-> 0, exts |-> <<>>],
            [x |-> TRUE, profile |-> OneByte, exts |-> <<>>],
            [x |-> TRUE, profile |-> TwoByte, exts |-> <<>>],
            [x |-> TRUE, profile |-> 4660, exts |-> <<[id |-> 0, val |-> Pat(4, 9)]>>] }
Init == s \in Starts /\ d = 0 /\ last = [op |-> "none", res |-> "ok", prev |-> s, id |-> 0, val |-> <<>>]
DoSet(id, n) == LET v == Pat(n, id + d)  r == RefSet(s, id, v) IN
   s' = r.t /\ last' = [op |-> "set", res |-> r.res, prev |-> s, id |-> id, val |-> v]
DoDel(id) == LET r == RefDel(s, id) IN
   s' = r.t /\ last' = [op |-> "del", res |-> r.res, prev |-> s, id |-> id, val |-> <<>>]
Next == d < Depth /\ d' = d + 1 /\ (\E id \in Ids : (\E n \in Lens : DoSet(id, n)) \/ DoDel(id))
Spec == Init /\ [][Next]_<<s, d, last>>

\* the reference policy is a behaviour of the relational contract
PolicyRefinesContract ==
  CASE last.op = "set" -> SetEffect(last.prev, last.id, last.val, last.res, s)
    [] last.op = "del" -> DelEffect(last.prev, last.id, last.res, s)
    [] OTHER -> TRUE
MapSemantics == UniqueIds(s.exts) /\ (~s.x => s.exts = <<>>)
AcceptedImpliesRepresentable == s.x => (WellFormedHeader(AsHeader(s)) /\ Survives(s))
NeverRefusedOnWire == ~LegacyNotWords(s)
=============================================================================
