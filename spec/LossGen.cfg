CONSTANTS MaxA = 6 Rich = FALSE
