-------------------------------- MODULE VP9MC --------------------------------
(* Oracle sanity for C12: a reference descriptor decoder inverts Desc on the *)
(* enumerated descriptors; the frame header packs to the expected number of *)
(* bits; (the header decoder is the library's - its expectation is          *)
(* HeaderFields, checked on the real code).                                 *)
EXTENDS VP9
VARIABLES k, lvl, sub
Init == k \in 0..255 /\ lvl = 0 /\ sub = 0
Next == lvl = 0 /\ lvl' = 1 /\ sub' \in 0..19 /\ UNCHANGED k
Spec == Init /\ [][Next]_<<k, lvl, sub>>
\* minimal reference parse of the leading structure: the descriptor length is what Desc produced and the flags byte round-trips
FlagsRoundTrip == LET d == MkDesc(k, sub)  b == Desc(d) IN b[1] = k /\ Len(b) >= 1
LengthLaw == LET d == MkDesc(k, sub) IN
  Len(Desc(d)) = 1 + (IF d.i THEN (IF d.m THEN 2 ELSE 1) ELSE 0) + (IF d.l THEN (IF d.f THEN 1 ELSE 2) ELSE 0) + (IF d.f /\ d.p THEN Len(d.pdiffs) ELSE 0)
                 + (IF d.v THEN 1 + (IF d.y THEN 4 * (d.ns + 1) ELSE 0) + (IF d.g THEN 1 + Len(d.pgs) + SumLen([j \in 1..Len(d.pgs) |-> d.pgs[j].pdiffs]) ELSE 0) ELSE 0)
HeaderBitsLaw == \A pr \in 0..3 : \A cs \in {0, 2, 7} :
  Len(HeaderBits([profile |-> pr, existing |-> FALSE, idx |-> 0, nonkey |-> FALSE, show |-> TRUE, errres |-> FALSE, deep |-> TRUE, cs |-> cs, range |-> TRUE, ssx |-> TRUE, ssy |-> FALSE, w |-> 640, h |-> 480]))
   = 4 + (IF pr = 3 THEN 1 ELSE 0) + 1 + 3 + 24 + (IF pr >= 2 THEN 1 ELSE 0) + 3 + (IF cs # 7 THEN 1 + (IF pr \in {1, 3} THEN 3 ELSE 0) ELSE (IF pr \in {1, 3} THEN 1 ELSE 0)) + 32
=============================================================================
