------------------------------ MODULE AV1LossMC ------------------------------
(* C15 for AV1 on the specification side: a reference receiver for the AV1  *)
(* RTP payload format under packet loss. State: the pending fragment of an  *)
(* OBU whose last element was marked Y. Rules (av1-rtp-spec 4.4): a packet  *)
(* with Z = 0 starts afresh (a pending fragment is abandoned); with Z = 1    *)
(* its first element continues the pending fragment, or is dropped when     *)
(* nothing is pending (its beginning was lost); a last element with Y = 1    *)
(* becomes the new pending fragment.                                        *)
(* Property: whatever subset of an earlier frame's packets was delivered,   *)
(* the next completely delivered frame comes out exactly as from a fresh    *)
(* receiver. Resync = FALSE is the specification mutant (the pending        *)
(* fragment survives a Z = 0 packet) that must violate it.                  *)
EXTENDS AV1
CONSTANTS Sizes, Mtu, Resync
VARIABLES fa, fb, mask, lvl
Obu(t, n, salt) == [type |-> t, ext |-> FALSE, tid |-> 0, sid |-> 0, r3 |-> 0, r1 |-> 0, hassize |-> TRUE, payload |-> Pat(n, salt)]
\* reference sender: every OBU alone, W = 1, fragments of Mtu - 1 bytes
OneOBU(b) == LET room == Mtu - 1  k == (Len(b) + room - 1) \div room IN
  [j \in 1..k |-> <<(IF j > 1 THEN 128 ELSE 0) + (IF j < k THEN 64 ELSE 0) + 16>> \o Slice(b, (j - 1) * room + 1, Min(j * room, Len(b)))]
Packets(obus) == Flatten([i \in 1..Len(obus) |-> OneOBU(TxForm(obus[i]))])

RxInit == [buf |-> <<>>, open |-> FALSE]
\* one packet: [out (completed OBUs in transmitted form), s]
RefRx(s, p) ==
  LET pe == PacketElems(p) IN
  IF ~pe.ok \/ pe.elems = <<>> THEN [out |-> <<>>, s |-> s]
  ELSE
    LET z == AggZ(p)  y == AggY(p)  n == Len(pe.elems)
        pending == IF ~z /\ Resync THEN [buf |-> <<>>, open |-> FALSE] ELSE s
        \* the first element
        first == IF z THEN (IF pending.open THEN <<pending.buf \o pe.elems[1]>> ELSE <<>>)          \* continuation, or its beginning was lost
                 ELSE (IF pending.open THEN <<pending.buf \o pe.elems[1]>> ELSE <<pe.elems[1]>>)   \* (only the mutant has something pending here)
        whole == first \o SubSeq(pe.elems, 2, n)
        firstDropped == z /\ ~pending.open
    IN IF y THEN
         (IF n = 1 /\ firstDropped THEN [out |-> <<>>, s |-> [buf |-> <<>>, open |-> FALSE]]      \* a middle fragment of a lost OBU
          ELSE [out |-> SubSeq(whole, 1, Len(whole) - 1), s |-> [buf |-> whole[Len(whole)], open |-> TRUE]])
       ELSE [out |-> whole, s |-> [buf |-> <<>>, open |-> FALSE]]
RECURSIVE Run(_, _, _, _)
Run(s, ps, i, acc) == IF i > Len(ps) THEN [out |-> acc, s |-> s] ELSE LET r == RefRx(s, ps[i]) IN Run(r.s, ps, i + 1, acc \o r.out)

Frames == { <<Obu(1, 2, 1), Obu(6, n, 2)>> : n \in Sizes }
Init == fa \in Frames /\ fb \in Frames /\ mask = 0 /\ lvl = 0
Next == lvl = 0 /\ lvl' = 1 /\ mask' \in 0..(2 ^ Len(Packets(fa)) - 1) /\ UNCHANGED <<fa, fb>>
Spec == Init /\ [][Next]_<<fa, fb, mask, lvl>>
Delivered == LET ps == Packets(fa) IN SelectSeq([i \in 1..Len(ps) |-> [p |-> ps[i], keep |-> (mask \div (2 ^ (i - 1))) % 2 = 1]], LAMBDA x : x.keep)
AfterLoss ==
  LET hist == [i \in 1..Len(Delivered) |-> Delivered[i].p]
      s1 == Run(RxInit, hist, 1, <<>>).s
      used == Run(s1, Packets(fb), 1, <<>>).out
      fresh == Run(RxInit, Packets(fb), 1, <<>>).out
  IN used = fresh /\ fresh = [i \in 1..Len(fb) |-> TxForm(fb[i])]
=============================================================================
