CONSTANTS Sizes = {3, 9, 14, 24} Mtus = {6, 11}
