------------------------------- MODULE H265MC -------------------------------
(* Oracle sanity for C14: for every bounded unit list and every plan of the *)
(* independent encoder (singles, aggregation, FUs with arbitrary cuts), with *)
(* and without DONL, parsing + reassembling returns the units.              *)
EXTENDS H265
CONSTANTS Sizes
VARIABLES us, plan, donl, lvl
Types == {0, 1, 19, 32, 39, 47}
Unit(t, layer, tid, n, salt) == HdrBytes(Hdr16(0, t, layer, tid)) \o Pat(n - 2, salt)
UnitLists == { <<Unit(t, 0, 1, n, 1)>> : t \in Types, n \in Sizes }
             \cup { <<Unit(32, 1, 2, n1, 1), Unit(t, 63, 1, n2, 2), Unit(1, 0, 7, 3, 3)>> : t \in {19, 34}, n1 \in Sizes, n2 \in Sizes }
Init == us \in UnitLists /\ plan = "singles" /\ donl = FALSE /\ lvl = 0
Next == lvl = 0 /\ lvl' = 1 /\ plan' \in {"singles", "ap", "fu2", "fu3", "mixed"} /\ donl' \in BOOLEAN /\ UNCHANGED us
Spec == Init /\ [][Next]_<<us, plan, donl, lvl>>
Cuts(u, k) == LET n == Len(u) - 2 IN [j \in 1..(k + 1) |-> ((j - 1) * n) \div k]
\* fragments are never empty: a unit too small for k fragments goes out as a single NAL unit packet
FUorSingle(u, k, don) == IF Len(u) - 2 >= k THEN FU(u, Cuts(u, k), donl, don) ELSE <<Single(u, donl, don)>>
Encode ==
  IF plan = "singles" \/ (plan = "ap" /\ Len(us) < 2) THEN [i \in 1..Len(us) |-> Single(us[i], donl, 100 + i)]
  ELSE IF plan = "ap" THEN <<AP(us, donl, 500, [i \in 1..(Len(us) - 1) |-> 0])>>
  ELSE IF plan = "fu2" THEN Flatten([i \in 1..Len(us) |-> FUorSingle(us[i], 2, 7 + i)])
  ELSE IF plan = "fu3" THEN Flatten([i \in 1..Len(us) |-> FUorSingle(us[i], 3, 65535)])
  ELSE <<Single(us[1], donl, 1)>> \o (IF Len(us) > 1 THEN FUorSingle(us[2], 2, 2) \o <<Single(us[3], donl, 3)>> ELSE <<>>)
ParseInvertsEncode ==
  LET ps == Encode  rs == [i \in 1..Len(ps) |-> RefParse(ps[i], donl)] IN
  /\ \A i \in 1..Len(ps) : rs[i].ok
  /\ LET r == Reassemble([i \in 1..Len(ps) |-> rs[i].m], 1, <<>>, <<>>, 0) IN r.shape = "" /\ r.units = us
TruncatedRefused ==
  \A i \in 1..Len(Encode) : \A cut \in 0..2 : ~RefParse(Take(Encode[i], cut), donl).ok
=============================================================================
