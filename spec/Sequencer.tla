------------------------------ MODULE Sequencer ------------------------------
(* C07: the sequencer as a concurrent object. N client processes call       *)
(* NextSequenceNumber Ops times each, a reader process calls RollOverCount. *)
(* One label per step of the critical section; UseLock = FALSE removes the  *)
(* mutex (a specification mutant: TLC must then find the invariants         *)
(* violated, which shows they are not vacuous).                             *)
EXTENDS Naturals, Sequences, TLC
CONSTANTS N, Ops, MOD, Start, UseLock, Reads

(* --algorithm Sequencer
variables
  sn = (Start + MOD - 1) % MOD,   \* NewFixedSequencer(s): s - 1, the first call pre-increments
  roc = 0,
  locked = FALSE,
  issued = <<>>,                  \* values in issue order (history variable)
  issuedRoc = <<>>,               \* roll-over count at each issue
  seen = <<>>;                    \* [lo, got, hi] per RollOverCount call

process client \in 1..N
variables k = 0, tmp = 0;
begin
loop:
  while k < Ops do
acq:
    await ~UseLock \/ ~locked;
    locked := UseLock;
rd:
    tmp := sn;                    \* the increment is a read-modify-write
inc:
    sn := (tmp + 1) % MOD;
wrap:
    if sn = 0 then roc := roc + 1; end if;
ret:
    issued := Append(issued, sn);
    issuedRoc := Append(issuedRoc, roc);
rel:
    locked := FALSE;
    k := k + 1;
  end while;
end process;

process reader = 0
variables j = 0, lo = 0, got = 0;
begin
rloop:
  while j < Reads do
racq:
    await ~UseLock \/ ~locked;
    locked := UseLock;
    lo := roc;
rread:
    got := roc;
rrel:
    locked := FALSE;
    seen := Append(seen, <<lo, got, roc>>);
    j := j + 1;
  end while;
end process;
end algorithm; *)
\* BEGIN TRANSLATION
VARIABLES pc, sn, roc, locked, issued, issuedRoc, seen, k, tmp, j, lo, got

vars == << pc, sn, roc, locked, issued, issuedRoc, seen, k, tmp, j, lo, got
        >>

ProcSet == (1..N) \cup {0}

Init == (* Global variables *)
        /\ sn = (Start + MOD - 1) % MOD
        /\ roc = 0
        /\ locked = FALSE
        /\ issued = <<>>
        /\ issuedRoc = <<>>
        /\ seen = <<>>
        (* Process client *)
        /\ k = [self \in 1..N |-> 0]
        /\ tmp = [self \in 1..N |-> 0]
        (* Process reader *)
        /\ j = 0
        /\ lo = 0
        /\ got = 0
        /\ pc = [self \in ProcSet |-> CASE self \in 1..N -> "loop"
                                        [] self = 0 -> "rloop"]

loop(self) == /\ pc[self] = "loop"
              /\ IF k[self] < Ops
                    THEN /\ pc' = [pc EXCEPT ![self] = "acq"]
                    ELSE /\ pc' = [pc EXCEPT ![self] = "Done"]
              /\ UNCHANGED << sn, roc, locked, issued, issuedRoc, seen, k, tmp, 
                              j, lo, got >>

acq(self) == /\ pc[self] = "acq"
             /\ ~UseLock \/ ~locked
             /\ locked' = UseLock
             /\ pc' = [pc EXCEPT ![self] = "rd"]
             /\ UNCHANGED << sn, roc, issued, issuedRoc, seen, k, tmp, j, lo, 
                             got >>

rd(self) == /\ pc[self] = "rd"
            /\ tmp' = [tmp EXCEPT ![self] = sn]
            /\ pc' = [pc EXCEPT ![self] = "inc"]
            /\ UNCHANGED << sn, roc, locked, issued, issuedRoc, seen, k, j, lo, 
                            got >>

inc(self) == /\ pc[self] = "inc"
             /\ sn' = (tmp[self] + 1) % MOD
             /\ pc' = [pc EXCEPT ![self] = "wrap"]
             /\ UNCHANGED << roc, locked, issued, issuedRoc, seen, k, tmp, j, 
                             lo, got >>

wrap(self) == /\ pc[self] = "wrap"
              /\ IF sn = 0
                    THEN /\ roc' = roc + 1
                    ELSE /\ TRUE
                         /\ roc' = roc
              /\ pc' = [pc EXCEPT ![self] = "ret"]
              /\ UNCHANGED << sn, locked, issued, issuedRoc, seen, k, tmp, j, 
                              lo, got >>

ret(self) == /\ pc[self] = "ret"
             /\ issued' = Append(issued, sn)
             /\ issuedRoc' = Append(issuedRoc, roc)
             /\ pc' = [pc EXCEPT ![self] = "rel"]
             /\ UNCHANGED << sn, roc, locked, seen, k, tmp, j, lo, got >>

rel(self) == /\ pc[self] = "rel"
             /\ locked' = FALSE
             /\ k' = [k EXCEPT ![self] = k[self] + 1]
             /\ pc' = [pc EXCEPT ![self] = "loop"]
             /\ UNCHANGED << sn, roc, issued, issuedRoc, seen, tmp, j, lo, got >>

client(self) == loop(self) \/ acq(self) \/ rd(self) \/ inc(self)
                   \/ wrap(self) \/ ret(self) \/ rel(self)

rloop == /\ pc[0] = "rloop"
         /\ IF j < Reads
               THEN /\ pc' = [pc EXCEPT ![0] = "racq"]
               ELSE /\ pc' = [pc EXCEPT ![0] = "Done"]
         /\ UNCHANGED << sn, roc, locked, issued, issuedRoc, seen, k, tmp, j, 
                         lo, got >>

racq == /\ pc[0] = "racq"
        /\ ~UseLock \/ ~locked
        /\ locked' = UseLock
        /\ lo' = roc
        /\ pc' = [pc EXCEPT ![0] = "rread"]
        /\ UNCHANGED << sn, roc, issued, issuedRoc, seen, k, tmp, j, got >>

rread == /\ pc[0] = "rread"
         /\ got' = roc
         /\ pc' = [pc EXCEPT ![0] = "rrel"]
         /\ UNCHANGED << sn, roc, locked, issued, issuedRoc, seen, k, tmp, j, 
                         lo >>

rrel == /\ pc[0] = "rrel"
        /\ locked' = FALSE
        /\ seen' = Append(seen, <<lo, got, roc>>)
        /\ j' = j + 1
        /\ pc' = [pc EXCEPT ![0] = "rloop"]
        /\ UNCHANGED << sn, roc, issued, issuedRoc, k, tmp, lo, got >>

reader == rloop \/ racq \/ rread \/ rrel

(* Allow infinite stuttering to prevent deadlock on termination. *)
Terminating == /\ \A self \in ProcSet: pc[self] = "Done"
               /\ UNCHANGED vars

Next == reader
           \/ (\E self \in 1..N: client(self))
           \/ Terminating

Spec == Init /\ [][Next]_vars

Termination == <>(\A self \in ProcSet: pc[self] = "Done")

\* END TRANSLATION

Zeros(s) == Len(SelectSeq(s, LAMBDA v : v = 0))
Consecutive == \A i \in 1..Len(issued) : issued[i] = (Start + i - 1) % MOD
NoDuplicateWithinWindow == \A i, j2 \in 1..Len(issued) : (i < j2 /\ j2 - i < MOD) => issued[i] # issued[j2]
RocExact == \A i \in 1..Len(issued) : issuedRoc[i] = Zeros(SubSeq(issued, 1, i))
Monotone == \A i \in 1..(Len(issued) - 1) : issuedRoc[i] * MOD + issued[i] < issuedRoc[i + 1] * MOD + issued[i + 1]
ReadsLinearizable == \A i \in 1..Len(seen) : seen[i][1] <= seen[i][2] /\ seen[i][2] <= seen[i][3]
RocNeverDecreases == [][roc' >= roc]_roc
AllDone == (\A p \in 1..N : pc[p] = "Done") => Len(issued) = N * Ops
=============================================================================
