--------------------------------- MODULE VP9 ---------------------------------
(* C12: VP9 RTP payload descriptor (draft-ietf-payload-vp9) and the bit-level *)
(* uncompressed frame header, both written from the specifications.         *)
(* Descriptor value d: flags i p l f b e v z (BOOLEAN), m (15-bit picture   *)
(* id form), picid, tid u sid dd, tl0, pdiffs (1-3 seven-bit reference      *)
(* indices), SS: ns y g r3 sizes (ns+1 pairs) pgs (picture group entries    *)
(* [tid, u, r2, pdiffs]).                                                   *)
EXTENDS Bytes, TLC
B2N(b) == IF b THEN 1 ELSE 0

PidBytes(d) == IF ~d.i THEN <<>> ELSE IF d.m THEN <<128 + d.picid \div 256, d.picid % 256>> ELSE <<d.picid>>
LayerBytes(d) == IF ~d.l THEN <<>> ELSE <<d.tid * 32 + B2N(d.u) * 16 + d.sid * 2 + B2N(d.dd)>> \o (IF d.f THEN <<>> ELSE <<d.tl0>>)
RefBytes(d) == IF ~(d.f /\ d.p) THEN <<>> ELSE [k \in 1..Len(d.pdiffs) |-> d.pdiffs[k] * 2 + (IF k < Len(d.pdiffs) THEN 1 ELSE 0)]
SSBytes(d) ==
  IF ~d.v THEN <<>>
  ELSE <<d.ns * 32 + B2N(d.y) * 16 + B2N(d.g) * 8 + d.r3>>
       \o (IF d.y THEN Flatten([k \in 1..(d.ns + 1) |-> BE16(d.sizes[k][1]) \o BE16(d.sizes[k][2])]) ELSE <<>>)
       \o (IF d.g THEN <<Len(d.pgs)>> \o Flatten([k \in 1..Len(d.pgs) |->
              <<d.pgs[k].tid * 32 + B2N(d.pgs[k].u) * 16 + Len(d.pgs[k].pdiffs) * 4 + d.pgs[k].r2>> \o d.pgs[k].pdiffs]) ELSE <<>>)
Desc(d) ==
  <<B2N(d.i) * 128 + B2N(d.p) * 64 + B2N(d.l) * 32 + B2N(d.f) * 16 + B2N(d.b) * 8 + B2N(d.e) * 4 + B2N(d.v) * 2 + B2N(d.z)>>
  \o PidBytes(d) \o LayerBytes(d) \o RefBytes(d) \o SSBytes(d)
\* what VP9Packet must report (field names of the Go struct)
Fields(d, payload) ==
  [I |-> d.i, P |-> d.p, L |-> d.l, F |-> d.f, B |-> d.b, E |-> d.e, V |-> d.v, Z |-> d.z,
   PictureID |-> IF d.i THEN d.picid ELSE 0,
   TID |-> IF d.l THEN d.tid ELSE 0, U |-> d.l /\ d.u, SID |-> IF d.l THEN d.sid ELSE 0, D |-> d.l /\ d.dd,
   PDiff |-> IF d.f /\ d.p THEN d.pdiffs ELSE <<>>, TL0PICIDX |-> IF d.l /\ ~d.f THEN d.tl0 ELSE 0,
   NS |-> IF d.v THEN d.ns ELSE 0, Y |-> d.v /\ d.y, G |-> d.v /\ d.g, NG |-> IF d.v /\ d.g THEN Len(d.pgs) ELSE 0,
   Width |-> IF d.v /\ d.y THEN [k \in 1..(d.ns + 1) |-> d.sizes[k][1]] ELSE <<>>,
   Height |-> IF d.v /\ d.y THEN [k \in 1..(d.ns + 1) |-> d.sizes[k][2]] ELSE <<>>,
   PGTID |-> IF d.v /\ d.g THEN [k \in 1..Len(d.pgs) |-> d.pgs[k].tid] ELSE <<>>,
   PGU |-> IF d.v /\ d.g THEN [k \in 1..Len(d.pgs) |-> d.pgs[k].u] ELSE <<>>,
   PGPDiff |-> IF d.v /\ d.g THEN [k \in 1..Len(d.pgs) |-> d.pgs[k].pdiffs] ELSE <<>>,
   Payload |-> payload]

-----------------------------------------------------------------------------
(* Uncompressed header, bit level (VP9 bitstream spec section 6.2).         *)
(* h: [profile, existing, idx, nonkey, show, errres, deep (10 vs 12 bit),   *)
(*     cs, range, ssx, ssy, w, h]                                           *)
Bits(n, v) == [k \in 1..n |-> (v \div (2 ^ (n - k))) % 2]     \* v in n bits, MSB first
HeaderBits(h) ==
  <<1, 0, h.profile % 2, h.profile \div 2>> \o (IF h.profile = 3 THEN <<0>> ELSE <<>>)
  \o <<B2N(h.existing)>>
  \o (IF h.existing THEN Bits(3, h.idx)
      ELSE <<B2N(h.nonkey), B2N(h.show), B2N(h.errres)>>
           \o (IF h.nonkey THEN <<>>
               ELSE Bits(8, 73) \o Bits(8, 131) \o Bits(8, 66)
                    \o (IF h.profile >= 2 THEN <<B2N(h.deep)>> ELSE <<>>)
                    \o Bits(3, h.cs)
                    \o (IF h.cs # 7 THEN <<B2N(h.range)>> \o (IF h.profile \in {1, 3} THEN <<B2N(h.ssx), B2N(h.ssy), 0>> ELSE <<>>)
                        ELSE (IF h.profile \in {1, 3} THEN <<0>> ELSE <<>>))
                    \o Bits(16, h.w - 1) \o Bits(16, h.h - 1)))
PackBits(bs) == [k \in 1..((Len(bs) + 7) \div 8) |->
   LET bit(j) == IF (k - 1) * 8 + j <= Len(bs) THEN bs[(k - 1) * 8 + j] ELSE 0 IN
   bit(1) * 128 + bit(2) * 64 + bit(3) * 32 + bit(4) * 16 + bit(5) * 8 + bit(6) * 4 + bit(7) * 2 + bit(8)]
FrameHeader(h) == PackBits(HeaderBits(h))
\* what vp9.Header.Unmarshal must report
HeaderFields(h) ==
  [Profile |-> h.profile, ShowExistingFrame |-> h.existing, FrameToShowMapIdx |-> IF h.existing THEN h.idx ELSE 0,
   NonKeyFrame |-> ~h.existing /\ h.nonkey, ShowFrame |-> ~h.existing /\ h.show, ErrorResilientMode |-> ~h.existing /\ h.errres,
   HasColor |-> ~h.existing /\ ~h.nonkey,
   BitDepth |-> IF h.existing \/ h.nonkey THEN 0 ELSE IF h.profile >= 2 THEN (IF h.deep THEN 12 ELSE 10) ELSE 8,
   ColorSpace |-> IF h.existing \/ h.nonkey THEN 0 ELSE h.cs,
   ColorRange |-> ~h.existing /\ ~h.nonkey /\ (IF h.cs = 7 THEN TRUE ELSE h.range),
   SubsamplingX |-> ~h.existing /\ ~h.nonkey /\ (IF h.cs = 7 THEN FALSE ELSE IF h.profile \in {1, 3} THEN h.ssx ELSE TRUE),
   SubsamplingY |-> ~h.existing /\ ~h.nonkey /\ (IF h.cs = 7 THEN FALSE ELSE IF h.profile \in {1, 3} THEN h.ssy ELSE TRUE),
   Width |-> IF h.existing \/ h.nonkey THEN 0 ELSE h.w % 65536, Height |-> IF h.existing \/ h.nonkey THEN 0 ELSE h.h % 65536]

-----------------------------------------------------------------------------
(* Payloader contract for one frame, judged on the decoded descriptors      *)
(* (dec[j] = fields of packet j as reported by VP9Packet).                  *)
ValidVP9Packetization(frame, flexible, key, w, hgt, id, dec, raw) ==
  LET n == Len(dec) IN
  /\ n >= 1
  /\ \A j \in 1..n : dec[j].B = (j = 1) /\ dec[j].E = (j = n)
  /\ \A j \in 1..n : dec[j].I /\ dec[j].PictureID = id /\ raw[j][2] >= 128      \* 15-bit form
  /\ \A j \in 1..n : dec[j].F = flexible
  /\ Flatten([j \in 1..n |-> dec[j].Payload]) = frame
  /\ (~flexible => \A j \in 1..n : dec[j].P = ~key)
  /\ (~flexible /\ key => dec[1].V /\ dec[1].Y /\ Len(dec[1].Width) >= 1 /\ dec[1].Width[1] = w % 65536 /\ dec[1].Height[1] = hgt % 65536)
NextId(id) == (id + 1) % 32768
-----------------------------------------------------------------------------
(* Enumerated descriptor domain shared by the model check and the generator *)
SSVariants == << [ns |-> 0, y |-> FALSE, g |-> FALSE, sizes |-> << <<0, 0>> >>, pgs |-> <<>>],
                 [ns |-> 0, y |-> TRUE, g |-> FALSE, sizes |-> << <<640, 480>> >>, pgs |-> <<>>],
                 [ns |-> 1, y |-> TRUE, g |-> TRUE, sizes |-> << <<65535, 1>>, <<1, 65535>> >>,
                  pgs |-> << [tid |-> 0, u |-> TRUE, r2 |-> 0, pdiffs |-> <<1>>], [tid |-> 7, u |-> FALSE, r2 |-> 3, pdiffs |-> <<255, 0, 7>>], [tid |-> 2, u |-> TRUE, r2 |-> 0, pdiffs |-> <<>>] >>],
                 [ns |-> 7, y |-> FALSE, g |-> TRUE, sizes |-> <<>>, pgs |-> <<>>],
                 [ns |-> 2, y |-> FALSE, g |-> TRUE, sizes |-> <<>>, pgs |-> << [tid |-> 1, u |-> FALSE, r2 |-> 1, pdiffs |-> <<9, 8>>] >>] >>
PdVariants == << <<1>>, <<127>>, <<0, 5>>, <<3, 2, 1>> >>
FlagBit(n, j) == (n \div (2 ^ j)) % 2 = 1
MkDesc(fl, s) ==   \* fl: 0..255 flag bits I P L F B E V Z; s: sub-variant index
  LET ss == SSVariants[(s % 5) + 1] IN
  [i |-> FlagBit(fl, 7), p |-> FlagBit(fl, 6), l |-> FlagBit(fl, 5), f |-> FlagBit(fl, 4), b |-> FlagBit(fl, 3), e |-> FlagBit(fl, 2), v |-> FlagBit(fl, 1), z |-> FlagBit(fl, 0),
   m |-> (s % 2 = 0), picid |-> IF s % 2 = 0 THEN <<0, 128, 32767, 300>>[((s \div 2) % 4) + 1] ELSE <<0, 127, 1, 64>>[((s \div 2) % 4) + 1],
   tid |-> s % 8, u |-> (s % 3 = 0), sid |-> s % 5, dd |-> (s % 2 = 1), tl0 |-> (s * 37) % 256, pdiffs |-> PdVariants[(s % 4) + 1],
   ns |-> ss.ns, y |-> ss.y, g |-> ss.g, r3 |-> s % 8, sizes |-> ss.sizes, pgs |-> ss.pgs]
=============================================================================
