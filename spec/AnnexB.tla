------------------------------- MODULE AnnexB -------------------------------
(* G03 (growth): the H.264 / H.265 Annex B byte stream format (B.1):        *)
(*   byte_stream_nal_unit = leading_zero_8bits* [zero_byte]                  *)
(*                          start_code_prefix_one_3bytes (00 00 01) nal_unit  *)
(*                          trailing_zero_8bits*                              *)
(* A nal_unit never contains 00 00 00 / 00 00 01 / 00 00 02 and never ends   *)
(* in a zero byte, so every zero in front of a start code prefix and at the  *)
(* end of the stream belongs to the framing, not to a unit.                  *)
EXTENDS Bytes, TLC

SC3(s, i) == i + 2 <= Len(s) /\ s[i] = 0 /\ s[i + 1] = 0 /\ s[i + 2] = 1
Z3(s, i) == i + 2 <= Len(s) /\ s[i] = 0 /\ s[i + 1] = 0 /\ s[i + 2] = 0
RECURSIVE UnitEnd(_, _)
UnitEnd(s, j) == IF j > Len(s) \/ SC3(s, j) \/ Z3(s, j) THEN j ELSE UnitEnd(s, j + 1)     \* first index not in the unit
RECURSIVE StripZeros(_)
StripZeros(u) == IF u # <<>> /\ u[Len(u)] = 0 THEN StripZeros(SubSeq(u, 1, Len(u) - 1)) ELSE u
RECURSIVE SkipZeros(_, _)
SkipZeros(s, j) == IF j <= Len(s) /\ s[j] = 0 /\ ~SC3(s, j) THEN SkipZeros(s, j + 1) ELSE j
Has002(u) == \E k \in 1..(Len(u) - 2) : u[k] = 0 /\ u[k + 1] = 0 /\ u[k + 2] = 2

\* from index j (framing position): [ok, units]
RECURSIVE Units(_, _, _)
Units(s, j, acc) ==
  LET k == SkipZeros(s, j) IN
  IF k > Len(s) THEN [ok |-> TRUE, units |-> acc]
  ELSE IF ~SC3(s, k) THEN [ok |-> FALSE, units |-> acc]           \* data that no start code prefix introduces
  ELSE LET e == UnitEnd(s, k + 3)  u == StripZeros(Slice(s, k + 3, e - 1)) IN
       IF u = <<>> \/ Has002(u) \/ u[1] >= 128 THEN [ok |-> FALSE, units |-> acc]
       ELSE Units(s, e, Append(acc, u))
\* a conformant byte stream with at least one unit
Parse(s) == LET r == Units(s, 1, <<>>) IN [ok |-> r.ok /\ r.units # <<>>, units |-> r.units]
HasStartCode(s) == \E i \in 1..Len(s) : SC3(s, i)
=============================================================================
