------------------------------- MODULE RtpMC -------------------------------
(* Exhaustive check of the wire specification itself (oracle sanity):      *)
(* for every packet of the domain and every RFC-legal image of it, the      *)
(* reference decoder returns the packet, with n at the end of the extension *)
(* block; the canonical image has exactly HeaderSize + payload + padding    *)
(* bytes. An error here is a broken oracle (exit 2), never a verdict.       *)
(* The enumeration is two-level (layout first, then the rest) so that TLC's *)
(* workers share it; level 0 states carry a dummy rest.                     *)
EXTENDS RtpDom
CONSTANTS KnobSet
VARIABLES li, lvl, r

Knobs == IF KnobSet = "canon" THEN {CanonKnob}
         ELSE IF KnobSet = "some" THEN
                { CanonKnob, [pre |-> <<1>>, tailw |-> 0, term |-> FALSE, padfill |-> 255],
                  [pre |-> <<0, 2>>, tailw |-> 1, term |-> FALSE, padfill |-> 0],
                  [pre |-> <<3, 0, 5>>, tailw |-> 0, term |-> TRUE, padfill |-> 0],
                  [pre |-> <<>>, tailw |-> 1, term |-> TRUE, padfill |-> 255] }
         ELSE { [pre |-> pr, tailw |-> tw, term |-> tm, padfill |-> pf]
                 : pr \in {<<>>, <<1>>, <<0, 2>>, <<3, 0, 5>>}, tw \in {0, 1}, tm \in {FALSE, TRUE}, pf \in {0, 255} }
Rest == [pl : PayLens, ps : PadSizes, nc : CsrcCounts, k : Knobs]
Dummy == CHOOSE x \in Rest : TRUE

Init == li \in 1..Len(LayoutSeq) /\ lvl = 0 /\ r = Dummy
Next == lvl = 0 /\ lvl' = 1 /\ r' \in Rest /\ UNCHANGED li
Spec == Init /\ [][Next]_<<li, lvl, r>>

p == Mk(li, r.pl, r.ps, r.nc)
k == r.k
DomWellFormed == WellFormed(p)
ParseInvertsImage ==
  LET img == Image(p, k)  res == Parse(img) IN
  res.ok /\ res.p = p /\ res.n = Len(ImageHeader(p, k))
HeaderParseInvertsImage ==
  LET img == ImageHeader(p, k)  res == ParseHeader(img) IN
  res.ok /\ res.h = HeaderOf(p) /\ res.n = Len(img)
CanonIsImage == Image(p, CanonKnob) = Canon(p)
CanonSize == Len(Canon(p)) = HeaderSize(p) + Len(p.payload) + p.padsize
\* a canonical image cut anywhere inside the header is refused
TruncatedHeaderRejected ==
  \A cut \in 0..(HeaderSize(p) - 1) : ~ParseHeader(Take(Canon(p), cut)).ok
=============================================================================
