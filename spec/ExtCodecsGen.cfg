CONSTANTS Stride = 97 Sweep = FALSE
