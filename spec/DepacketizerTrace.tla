--------------------------- MODULE DepacketizerTrace ---------------------------
EXTENDS Depacketizer, TraceIO
VARIABLES l, st
Reason(e) ==
  CASE e.ev = "unmarshal" -> UnmarshalReason(e)
    [] e.ev = "probe" -> ProbeReason(e)
    [] e.ev = "sweep" -> SweepReason(e)
    [] e.ev = "parallel" -> IF ~e.same_as_alone THEN "concurrent_instances_interfere" ELSE ""      \* four more receivers, each on its own goroutine, same history
    [] OTHER -> "unknown_event"
Init == l = 1 /\ st = FALSE
Next ==
  /\ l <= Len(Trace)
  /\ l' = l + 1
  /\ LET e == Trace[l] IN
       IF e.ev = "reset" THEN st' = FALSE
       ELSE IF st THEN UNCHANGED st
       ELSE LET r == Reason(e) IN
            IF r = "" THEN st' = FALSE ELSE Reject(e, r) /\ st' = TRUE
Spec == Init /\ [][Next]_<<l, st>>
Done == Consumed
=============================================================================
