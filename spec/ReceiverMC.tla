------------------------------ MODULE ReceiverMC ------------------------------
(* The receiver-with-history model behind "a reused receiver gives the same *)
(* result as a fresh one" (C02, C09, C11, C12, C14, C17, C19). A receiver   *)
(* is a record with one mandatory field, one optional field (absent in some *)
(* inputs) and one list; an input either decodes (with or without the       *)
(* optional part, with a list of 0-2 elements) or is refused. A refused     *)
(* decode may leave the receiver in ANY state (the statements leave it      *)
(* open); the application may fill in a receiver by hand (App); a           *)
(* constructor hands out values (Ctor).                                     *)
(* Invariant: the result of the last successful decode is the function of   *)
(* its input a fresh receiver computes. Specification mutants, each of      *)
(* which must violate it: StaleOptional (the optional field is only written *)
(* when present), StaleList (the list is truncated and refilled but a       *)
(* shorter input leaves old elements), CtorShared (the constructor's zero   *)
(* value is one shared cell that a decode writes through).                  *)
EXTENDS Naturals, Sequences, TLC
CONSTANTS MaxSteps, StaleOptional, StaleList, CtorShared
VARIABLES rcv, last, lastKind, shared, steps
vars == <<rcv, last, lastKind, shared, steps>>
Inputs == { [ok |-> TRUE, a |-> a, opt |-> o, list |-> l] : a \in {1, 2}, o \in {0, 7}, l \in {<<>>, <<5>>, <<5, 6>>} } \cup { [ok |-> FALSE] }
Fresh(i) == [a |-> i.a, opt |-> i.opt, list |-> i.list]            \* what a fresh receiver holds after decoding i (0 = absent)
Zero == [a |-> 0, opt |-> 0, list |-> <<>>]
Junk == { [a |-> a, opt |-> o, list |-> l] : a \in {0, 9}, o \in {0, 9}, l \in {<<>>, <<9, 9, 9>>} }
NoInput == [ok |-> FALSE]
Init == rcv = Zero /\ last = NoInput /\ lastKind = "none" /\ shared = 0 /\ steps = 0
Decode(i) ==
  /\ steps < MaxSteps /\ steps' = steps + 1
  /\ IF ~i.ok THEN /\ rcv' \in Junk \cup {rcv} /\ last' = NoInput /\ lastKind' = "none" /\ UNCHANGED shared
     ELSE /\ rcv' = [a |-> i.a,
                     opt |-> IF StaleOptional /\ i.opt = 0 THEN rcv.opt ELSE i.opt,
                     list |-> IF StaleList /\ Len(i.list) < Len(rcv.list) THEN i.list \o SubSeq(rcv.list, Len(i.list) + 1, Len(rcv.list)) ELSE i.list]
          /\ last' = i /\ lastKind' = "input"
          /\ shared' = IF CtorShared /\ lastKind = "ctor" THEN i.opt ELSE shared    \* the decode wrote through the shared cell
App == /\ steps < MaxSteps /\ steps' = steps + 1 /\ rcv' \in Junk /\ last' = NoInput /\ lastKind' = "none" /\ UNCHANGED shared
Ctor == /\ steps < MaxSteps /\ steps' = steps + 1 /\ rcv' = [a |-> 0, opt |-> shared, list |-> <<>>] /\ last' = NoInput /\ lastKind' = "ctor" /\ UNCHANGED shared
Next == (\E i \in Inputs : Decode(i)) \/ App \/ Ctor
Spec == Init /\ [][Next]_vars
FreshEqualsReused == lastKind = "input" => rcv = Fresh(last)
CtorGivesZero == lastKind = "ctor" => rcv.opt = 0
=============================================================================
