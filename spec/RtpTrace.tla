------------------------------ MODULE RtpTrace ------------------------------
(* Judge (trace specification) for the RTP core families. The RTP object    *)
(* is modelled as a value-typed state machine: a packet value, the bytes    *)
(* Marshal produced, a caller-owned destination buffer (heap cell) with its *)
(* prior contents, and for Clone two independent values. Every recorded     *)
(* call of the real code must be a step this machine allows.                *)
(*   C01 roundtrip   C02 decode (fresh/used receivers)   C03 image decode,  *)
(*   re-encode stability, standalone views   C04 marshalto   C20 clone +    *)
(*   mutate                                                                 *)
EXTENDS RtpWire, TraceIO
CONSTANT Prop

VARIABLES l, st

Fresh == [poisoned |-> FALSE, ref |-> <<>>, href |-> <<>>, size |-> 0, hsize |-> 0, mres |-> "", hres |-> "",
          oorig |-> <<>>, oclone |-> <<>>]

PacketFields == <<"ver", "pad", "x", "m", "pt", "seq", "ts", "ssrc", "csrc", "profile", "exts", "payload", "padsize">>
HeaderFields == <<"ver", "pad", "x", "m", "pt", "seq", "ts", "ssrc", "csrc", "profile", "exts">>
RECURSIVE FirstDiff(_, _, _, _)
FirstDiff(a, b, fields, i) ==
  IF i > Len(fields) THEN ""
  ELSE IF a[fields[i]] # b[fields[i]] THEN fields[i] ELSE FirstDiff(a, b, fields, i + 1)
Hdr(p) == [f \in {HeaderFields[i] : i \in 1..Len(HeaderFields)} |-> p[f]]
\* projections recorded from the real code carry nexts_raw (length of the exported Extensions slice);
\* values built by the specification do not: Core strips it, RawExtsOk states what it must be
Core(p) == [f \in (DOMAIN p) \ {"nexts_raw"} |-> p[f]]
RawExtsOk(p) == p.nexts_raw = (IF p.x THEN Len(p.exts) ELSE 0)

-----------------------------------------------------------------------------
(* C01: Marshal then Unmarshal is the identity on well-formed packets.      *)
C01Reason(e) ==
  IF Core(e.in) # e.want THEN "harness_mismatch"
  ELSE IF ~WellFormed(e.in) THEN "harness_not_wellformed"
  ELSE IF e.mres # "ok" THEN "marshal_" \o e.mres
  ELSE IF e.mlen # e.msize THEN "marshal_size_mismatch"
  ELSE IF e.ures # "ok" THEN "unmarshal_rejects_own_output"
  ELSE IF Core(e.out) # Core(e.in) THEN "field_" \o FirstDiff(e.out, e.in, PacketFields, 1)
  ELSE IF ~RawExtsOk(e.out) THEN "field_extensions_slice"
  ELSE IF e.hmres # "ok" THEN "header_marshal_" \o e.hmres
  ELSE IF e.hmlen # e.hmsize THEN "header_marshal_size_mismatch"
  ELSE IF e.hures # "ok" THEN "header_unmarshal_rejects_own_output"
  ELSE IF e.hn # e.hmsize THEN "header_reported_length"
  ELSE IF Core(e.hout) # Hdr(e.in) THEN "header_field_" \o FirstDiff(e.hout, Hdr(e.in), HeaderFields, 1)
  ELSE ""

-----------------------------------------------------------------------------
(* C04: MarshalTo(dst). The state holds Marshal()'s own bytes (the statement *)
(* compares with Marshal, not with a reference encoder).                    *)
C04MarshalReason(e) ==
  IF Core(e.in) # e.want THEN "harness_mismatch"
  ELSE IF ~WellFormed(e.in) THEN "harness_not_wellformed"
  ELSE IF e.res # "ok" \/ e.hres # "ok" THEN "marshal_failed"
  ELSE IF Len(e.bytes) # e.size \/ Len(e.hbytes) # e.hsize THEN "marshal_size_mismatch"
  ELSE ""
C04ToReason(e, s) ==
  LET ref == IF e.which = 0 THEN s.ref ELSE s.href
      sz == Len(ref)
  IN
  IF e.res = "panic" THEN "outcome_panic"
  ELSE IF Drop(e.after, e.dstlen) # Drop(e.before, e.dstlen) THEN "wrote_beyond_destination"      \* before/after cover the arena behind dst
  ELSE IF e.dstlen < sz THEN
         (IF e.res # "err" THEN "short_dst_accepted"
          ELSE IF e.errkind # "short_buffer" THEN "short_dst_wrong_error" ELSE "")
  ELSE IF e.res # "ok" THEN "sufficient_dst_refused"
  ELSE IF e.n # sz THEN "returned_length"
  ELSE IF Take(e.after, sz) # ref THEN "bytes_differ_from_marshal"
  ELSE IF Drop(e.after, sz) # Drop(e.before, sz) THEN "wrote_beyond_length"
  ELSE ""
\* the destination is the buffer the packet was decoded from (its payload and extension values alias it)
C04InPlaceReason(e) ==
  LET sz == Len(e.want) IN
  IF e.res = "panic" THEN "in_place_panic"
  ELSE IF e.res # "ok" THEN "in_place_sufficient_dst_refused"
  ELSE IF e.n # sz THEN "in_place_returned_length"
  ELSE IF Take(e.after, sz) # e.want THEN "in_place_bytes_differ_from_marshal"
  ELSE IF Drop(e.after, sz) # Drop(e.before, sz) THEN "in_place_wrote_beyond_length"
  ELSE ""

-----------------------------------------------------------------------------
(* C20: Clone gives an equal value; afterwards the two are independent.     *)
C20CloneReason(e) ==
  IF e.res # "ok" THEN "clone_" \o e.res
  ELSE IF Core(e.orig.proj) # e.want THEN "harness_mismatch"
  ELSE IF e.clone.proj # e.orig.proj THEN "clone_field_" \o FirstDiff(e.clone.proj, e.orig.proj, PacketFields, 1)
  ELSE IF e.clone # e.orig THEN "clone_observation_differs"
  ELSE IF e.hclone.proj # e.horig.proj THEN "hclone_field_" \o FirstDiff(e.hclone.proj, e.horig.proj, HeaderFields, 1)
  ELSE IF e.hclone # e.horig THEN "hclone_observation_differs"
  ELSE ""
C20MutateReason(e, s) ==
  IF e.res # "ok" THEN "mutate_" \o e.res
  ELSE IF e.which = "packet" THEN
         (IF e.other # (IF e.site.side = "orig" THEN s.oclone ELSE s.oorig)
          THEN "shared_" \o e.site.kind \o "_" \o e.site.side \o (IF e.site.prekind # "" THEN "_after_own_change" ELSE "") ELSE "")
  ELSE IF e.other # e.before THEN "hshared_" \o e.site.kind \o "_" \o e.site.side
  ELSE ""

-----------------------------------------------------------------------------
(* C02: decoding any byte string. Outcomes are ok / err / panic; panic is an *)
(* outcome no action of the specification allows. Accept/reject of          *)
(* malformed input is the implementation's choice (not judged).             *)
ExtsAreInputBytes(b, o) ==
  IF ~o.x THEN o.exts = <<>>
  ELSE LET extStart == 12 + 4 * Len(o.csrc) + 4 IN
       IF o.profile \in {OneByte, TwoByte}
       THEN o.exts = LooseWalk(b, extStart, Len(b), o.profile, <<>>, Len(o.exts))
       ELSE /\ Len(o.exts) = 1 /\ o.exts[1].id = 0
            \* when the block its length word announces (RFC 3550 5.3.1) lies inside the input, the value is that block, whole;
            \* what a decoder does with an input that announces more than it holds stays its choice
            /\ LET w4 == 4 * (256 * At(b, extStart - 2) + At(b, extStart - 1)) IN extStart + w4 <= Len(b) => Len(o.exts[1].val) = w4
            /\ extStart + Len(o.exts[1].val) <= Len(b)
            /\ o.exts[1].val = Sub(b, extStart, extStart + Len(o.exts[1].val))
AnyPanic(e) == "panic" \in {e.fresh.res, e.used.res, e.hfresh.res, e.hused.res}
C02Reason(e) ==
  LET b == e.bytes  f == e.fresh  hf == e.hfresh IN
  IF AnyPanic(e) THEN "panic"
  ELSE IF hf.res = "ok" /\ ~(hf.n \in 0..Len(b)) THEN "header_length_outside_input"
  ELSE IF hf.res = "ok" /\ ~ExtsAreInputBytes(b, hf.obs) THEN "header_ext_value_not_input_bytes"
  ELSE IF f.res = "ok" /\ hf.res # "ok" THEN "packet_ok_header_err"
  ELSE IF f.res = "ok" /\ hf.n + Len(f.obs.payload) + f.obs.padsize # Len(b) THEN "length_equation"
  ELSE IF f.res = "ok" /\ f.obs.payload # Sub(b, hf.n, hf.n + Len(f.obs.payload)) THEN "payload_not_input_bytes"
  ELSE IF f.res = "ok" /\ ~ExtsAreInputBytes(b, f.obs) THEN "ext_value_not_input_bytes"
  ELSE IF f.res = "ok" /\ ~RawExtsOk(f.obs) THEN "extensions_slice_length"
  ELSE IF e.used.res # f.res THEN "reuse_outcome_differs"
  ELSE IF f.res = "ok" /\ e.used.obs # f.obs THEN "reuse_field_" \o FirstDiff(e.used.obs, f.obs, PacketFields \o <<"nexts_raw">>, 1)
  ELSE IF e.hused.res # hf.res THEN "header_reuse_outcome_differs"
  ELSE IF hf.res = "ok" /\ e.hused.n # hf.n THEN "header_reuse_length_differs"
  ELSE IF hf.res = "ok" /\ e.hused.obs # hf.obs THEN "header_reuse_field_" \o FirstDiff(e.hused.obs, hf.obs, HeaderFields \o <<"nexts_raw">>, 1)
  ELSE ""

-----------------------------------------------------------------------------
(* C03 (a): an RFC-legal image decodes to the value it was built from.      *)
(* C03 (b): whatever was accepted re-encodes stably.                        *)
ReencodeReason(e) ==
  LET b == e.bytes  f == e.fresh  rm == e.remarshal  rd == e.redecode IN
  IF f.res # "ok" THEN ""
  ELSE IF rm.res = "panic" THEN "remarshal_panic"
  ELSE IF rm.res = "err" THEN
         (IF rm.errkind = "invalid_padding" /\ f.obs.pad /\ f.obs.padsize = 0 THEN "" ELSE "marshal_refuses_accepted_packet")
  ELSE IF rd.res # "ok" THEN "reencoded_bytes_rejected"
  ELSE IF rd.obs # f.obs THEN "reencode_field_" \o FirstDiff(rd.obs, f.obs, PacketFields, 1)
  ELSE LET r == Parse(b) IN
       IF r.ok /\ Canon(r.p) = b /\ rm.bytes # b THEN "canonical_input_not_reproduced" ELSE ""
C03ImageReason(e) ==
  LET f == e.fresh  hf == e.hfresh IN
  IF ~(LET r == Parse(e.bytes) IN r.ok /\ r.p = e.want /\ r.n = e.wantn) THEN "oracle_disagrees_with_case"
  ELSE IF AnyPanic(e) THEN "panic"
  ELSE IF f.res # "ok" THEN "wellformed_image_rejected"
  ELSE IF Core(f.obs) # e.want THEN "decoded_field_" \o FirstDiff(f.obs, e.want, PacketFields, 1)
  ELSE IF hf.res # "ok" THEN "wellformed_image_rejected_by_header"
  ELSE IF hf.n # e.wantn THEN "payload_offset"
  ELSE IF Core(hf.obs) # Hdr(e.want) THEN "header_decoded_field_" \o FirstDiff(hf.obs, Hdr(e.want), HeaderFields, 1)
  ELSE ReencodeReason(e)
C03BytesReason(e) == IF AnyPanic(e) THEN "panic" ELSE ReencodeReason(e)

(* C03 (c): standalone views of a well-formed block *)
Ids(exts) == [i \in 1..Len(exts) |-> exts[i].id]
Vals(exts) == [i \in 1..Len(exts) |-> exts[i].val]
ViewApplies(e) ==
  \/ e.view = "onebyte" /\ e.profile = OneByte
  \/ e.view = "twobyte" /\ e.profile = TwoByte
  \/ e.view = "raw" /\ e.profile \notin {OneByte, TwoByte}
C03ViewReason(e) ==
  LET blk == e.block IN
  IF e.res = "panic" THEN "view_panic"
  ELSE IF ~ViewApplies(e) THEN ""
  ELSE IF e.res # "ok" THEN "view_rejects_wellformed_block"
  ELSE IF e.n # Len(blk) THEN "view_consumed_length"
  ELSE IF e.view = "raw" THEN
         (IF e.ids # <<0>> THEN "view_ids"
          ELSE IF ~(e.vals[1] = blk \/ e.vals[1] = Drop(blk, 4)) THEN "view_values"
          ELSE IF e.marshal # blk \/ e.size # Len(blk) \/ e.mton # Len(blk) \/ Take(e.mto, Len(blk)) # blk THEN "view_reserialise"
          ELSE IF e.used_res # "ok" \/ e.used_ids # e.ids \/ e.used_vals # e.vals \/ e.used_marshal # e.marshal THEN "view_that_decoded_another_block_before_differs" ELSE "")
  ELSE IF e.ids # Ids(e.want) THEN "view_ids"
  ELSE IF e.vals # Vals(e.want) THEN "view_values"
  ELSE IF e.marshal # blk \/ e.size # Len(blk) \/ e.mton # Len(blk) \/ Take(e.mto, Len(blk)) # blk THEN "view_reserialise"
  ELSE IF e.used_res # "ok" \/ e.used_ids # e.ids \/ e.used_vals # e.vals \/ e.used_marshal # e.marshal THEN "view_that_decoded_another_block_before_differs"
  ELSE ""

-----------------------------------------------------------------------------
Reason(e, s) ==
  CASE e.ev = "skip" ->     \* the public API refused to build the packet of the case
         \* C01 quantifies over the well-formed values "constructible through the public API" and lists them: refusing one of
         \* them (e.g. SetExtension rejecting a legal id or length) empties the statement instead of satisfying it
         IF "fam" \in DOMAIN e /\ e.fam = "C01" THEN "wellformed_value_refused_by_the_api" ELSE ""
    [] e.ev = "roundtrip" -> C01Reason(e)
    [] e.ev = "remarshal" ->      \* object lifecycle: changed in place, marshalled again = freshly built value
         IF e.res = "panic" THEN "remarshal_panic"
         ELSE IF e.twin_res # "ok" THEN "harness_twin_marshal"
         ELSE IF Core(e.proj) # Core(e.twin_proj) THEN "harness_rebuild_mismatch"
         ELSE IF e.res # "ok" THEN "remarshal_refused"
         ELSE IF e.bytes # e.twin \/ e.size # Len(e.twin) THEN "remarshal_differs_from_fresh_object"
         ELSE ""
    [] e.ev = "marshal" -> C04MarshalReason(e)
    [] e.ev = "marshalto" -> C04ToReason(e, s)
    [] e.ev = "inplace" -> C04InPlaceReason(e)
    [] e.ev = "decode" -> IF Prop = "C02" THEN C02Reason(e)
                          ELSE IF e.kind = "image" THEN C03ImageReason(e) ELSE C03BytesReason(e)
    [] e.ev = "view" -> C03ViewReason(e)
    [] e.ev = "clone" -> C20CloneReason(e)
    [] e.ev = "premutate" -> IF e.res # "ok" THEN "mutate_" \o e.res ELSE ""
    [] e.ev = "mutate" -> C20MutateReason(e, s)
    [] OTHER -> "unknown_event"

Step(e, s) ==
  CASE e.ev = "marshal" -> [s EXCEPT !.ref = e.bytes, !.href = e.hbytes]
    [] e.ev = "clone" -> [s EXCEPT !.oorig = e.orig, !.oclone = e.clone]
    \* the observed side changed itself: from now on that is what it must keep reporting
    [] e.ev = "premutate" -> IF e.site.side = "orig" THEN [s EXCEPT !.oclone = e.other] ELSE [s EXCEPT !.oorig = e.other]
    [] OTHER -> s

Init == l = 1 /\ st = Fresh
Next ==
  /\ l <= Len(Trace)
  /\ l' = l + 1
  /\ LET e == Trace[l] IN
       IF e.ev = "reset" THEN st' = Fresh
       ELSE IF st.poisoned THEN UNCHANGED st
       ELSE LET r == Reason(e, st) IN
            IF r = "" THEN st' = Step(e, st)
            ELSE Reject(e, r) /\ st' = [st EXCEPT !.poisoned = TRUE]
Spec == Init /\ [][Next]_<<l, st>>
Done == Consumed
=============================================================================
