------------------------------ MODULE RtpTrace ------------------------------
(* Judge (trace specification) for the RTP core families. The RTP object    *)
(* is modelled as a value-typed state machine: a packet value, the bytes    *)
(* Marshal produced, a caller-owned destination buffer (heap cell) with its *)
(* prior contents, and for Clone two independent values. Every recorded     *)
(* call of the real code must be a step this machine allows.                *)
(*   C01 roundtrip   C02 decode (fresh/used receivers)   C03 image decode,  *)
(*   re-encode stability, standalone views   C04 marshalto   C20 clone +    *)
(*   mutate                                                                 *)
EXTENDS RtpWire, TraceIO
CONSTANT Prop

VARIABLES l, st

Fresh == [poisoned |-> FALSE, ref |-> <<>>, href |-> <<>>, size |-> 0, hsize |-> 0, mres |-> "", hres |-> "",
          oorig |-> <<>>, oclone |-> <<>>]

PacketFields == <<"ver", "pad", "x", "m", "pt", "seq", "ts", "ssrc", "csrc", "profile", "exts", "payload", "padsize">>
HeaderFields == <<"ver", "pad", "x", "m", "pt", "seq", "ts", "ssrc", "csrc", "profile", "exts">>
RECURSIVE FirstDiff(_, _, _, _)
FirstDiff(a, b, fields, i) ==
  IF i > Len(fields) THEN ""
  ELSE IF a[fields[i]] # b[fields[i]] THEN fields[i] ELSE FirstDiff(a, b, fields, i + 1)
Hdr(p) == [f \in {HeaderFields[i] : i \in 1..Len(HeaderFields)} |-> p[f]]

-----------------------------------------------------------------------------
(* C01: Marshal then Unmarshal is the identity on well-formed packets.      *)
C01Reason(e) ==
  IF e.in # e.want THEN "harness_mismatch"
  ELSE IF ~WellFormed(e.in) THEN "harness_not_wellformed"
  ELSE IF e.mres # "ok" THEN "marshal_" \o e.mres
  ELSE IF e.mlen # e.msize THEN "marshal_size_mismatch"
  ELSE IF e.ures # "ok" THEN "unmarshal_rejects_own_output"
  ELSE IF e.out # e.in THEN "field_" \o FirstDiff(e.out, e.in, PacketFields, 1)
  ELSE IF e.hmres # "ok" THEN "header_marshal_" \o e.hmres
  ELSE IF e.hmlen # e.hmsize THEN "header_marshal_size_mismatch"
  ELSE IF e.hures # "ok" THEN "header_unmarshal_rejects_own_output"
  ELSE IF e.hn # e.hmsize THEN "header_reported_length"
  ELSE IF e.hout # Hdr(e.in) THEN "header_field_" \o FirstDiff(e.hout, Hdr(e.in), HeaderFields, 1)
  ELSE ""

-----------------------------------------------------------------------------
(* C04: MarshalTo(dst). The state holds Marshal()'s own bytes (the statement *)
(* compares with Marshal, not with a reference encoder).                    *)
C04MarshalReason(e) ==
  IF e.in # e.want THEN "harness_mismatch"
  ELSE IF ~WellFormed(e.in) THEN "harness_not_wellformed"
  ELSE IF e.res # "ok" \/ e.hres # "ok" THEN "marshal_failed"
  ELSE IF Len(e.bytes) # e.size \/ Len(e.hbytes) # e.hsize THEN "marshal_size_mismatch"
  ELSE ""
C04ToReason(e, s) ==
  LET ref == IF e.which = 0 THEN s.ref ELSE s.href
      sz == Len(ref)
  IN
  IF e.res = "panic" THEN "outcome_panic"
  ELSE IF e.dstlen < sz THEN
         (IF e.res # "err" THEN "short_dst_accepted"
          ELSE IF e.errkind # "short_buffer" THEN "short_dst_wrong_error" ELSE "")
  ELSE IF e.res # "ok" THEN "sufficient_dst_refused"
  ELSE IF e.n # sz THEN "returned_length"
  ELSE IF Take(e.after, sz) # ref THEN "bytes_differ_from_marshal"
  ELSE IF Drop(e.after, sz) # Drop(e.before, sz) THEN "wrote_beyond_length"
  ELSE ""

-----------------------------------------------------------------------------
(* C20: Clone gives an equal value; afterwards the two are independent.     *)
C20CloneReason(e) ==
  IF e.res # "ok" THEN "clone_" \o e.res
  ELSE IF e.orig.proj # e.want THEN "harness_mismatch"
  ELSE IF e.clone.proj # e.orig.proj THEN "clone_field_" \o FirstDiff(e.clone.proj, e.orig.proj, PacketFields, 1)
  ELSE IF e.clone # e.orig THEN "clone_observation_differs"
  ELSE IF e.hclone.proj # e.horig.proj THEN "hclone_field_" \o FirstDiff(e.hclone.proj, e.horig.proj, HeaderFields, 1)
  ELSE IF e.hclone # e.horig THEN "hclone_observation_differs"
  ELSE ""
C20MutateReason(e, s) ==
  IF e.res # "ok" THEN "mutate_" \o e.res
  ELSE IF e.which = "packet" THEN
         (IF e.other # (IF e.site.side = "orig" THEN s.oclone ELSE s.oorig)
          THEN "shared_" \o e.site.kind \o "_" \o e.site.side ELSE "")
  ELSE IF e.other # e.before THEN "hshared_" \o e.site.kind \o "_" \o e.site.side
  ELSE ""

-----------------------------------------------------------------------------
Reason(e, s) ==
  CASE e.ev = "skip" -> ""
    [] e.ev = "roundtrip" -> C01Reason(e)
    [] e.ev = "marshal" -> C04MarshalReason(e)
    [] e.ev = "marshalto" -> C04ToReason(e, s)
    [] e.ev = "clone" -> C20CloneReason(e)
    [] e.ev = "mutate" -> C20MutateReason(e, s)
    [] OTHER -> "unknown_event"

Step(e, s) ==
  CASE e.ev = "marshal" -> [s EXCEPT !.ref = e.bytes, !.href = e.hbytes]
    [] e.ev = "clone" -> [s EXCEPT !.oorig = e.orig, !.oclone = e.clone]
    [] OTHER -> s

Init == l = 1 /\ st = Fresh
Next ==
  /\ l <= Len(Trace)
  /\ l' = l + 1
  /\ LET e == Trace[l] IN
       IF e.ev = "reset" THEN st' = Fresh
       ELSE IF st.poisoned THEN UNCHANGED st
       ELSE LET r == Reason(e, st) IN
            IF r = "" THEN st' = Step(e, st)
            ELSE Reject(e, r) /\ st' = [st EXCEPT !.poisoned = TRUE]
Spec == Init /\ [][Next]_<<l, st>>
Done == Consumed
=============================================================================
