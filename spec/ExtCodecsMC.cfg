SPECIFICATION Spec
INVARIANTS RoundTrip SizeLaw TrailingIgnored
CHECK_DEADLOCK FALSE
