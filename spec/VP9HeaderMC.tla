----------------------------- MODULE VP9HeaderMC -----------------------------
(* Oracle sanity for G02: the parser inverts the independent encoder on     *)
(* every bounded field combination, whatever follows the header, and every  *)
(* proper byte-prefix that cuts the header is refused.                      *)
EXTENDS VP9Header
VARIABLES f, lvl
Dims == {0, 1, 255, 256, 65535}
Keys == { [profile |-> p, rz |-> rz, sef |-> FALSE, idx |-> 0, nonkey |-> FALSE, show |-> sh, errres |-> er, depth |-> d, cs |-> cs, range |-> rg, ssx |-> sx, ssy |-> sy, wm1 |-> w, hm1 |-> h] :
            p \in 0..3, rz \in {0, 1}, sh \in BOOLEAN, er \in BOOLEAN, d \in {10, 12}, cs \in {0, 2, 7}, rg \in BOOLEAN, sx \in BOOLEAN, sy \in BOOLEAN, w \in Dims, h \in {0, 65535} }
Others == { [profile |-> p, rz |-> rz, sef |-> se, idx |-> i, nonkey |-> TRUE, show |-> sh, errres |-> er, depth |-> 8, cs |-> 0, range |-> FALSE, ssx |-> TRUE, ssy |-> TRUE, wm1 |-> 0, hm1 |-> 0] :
            p \in 0..3, rz \in {0, 1}, se \in BOOLEAN, i \in 0..7, sh \in BOOLEAN, er \in BOOLEAN }
Init == f \in Keys \cup Others /\ lvl = 0
Next == UNCHANGED <<f, lvl>>
Spec == Init /\ [][Next]_<<f, lvl>>
Norm(x) ==   \* the fields the bit string determines
  IF x.sef THEN [profile |-> x.profile, sef |-> TRUE, idx |-> x.idx]
  ELSE IF x.nonkey THEN [profile |-> x.profile, sef |-> FALSE, nonkey |-> TRUE, show |-> x.show, errres |-> x.errres]
  ELSE [profile |-> x.profile, sef |-> FALSE, nonkey |-> FALSE, show |-> x.show, errres |-> x.errres,
        depth |-> IF x.profile >= 2 THEN x.depth ELSE 8, cs |-> x.cs, range |-> IF x.cs = 7 THEN TRUE ELSE x.range,
        ssx |-> IF x.cs = 7 THEN FALSE ELSE IF x.profile \in {1, 3} THEN x.ssx ELSE TRUE,
        ssy |-> IF x.cs = 7 THEN FALSE ELSE IF x.profile \in {1, 3} THEN x.ssy ELSE TRUE, wm1 |-> x.wm1, hm1 |-> x.hm1]
Got(r) ==
  IF r.sef THEN [profile |-> r.profile, sef |-> TRUE, idx |-> r.idx]
  ELSE IF r.nonkey THEN [profile |-> r.profile, sef |-> FALSE, nonkey |-> TRUE, show |-> r.show, errres |-> r.errres]
  ELSE [profile |-> r.profile, sef |-> FALSE, nonkey |-> FALSE, show |-> r.show, errres |-> r.errres,
        depth |-> r.depth, cs |-> r.cs, range |-> r.range, ssx |-> r.ssx, ssy |-> r.ssy, wm1 |-> r.wm1, hm1 |-> r.hm1]
ParseInvertsEncode ==
  \A fill \in {0, 1} : \A tail \in {<<>>, <<255>>, <<0, 1>>} :
    LET r == Parse(Pack(HdrBits(f), fill) \o tail) IN r.ok /\ Got(r) = Norm(f)
CutRefused ==
  LET bits == HdrBits(f)  b == Pack(bits, 0) IN
  \A n \in 0..(Len(b) - 1) : (8 * n < Len(bits)) => ~Parse(Take(b, n)).ok
=============================================================================
