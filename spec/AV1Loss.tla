-------------------------------- MODULE AV1Loss --------------------------------
(* The AV1 reference receiver under loss (shared by AV1LossMC, AV1LossGen   *)
(* and AV1LossTrace): see AV1LossMC for the rules.                          *)
EXTENDS AV1
RxInit == [buf |-> <<>>, open |-> FALSE]
RefRxR(s, p, resync) ==
  LET pe == PacketElems(p) IN
  IF ~pe.ok \/ pe.elems = <<>> THEN [ok |-> FALSE, out |-> <<>>, s |-> s]
  ELSE
    LET z == AggZ(p)  y == AggY(p)  n == Len(pe.elems)
        pending == IF ~z /\ resync THEN [buf |-> <<>>, open |-> FALSE] ELSE s
        first == IF z THEN (IF pending.open THEN <<pending.buf \o pe.elems[1]>> ELSE <<>>)
                 ELSE (IF pending.open THEN <<pending.buf \o pe.elems[1]>> ELSE <<pe.elems[1]>>)
        whole == first \o SubSeq(pe.elems, 2, n)
        firstDropped == z /\ ~pending.open
    IN IF y THEN
         (IF n = 1 /\ firstDropped THEN [ok |-> TRUE, out |-> <<>>, s |-> [buf |-> <<>>, open |-> FALSE]]
          ELSE [ok |-> TRUE, out |-> SubSeq(whole, 1, Len(whole) - 1), s |-> [buf |-> whole[Len(whole)], open |-> TRUE]])
       ELSE [ok |-> TRUE, out |-> whole, s |-> [buf |-> <<>>, open |-> FALSE]]
\* a transmitted-form OBU (size flag cleared) as the depacketizer hands it on: size flag set, size field inserted
SizedOfTx(b) ==
  IF b = <<>> THEN <<>>
  ELSE LET ext == (b[1] \div 4) % 2 = 1
           hl == IF ext THEN 2 ELSE 1 IN
       IF Len(b) < hl THEN b
       ELSE <<b[1] - ((b[1] \div 2) % 2) * 2 + 2>> \o (IF ext THEN <<b[2]>> ELSE <<>>) \o LebOfNat(Len(b) - hl) \o Drop(b, hl)
\* reference sender: every OBU alone, W = 1, fragments of mtu - 1 bytes
OneOBUm(b, mtu) == LET room == mtu - 1  k == (Len(b) + room - 1) \div room IN
  [j \in 1..k |-> <<(IF j > 1 THEN 128 ELSE 0) + (IF j < k THEN 64 ELSE 0) + 16>> \o Slice(b, (j - 1) * room + 1, Min(j * room, Len(b)))]
PacketsM(obus, mtu) == Flatten([i \in 1..Len(obus) |-> OneOBUm(TxForm(obus[i]), mtu)])
=============================================================================
