----------------------------- MODULE WrappersTrace -----------------------------
(* Judge for G04 (growth): every deprecated wrapper refines the function it *)
(* was replaced by - same answer on every input - and the LEB128 encoders   *)
(* (EncodeLEB128 returns the encoding packed big-endian into an integer,    *)
(* WriteToLeb128 returns it as bytes) agree with the digit semantics of     *)
(* Bytes!LebBytes.                                                          *)
EXTENDS Bytes, TraceIO
VARIABLES l, st
RECURSIVE StripLeading(_)
StripLeading(b) == IF Len(b) > 1 /\ b[1] = 0 THEN StripLeading(Tail(b)) ELSE b
Reason(e) ==
  IF e.res # "ok" THEN "panic"
  ELSE IF e.ev = "heads" THEN
       (IF \E k \in 1..Len(e.pairs) : e.pairs[k].primary # e.pairs[k].wrapper THEN "partition_head_checker_disagrees" ELSE "")
  ELSE IF e.ev = "lebread" THEN (IF e.primary # e.wrapper THEN "pkg_obu_read_disagrees" ELSE "")
  ELSE IF e.ev = "lebenc" THEN
       (IF e.primary # e.wrapper THEN "pkg_obu_encode_disagrees"
        ELSE IF StripLeading(e.primary) # LebBytes(e.digits) THEN "encode_leb128_value"
        ELSE IF e.written # LebBytes(e.digits) THEN "write_to_leb128_bytes"
        ELSE IF e.readback # e.digits THEN "read_back_digits" ELSE "")
  ELSE "unknown_event"
Init == l = 1 /\ st = 0
Next ==
  /\ l <= Len(Trace)
  /\ l' = l + 1
  /\ UNCHANGED st
  /\ LET e == Trace[l] IN
       IF e.ev = "reset" THEN TRUE
       ELSE LET r == Reason(e) IN IF r = "" THEN TRUE ELSE Reject(e, r)
Spec == Init /\ [][Next]_<<l, st>>
Done == Consumed
=============================================================================
