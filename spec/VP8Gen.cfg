CONSTANTS Rich = FALSE Mtus = {5, 6, 7, 8, 12, 1200}
