CONSTANTS P = 3 Calls = 2 Need = 2 MOD = 16 Start = 13 LocalCount = FALSE Unlocked = FALSE
SPECIFICATION Spec
INVARIANTS NoDupNoGap Ascending RocIsWraps
CHECK_DEADLOCK FALSE
