"""Per-property descriptors: which specifications are model-checked, which generate the
cases, which judge the trace, seeded random case generators, class rules."""
import random

PROPS = {}


def prop(d):
    PROPS[d["id"]] = d
    return d


COMMON_ASSUME = [
    "TLC (tla2tools 1.8.0) and the CommunityModules Json/IOUtils overrides are trusted",
    "the Go harness only projects real behaviour to trace events (no verdict logic); its projection code is trusted",
    "real code is exercised on the enumerated classes and seeded random cases, not on all Go inputs",
]

# ---------------------------------------------------------------- C16
def rand_c16(seed, tier):
    rng = random.Random(seed * 7919 + 16)
    n = 300 if tier == "quick" else 3000
    out = []
    for _ in range(n):
        kind = rng.choice(["g711", "g722", "opus", "opusdepack"])
        big = kind in ("g711", "g722") and rng.random() < 0.3
        if big:
            mtu = rng.choice([rng.randint(1, 65535), rng.randint(100, 1500)])
            ln = rng.randint(0, 10000)
        else:
            mtu = rng.randint(1, 300)
            ln = rng.randint(0, 400)
        out.append(dict(fam="C16", kind=kind, len=ln, mtu=mtu, salt=rng.randint(0, 249), isnil=False, big=big,
                        **{"class": "rand_big" if big else "rand"}))
    return out


prop(dict(
    id="C16", fam="C16",
    mc=[("AudioMC.tla", "AudioMC.cfg", {"thorough": {"MaxLen": 260, "MaxMtu": 64}})],
    gen=[("AudioGen.tla", "AudioGen.cfg", {"thorough": {"MaxLen": 260, "MaxMtu": 64, "BigMtus": "{160, 1200, 1500, 65535}", "Tier": '"thorough"'}})],
    rand=rand_c16,
    trace=("AudioTrace.tla", "AudioTrace.cfg"),
    shards={"quick": 1, "thorough": 8},
    nontrivial=lambda c: c["len"] > 0,
    mandatory=["exact_multiple", "remainder", "single", "empty", "nil", "opus", "opus_over_mtu", "big_exact_multiple", "big_remainder"],
    rule="TLC enumerates (kind, len 0..MaxLen, mtu 1..MaxMtu) exhaustively plus k*mtu-1/k*mtu/k*mtu+1 lengths for large MTUs, "
         "nil/empty inputs and Opus lengths; seeded random (len, mtu) pairs are added; a case is non-trivial when the input is non-empty; "
         "distinct = distinct case descriptors",
    exhaustive=False,
    assumptions=COMMON_ASSUME + ["buffers of the 'big' classes are judged on fragment lengths plus per-fragment slice-equality facts computed by the harness"],
))
