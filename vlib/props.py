"""Per-property descriptors: which specifications are model-checked, which generate the
cases, which judge the trace, seeded random case generators, class rules."""
import os
import random

PROPS = {}


# thorough tier: the seeded random part is this many times the base count (measured: all twenty thorough checks took
# 25 minutes together at scale 1 and 36 minutes at scale 4; the enumerated parts are unaffected)
TH = int(os.environ.get("VERIF_THOROUGH_SCALE", "8"))


def rbytes(rng, n):
    """n bytes with varied texture: uniform random, constant (0x00 / 0xFF / a repeated value), runs, ramps,
    and 'length-like' content (every byte is the number of bytes that follow it, i.e. the data mimics a
    length prefix at every position)."""
    k = rng.random()
    if k < 0.49:
        return [rng.randint(0, 255) for _ in range(n)]
    if k < 0.55:
        m = rng.choice([128, 256])
        return [(n - 1 - i) % m for i in range(n)]
    if k < 0.65:
        return [255] * n
    if k < 0.72:
        return [0] * n
    if k < 0.82:
        v = rng.randint(0, 255)
        return [v] * n
    if k < 0.92:
        out = []
        while len(out) < n:
            out += [rng.randint(0, 255)] * rng.randint(1, 4)
        return out[:n]
    s = rng.randint(0, 255)
    return [(s + i) % 256 for i in range(n)]


def prop(d):
    PROPS[d["id"]] = d
    return d


# ---- case source "corpus": the byte strings found in the repository's own tests (harness corpus) ----
CORPUS_RULE = ("; the byte strings found in the repository's own _test.go files ([]byte literals of constants, from the current "
               "working tree) are added as cases of class *_corpus")


def corpus_decode(fam):
    def f(entries, tier):
        out = []
        prev = []
        for e in entries:
            out.append(dict(fam=fam, kind="bytes", bytes=e["bytes"], prev=prev, **{"class": "corpus_bytes"}))
            prev = e["bytes"][:300]
        return out
    return f


def _codec_of(path):
    for k in ("h264", "h265", "vp8", "vp9", "av1", "opus", "g711", "g722"):
        if k in path:
            return k
    return ""


def corpus_c09(entries, tier):
    out = []
    small = [e for e in entries if len(e["bytes"]) <= 2100]
    for kind in C09_KINDS:
        base = kind.split("_")[0]
        # every string alone into a fresh receiver; the strings of the codec's own test files also as histories in source order
        for e in small:
            if tier == "quick" and _codec_of(e["file"]) not in (base, ""):
                continue
            out.append(dict(fam="C09", kind=kind, src="bytes", items=[e["bytes"]], probes=True, scribble=True, **{"class": kind + "_corpus"}))
        own = [e["bytes"] for e in small if _codec_of(e["file"]) == base]
        for i in range(0, len(own), 6):
            out.append(dict(fam="C09", kind=kind, src="bytes", items=own[i:i + 8], probes=True, scribble=True, **{"class": kind + "_corpus_history"}))
            if kind in ("vp8", "vp9", "h264", "h264_avc", "h265", "h265_donl", "av1"):
                out.append(dict(fam="C09", kind=kind, src="bytes", items=own[i:i + 8], probes=True, scribble=True, zeroalloc=True, **{"class": kind + "_corpus_history_zero_allocation"}))
    return out


def _split_annexb(b):
    """(units, start-code sizes) of an Annex-B stream that begins with a start code, else None."""
    pos = []
    i = 0
    while i + 2 < len(b):
        if b[i] == 0 and b[i + 1] == 0 and b[i + 2] == 1:
            pos.append((i - 1, 4) if i > 0 and b[i - 1] == 0 and (not pos or pos[-1][0] + pos[-1][1] <= i - 1) else (i, 3))
            i += 3
        else:
            i += 1
    if not pos or pos[0][0] != 0:
        return None
    units, scs = [], []
    for k, (st, n) in enumerate(pos):
        end = pos[k + 1][0] if k + 1 < len(pos) else len(b)
        units.append(b[st + n:end]); scs.append(n)
    return units, scs


def corpus_nal(fam, codec):
    def f(entries, tier):
        out = []
        for e in entries:
            if _codec_of(e["file"]) != codec:
                continue
            r = _split_annexb(e["bytes"])
            if not r:
                continue
            units, scs = r
            if codec == "h264":
                ok = all(len(u) >= 2 and u[-1] != 0 and u[0] < 128 and 1 <= (u[0] & 31) <= 23 for u in units)
            else:
                ok = all(len(u) >= 3 and u[-1] != 0 and u[0] < 128 and ((u[0] >> 1) & 63) <= 47 for u in units)
            if not ok:
                continue
            big = max(len(u) for u in units)
            for mtu in sorted({1200, max(6, big // 2), max(6, big + 1), 6}):
                if codec == "h264":
                    for stap in (True, False):
                        out.append(dict(fam=fam, kind="payloader", mtu=mtu, stapa=stap, calls=[dict(units=units, scs=scs)], **{"class": "corpus_stream"}))
                else:
                    for donl in (False, True):
                        out.append(dict(fam=fam, kind="payload", valid=True, mtu=mtu, donl=donl, skipagg=False, calls=[dict(units=units, scs=scs)], **{"class": "corpus_stream"}))
        return out
    return f


def corpus_c08(entries, tier):
    out = []
    small = [e for e in entries if 0 < len(e["bytes"]) <= 2100]
    for kind in C08_KINDS:
        base = kind.split("_")[0].replace("vp8pid", "vp8")
        for e in small:
            if _codec_of(e["file"]) not in (base, "") and tier == "quick":
                continue
            n = len(e["bytes"])
            calls = [dict(mtu=m, shape="raw", len=n, salt=0, bytes=e["bytes"]) for m in (1200, max(2, n // 2 + 1), 5)]
            out.append(dict(fam="C08", kind=kind, scribble=True, calls=calls, **{"class": kind + "_corpus"}))
    return out


COMMON_ASSUME = [
    "TLC (tla2tools 1.8.0) and the CommunityModules Json/IOUtils overrides are trusted",
    "the Go harness only projects real behaviour to trace events (no verdict logic); its projection code is trusted",
    "real code is exercised on the enumerated classes and seeded random cases, not on all Go inputs",
]

# ---------------------------------------------------------------- C16
def rand_c16(seed, tier, cases=None):
    rng = random.Random(seed * 7919 + 16)
    n = 1500 if tier == "quick" else 20000 * TH
    out = []
    for _ in range(n):
        kind = rng.choice(["g711", "g722", "opus", "opusdepack"])
        big = kind in ("g711", "g722") and rng.random() < 0.3
        if big:
            mtu = rng.choice([rng.randint(1, 65535), rng.randint(100, 1500)])
            ln = rng.randint(0, 10000)
        else:
            mtu = rng.randint(1, 300)
            ln = rng.randint(0, 400)
        out.append(dict(fam="C16", kind=kind, len=ln, mtu=mtu, salt=rng.randint(0, 249), isnil=False, big=big, fillv=rng.choice([-1, -1, -1, 0, 255, rng.randint(0, 255)]),
                        **{"class": "rand_big" if big else "rand"}))
    return out


prop(dict(
    id="C16", fam="C16",
    mc=[("AudioMC.tla", "AudioMC.cfg", {"thorough": {"MaxLen": 260, "MaxMtu": 64}})],
    gen=[("AudioGen.tla", "AudioGen.cfg", {"thorough": {"MaxLen": 260, "MaxMtu": 64, "BigMtus": "{160, 1200, 1500, 65535}", "Tier": '"thorough"'}})],
    rand=rand_c16,
    trace=("AudioTrace.tla", "AudioTrace.cfg"),
    shards={"quick": 1, "thorough": 8},
    nontrivial=lambda c: c["len"] > 0,
    mandatory=["exact_multiple", "remainder", "single", "empty", "nil", "opus", "opus_over_mtu", "big_exact_multiple", "big_remainder", "big_over_64k"],
    rule="TLC enumerates (kind, len 0..MaxLen, mtu 1..MaxMtu) exhaustively plus k*mtu-1/k*mtu/k*mtu+1 lengths for large MTUs, "
         "nil/empty inputs and Opus lengths; seeded random (len, mtu) pairs are added; a case is non-trivial when the input is non-empty; "
         "distinct = distinct case descriptors",
    exhaustive=False,
    assumptions=COMMON_ASSUME + ["buffers of the 'big' classes are judged on fragment lengths plus per-fragment slice-equality facts computed by the harness"],
))


# ---------------------------------------------------------------- RTP core (C01, C04, C20)
RTP_THOROUGH = {"PayLens": "{0, 1, 2, 3, 4, 50}", "PadSizes": "{0, 1, 2, 4, 255}", "CsrcCounts": "{0, 1, 2, 15}", "Rich": "TRUE"}


def rtp_consts(fam, tier):
    d = {"Fam": '"%s"' % fam}
    if tier == "thorough":
        d.update(RTP_THOROUGH)
    return d


def _rand_packet(rng):
    """A random well-formed packet value (the C01 domain), as a case 'p' record."""
    def word():
        return [rng.randint(0, 255) for _ in range(4)]
    lay = rng.choice(["none", "one", "two", "legacy"])
    x, profile, exts = lay != "none", 0, []
    if lay == "one":
        profile = 0xBEDE
        ids = rng.sample(range(1, 15), rng.randint(0, 6))
        exts = [dict(id=i, val=rbytes(rng, i if rng.random() < 0.2 else rng.randint(1, 16))) for i in ids]
        for e in exts:
            if len(e["val"]) > 16 or not e["val"]:
                e["val"] = [e["id"]]
    elif lay == "two":
        profile = 0x1000
        ids = rng.sample(range(1, 256), rng.randint(0, 5))
        exts = [dict(id=i, val=rbytes(rng, rng.choice([0, 1, 2, 3, 4, 17, 40, 77, 255, min(i, 255), rng.randint(0, 255)]))) for i in ids]
    elif lay == "legacy":
        profile = rng.choice([0, 1, 0x1234, 0xBEDF, 0x0FFF, 0x1010, 0xFFFF, rng.randint(0, 65535)])
        if profile in (0xBEDE, 0x1000):
            profile = 0x4321
        exts = [dict(id=0, val=[rng.randint(0, 255) for _ in range(4 * rng.randint(0, 6))])]
    padsize = rng.choice([0, 0, 0, 1, 2, 3, 4, 7, 200, 255])
    return dict(ver=rng.randint(0, 3), pad=padsize > 0, x=x, m=rng.random() < 0.5, pt=rng.randint(0, 127),
                seq=rng.randint(0, 65535), ts=word(), ssrc=word(), csrc=[word() for _ in range(rng.choice([0, 0, 1, 2, 3, 15]))],
                profile=profile, exts=exts, payload=rbytes(rng, rng.choice([0, 0, 1, 2, 3, 4, 5, 12, 16, 20, 33, 77, 120, rng.randint(0, 300), 1700 if rng.random() < 0.03 else 9])),
                padsize=padsize)


def _ptags(p):
    body = 0
    for e in p["exts"]:
        body += len(e["val"]) + (1 if p["profile"] == 0xBEDE else 2 if p["profile"] == 0x1000 else 0)
    lay = "noext" if not p["x"] else "onebyte" if p["profile"] == 0xBEDE else "twobyte" if p["profile"] == 0x1000 else "legacy"
    return dict(layout=lay, ext_flush=p["x"] and body % 4 == 0, nexts=len(p["exts"]), paylen=len(p["payload"]),
                padsize=p["padsize"], ncsrc=len(p["csrc"]), ext_empty_block=p["x"] and body == 0)


def _giant_legacy(rng, words):
    """A legal legacy extension of >= 2^14 words (its byte length does not fit 16 bits)."""
    p = _rand_packet(rng)
    p.update(x=True, profile=0x4321, exts=[dict(id=0, val=[(7 * i + 3) % 251 + 1 for i in range(4 * words)])], payload=[9, 8, 7], pad=False, padsize=0)
    return p


def rand_c01(seed, tier, cases=None):
    rng = random.Random(seed * 7919 + 1)
    out = []
    for words in (16384, 16385):
        p = _giant_legacy(rng, words)
        out.append(dict(fam="C01", p=p, tags=_ptags(p), dsts=[], sites=[], **{"class": "giant_legacy"}))
    for _ in range(2500 if tier == "quick" else 40000 * TH):
        p = _rand_packet(rng)
        out.append(dict(fam="C01", p=p, p2=_rand_packet(rng), tags=_ptags(p), dsts=[], sites=[], **{"class": "rand_" + _ptags(p)["layout"]}))
    return out


def rand_c04(seed, tier, cases=None):
    rng = random.Random(seed * 7919 + 4)
    out = []
    for _ in range(800 if tier == "quick" else 12000 * TH):
        p = _rand_packet(rng)
        dsts = [[rng.randint(0, 1), rng.randint(0, 400), rng.randint(0, 2)] for _ in range(6)]
        out.append(dict(fam="C04", p=p, tags=_ptags(p), dsts=dsts, sites=[], **{"class": "rand_" + _ptags(p)["layout"]}))
    return out


RTP_ASSUME = COMMON_ASSUME + ["extension (id, value) lists are read from Header.Extensions by reflection (fallback: GetExtensionIDs/GetExtension)"]

prop(dict(
    id="C01", fam="C01",
    mc=[("RtpMC.tla", "RtpMC.cfg", {"thorough": dict(RTP_THOROUGH, KnobSet='"some"')})],
    gen=[("RtpGen.tla", "RtpGen.cfg", {"quick": rtp_consts("C01", "quick"), "thorough": rtp_consts("C01", "thorough")})],
    rand=rand_c01,
    trace=("RtpTrace.tla", "RtpTrace.cfg"),
    shards={"quick": 1, "thorough": 8},
    workers=16,
    nontrivial=lambda c: c["p"]["x"] or c["p"]["pad"] or len(c["p"]["csrc"]) > 0,
    mandatory=["noext", "onebyte_flush_nopayload", "twobyte_flush_nopayload", "legacy_flush_nopayload", "onebyte_pad", "twobyte", "legacy_flush"],
    rule="TLC enumerates the full product extension layout x payload length x padding size x CSRC count of RtpDom (scalars rotate through a "
         "covering row); seeded random well-formed packets are added; non-trivial = has an extension block, padding or CSRCs; distinct = distinct packet values",
    assumptions=RTP_ASSUME,
))

prop(dict(
    id="C04", fam="C04",
    mc=[("RtpMC.tla", "RtpMC.cfg", {"quick": {"KnobSet": '"canon"'}, "thorough": dict(RTP_THOROUGH, KnobSet='"canon"')})],
    gen=[("RtpGen.tla", "RtpGen.cfg", {"quick": rtp_consts("C04", "quick"), "thorough": rtp_consts("C04", "thorough")})],
    rand=rand_c04,
    trace=("RtpTrace.tla", "RtpTrace.cfg"),
    shards={"quick": 4, "thorough": 12},
    workers=16,
    nontrivial=lambda c: True,
    mandatory=["noext", "onebyte_pad", "twobyte_pad", "legacy_flush_pad", "onebyte_flush_nopayload"],
    rule="every packet of RtpDom x destination lengths {0,1,size-1,size,size+1,size+7,header size +-1, midpoint} x prior fills {0xFF, pattern} "
         "(plus zero fill at exact size), for Packet.MarshalTo and Header.MarshalTo; evaluations counts packets, each with 20-30 MarshalTo calls; "
         "distinct = distinct (packet, destination list)",
    assumptions=RTP_ASSUME,
))

prop(dict(
    id="C20", fam="C20",
    mc=[("RtpMC.tla", "RtpMC.cfg", {"quick": {"KnobSet": '"canon"'}, "thorough": dict(RTP_THOROUGH, KnobSet='"canon"')})],
    gen=[("RtpGen.tla", "RtpGen.cfg", {"quick": rtp_consts("C20", "quick"), "thorough": rtp_consts("C20", "thorough")})],
    trace=("RtpTrace.tla", "RtpTrace.cfg"),
    shards={"quick": 4, "thorough": 12},
    workers=16,
    nontrivial=lambda c: len(c["sites"]) > 2,
    mandatory=["noext", "onebyte_pad", "twobyte_pad", "legacy_flush_pad"],
    rule="every packet of RtpDom x every mutation site TLC derives for it (first/last payload byte, first/last CSRC, last byte of each extension value, "
         "SetExtension of a new and of an existing id, DelExtension of first/last id, padding size) x side (original, clone), for Packet.Clone and Header.Clone; "
         "non-trivial = more than the padding-size site; distinct = distinct (packet, site list)",
    assumptions=RTP_ASSUME,
))


# ---------------------------------------------------------------- C02 / C03
def _py_image(p, rng):
    """Independent (Python) RFC 3550/8285 encoder with random legal freedoms; the judge re-parses
    every such image with the TLA+ reference decoder before using it (oracle_disagrees_with_case)."""
    b = [p["ver"] << 6 | (32 if p["pad"] else 0) | (16 if p["x"] else 0) | len(p["csrc"]), (128 if p["m"] else 0) | p["pt"],
         p["seq"] >> 8, p["seq"] & 255] + p["ts"] + p["ssrc"]
    for c in p["csrc"]:
        b += c
    term = False
    if p["x"]:
        body = []
        if p["profile"] in (0xBEDE, 0x1000):
            for e in p["exts"]:
                body += [0] * rng.choice([0, 0, 1, 2, 5])
                if p["profile"] == 0xBEDE:
                    body += [e["id"] << 4 | (len(e["val"]) - 1)] + e["val"]
                else:
                    body += [e["id"], len(e["val"])] + e["val"]
            if p["profile"] == 0xBEDE and rng.random() < 0.15:
                term = True
                body += [0xF0 | rng.randint(0, 15)] + [rng.randint(1, 255) for _ in range(rng.randint(0, 6))]
                while len(body) % 4:
                    body.append(rng.randint(1, 255))
            while len(body) % 4:
                body.append(0)
            if not term:
                body += [0] * (4 * rng.choice([0, 0, 1, 2]))
        else:
            body = list(p["exts"][0]["val"])
        b += [p["profile"] >> 8, p["profile"] & 255, (len(body) // 4) >> 8, (len(body) // 4) & 255] + body
    n = len(b)
    b += p["payload"]
    if p["pad"]:
        b += [rng.randint(0, 255) for _ in range(p["padsize"] - 1)] + [p["padsize"]]
    return b, n, term


def rand_c03(seed, tier, cases=None):
    rng = random.Random(seed * 7919 + 3)
    out = []
    for words in (16384, 16385, 32768):
        p = _giant_legacy(rng, words)
        img, n, term = _py_image(p, rng)
        out.append(dict(fam="C03", kind="image", bytes=img, prev=[], p=p, n=n, term=False, tags=_ptags(p), **{"class": "giant_legacy_image"}))
    for _ in range(2000 if tier == "quick" else 30000 * TH):
        p = _rand_packet(rng)
        if p["x"] and p["profile"] not in (0xBEDE, 0x1000) and 0x1000 < p["profile"] <= 0x100F:
            p["profile"] = 0x2000  # RFC 8285 appbits: ambiguity the statement does not take a side on
        if p["x"] and p["profile"] == 0xBEDE:
            # id 0 / 15 never appear (SetExtension range); values non-empty
            pass
        img, n, term = _py_image(p, rng)
        t = _ptags(p)
        out.append(dict(fam="C03", kind="image", bytes=img, prev=[], p=p, n=n, term=term, tags=t,
                        **{"class": "rand_image_" + t["layout"] + ("_term" if term else "")}))
    return out


def rand_c02(seed, tier, cases=None):
    rng = random.Random(seed * 7919 + 2)
    base = [c["bytes"] for c in (cases or []) if c.get("bytes")]
    out = []
    n = 3000 if tier == "quick" else 60000 * TH
    for k in range(n):
        mode = rng.random()
        if mode < 0.35 or not base:
            ln = rng.choice([0, 1, 3, 4, 11, 12, 13, 16, 20, rng.randint(0, 80)])
            b = [rng.randint(0, 255) for _ in range(ln)]
            if b and rng.random() < 0.7:
                b[0] = (b[0] & 0x3F) | 0x80
                if rng.random() < 0.5:
                    b[0] |= 0x10
            if len(b) > 16 and rng.random() < 0.5:
                cc = b[0] & 15
                off = 12 + 4 * cc
                if off + 4 <= len(b):
                    pr = rng.choice([[0xBE, 0xDE], [0x10, 0x00], [0x12, 0x34]])
                    b[off:off + 2] = pr
                    b[off + 2:off + 4] = [0, rng.randint(0, 4)]
            cl = "rand_bytes"
        else:
            b = list(rng.choice(base))
            for _ in range(rng.randint(1, 3)):
                if b:
                    i = rng.randrange(len(b))
                    b[i] ^= 1 << rng.randrange(8)
            cl = "rand_bitflip"
        prev = list(rng.choice(base)) if base and rng.random() < 0.8 else [rng.randint(0, 255) for _ in range(rng.randint(0, 40))]
        out.append(dict(fam="C02", kind="bytes", bytes=b, prev=prev if k % 5 else [], prefill=(k % 3 == 0), **{"class": cl}))
    # announced extension lengths at and around the points where arithmetic in a narrower type would wrap (words * 4 passes
    # 2^16 at 0x4000 words): short inputs that announce far more than they hold, with exactly / more than the wrapped
    # amount of bytes behind the length word, and a few whole images with a block of 2^16 bytes and more
    for w in [0x3FFF, 0x4000, 0x4001, 0x4002, 0x4010, 0x7FFF, 0x8000, 0x8001, 0xC000, 0xC003, 0xFFFE, 0xFFFF]:
        wrapped = (w * 4) & 0xFFFF
        for prof in ([0xBE, 0xDE], [0x10, 0x00], [0x12, 0x34]):
            for cc in (0, 2):
                for tail in sorted({0, wrapped, wrapped + 5, 20} if wrapped <= 64 else {0, 20}):
                    b = [0x90 | cc, 96, 0, 7, 0, 0, 0, 1, 0, 0, 0, 2] + [9] * (4 * cc) + prof + [w >> 8, w & 255] + [rng.randint(0, 255) for _ in range(tail)]
                    out.append(dict(fam="C02", kind="bytes", bytes=b, prev=list(rng.choice(base)) if base and rng.random() < 0.5 else [], prefill=False, **{"class": "announced_length"}))
    for w in ([0x4000, 0x4001] if tier == "quick" else [0x4000, 0x4001, 0x8000, 0xFFFF]):
        for prof in ([0x12, 0x34], [0xBE, 0xDE]):
            body = [0] * (4 * w) if prof[0] == 0xBE else [rng.randint(1, 255) for _ in range(4 * w)]
            b = [0x90, 96, 0, 7, 0, 0, 0, 1, 0, 0, 0, 2] + prof + [w >> 8, w & 255] + body + [1, 2, 3]
            out.append(dict(fam="C02", kind="bytes", bytes=b, prev=[], prefill=False, **{"class": "announced_length_whole"}))
    # longer receiver histories: accepted and REJECTED inputs before the judged one (a rejected decode may leave
    # the receiver half-written): whole images, images cut inside the CSRC list / extension block / anywhere, X bit toggled
    for k in range(1500 if tier == "quick" else 30000 * TH):
        if not base:
            break
        def damaged():
            h = list(rng.choice(base))
            m = rng.random()
            if m < 0.3 and len(h) >= 12:
                cc = h[0] & 15
                h = h[:rng.randint(12, 12 + 4 * cc)] if cc else h[:rng.randint(12, len(h))]
            elif m < 0.6:
                h = h[:rng.randint(0, len(h))]
            if h and rng.random() < 0.4:
                h[0] ^= 0x10
            if h and rng.random() < 0.2:
                h[0] = (h[0] & 0xF0) | rng.choice([1, 2, 15])
            return h
        hist = [list(rng.choice(base)) if rng.random() < 0.5 else damaged() for _ in range(rng.randint(1, 3))]
        prev = damaged() if rng.random() < 0.6 else list(rng.choice(base))
        b = list(rng.choice(base)) if rng.random() < 0.8 else damaged()
        out.append(dict(fam="C02", kind="bytes", bytes=b, prev=prev, hist=hist, prefill=(k % 4 == 0), **{"class": "rand_history"}))
    return out


def _cls_prefix(c):
    cl = c.get("class", "")
    parts = cl.split("_")
    return "_".join(parts[:2]) if parts[0] in ("mut", "rand", "image", "view", "trunc", "pair") else cl


C02_CONST_T = {"Fam": '"C02"', "PayLens": "{0, 1, 5}", "PadSizes": "{0, 3}", "CsrcCounts": "{0, 2, 15}", "Stride": "4", "Rich": "TRUE"}
prop(dict(
    id="C02", fam="C02",
    mc=[("RtpMC.tla", "RtpMC.cfg", {"quick": {"KnobSet": '"some"', "PayLens": "{0, 5}", "PadSizes": "{0, 3}", "CsrcCounts": "{0, 2}"},
                                     "thorough": dict(RTP_THOROUGH, KnobSet='"some"')})],
    gen=[("RtpDecGen.tla", "RtpDecGen.cfg", {"thorough": C02_CONST_T})],
    rand=rand_c02, corpus=corpus_decode("C02"),
    trace=("RtpTrace.tla", "RtpTraceC02.cfg"),
    shards={"quick": 4, "thorough": 14},
    workers=16,
    class_of=_cls_prefix,
    nontrivial=lambda c: len(c["bytes"]) >= 12,
    mandatory=["trunc_onebyte", "trunc_noext", "mut_byte0", "mut_exthdr", "mut_extbody", "mut_last", "pair_onebyte", "rand_bytes", "rand_bitflip", "rand_history"],
    rule="TLC derives from RFC-grammar images (RtpWire!Image): every truncation, single-position mutations at structural positions "
         "(byte 0/1, extension header and first 12 body bytes, last byte) over a boundary alphabet, and (earlier, later) pairs; every case is decoded "
         "into a fresh and into a used Packet and Header; seeded random strings, bit-flips and receiver histories of up to four earlier inputs (whole, cut inside the CSRC list or the "
         "extension block, X bit toggled: accepted and rejected ones) are added; non-trivial = at least 12 bytes; distinct = distinct (bytes, prev)",
    assumptions=RTP_ASSUME + ["accept/reject of malformed input is not judged (the statement does not fix it)"],
))

C03_CONST_T = {"Fam": '"C03"', "PayLens": "{0, 1, 5}", "PadSizes": "{0, 1, 7, 255}", "CsrcCounts": "{0, 1, 15}", "Stride": "12", "Rich": "TRUE", "KnobSet": '"some"'}
prop(dict(
    id="C03", fam="C03",
    mc=[("RtpMC.tla", "RtpMC.cfg", {"quick": {"KnobSet": '"some"', "PadSizes": "{0, 1, 7}"},
                                     "thorough": dict(RTP_THOROUGH, KnobSet='"all"', PayLens="{0, 1, 5}", PadSizes="{0, 1, 7, 255}", CsrcCounts="{0, 1, 15}")})],
    gen=[("RtpDecGen.tla", "RtpDecGenC03.cfg", {"thorough": C03_CONST_T})],
    rand=rand_c03, corpus=corpus_decode("C03"),
    trace=("RtpTrace.tla", "RtpTraceC03.cfg"),
    shards={"quick": 4, "thorough": 14},
    workers=16,
    class_of=_cls_prefix,
    nontrivial=lambda c: c.get("kind") != "bytes" or len(c["bytes"]) >= 12,
    mandatory=["image_onebyte", "image_twobyte", "image_legacy", "image_noext", "view_onebyte", "view_twobyte", "view_legacy", "mut_exthdr", "rand_image"],
    rule="TLC enumerates every image RtpWire!Image allows for each packet of RtpDom under the knob set (zero bytes before elements, trailing zero words, "
         "one-byte terminator followed by junk, arbitrary padding fill), each with the value it was built from; standalone-view cases are the extension blocks of "
         "those packets; accepted damaged inputs of the C02 family are re-encoded; a Python RFC encoder adds random images (re-parsed by the TLA+ reference "
         "decoder before use); distinct = distinct case records",
    assumptions=RTP_ASSUME + ["legacy profiles avoid 0x1001-0x100F (RFC 8285 appbits, read as legacy by the library)",
                              "RawExtension.Get(0) may return the block with or without its 4-byte prefix (the statement does not fix the boundary)"],
))


# ---------------------------------------------------------------- C05
C05_T = {"BigIds": "{0, 1, 2, 14, 15, 16, 255}", "BigLens": "{0, 1, 3, 4, 16, 17, 255, 256, 300}", "MidIds": "{0, 1, 2, 15, 16}",
         "MidLens": "{0, 1, 16, 17, 256}", "D1": "2", "D2": "3", "D3": "4"}


def rand_c05(seed, tier, cases=None):
    rng = random.Random(seed * 7919 + 5)
    starts = ["fresh", "onebyte", "twobyte", "legacy", "um_onebyte", "um_twobyte", "um_legacy", "um_dup", "um_onebyte_plain", "um_twobyte_plain"]
    out = []
    for _ in range(4000 if tier == "quick" else 60000 * TH):
        n = rng.randint(1, 10)
        ops = []
        for j in range(n):
            ident = rng.choice([0, 1, 2, 3, 5, 5, 7, 14, 15, 16, 200, 255])
            k = rng.random()
            if k < 0.12:
                ops.append(dict(op="setfrom", id=ident, len=0, salt=j + 1, src=rng.choice([1, 2, 3, 5, 14, 200])))
            elif k < 0.35:
                ops.append(dict(op="del", id=ident, len=0, salt=j + 1, src=0))
            else:
                ops.append(dict(op="set", id=ident, len=rng.choice([0, 1, 2, 3, 4, 8, 15, 16, 17, 32, 100, 255, 256, 300, ident, rng.randint(0, 40)]), salt=j + 1, src=0))
        st = rng.choice(starts)
        out.append(dict(fam="C05", start=st, ops=ops, depth=n, **{"class": st + "_rand"}))
    # long histories: 120 operations on one header (many more elements than any enumerated history builds up)
    for st in starts:
        ops = []
        for j in range(120):
            ident = rng.choice([1, 2, 3, 4, 5, 6, 7, 8, 9, 10, 11, 12, 13, 14, 15, 16, 100, 200, 255])
            if rng.random() < 0.3:
                ops.append(dict(op="del", id=ident, len=0, salt=j % 200 + 1, src=0))
            else:
                ops.append(dict(op="set", id=ident, len=rng.choice([1, 2, 3, 4, 8, 16, rng.randint(1, 16)]), salt=j % 200 + 1, src=0))
        out.append(dict(fam="C05", start=st, ops=ops, depth=len(ops), **{"class": st + "_long_run"}))
    return out


prop(dict(
    id="C05", fam="C05",
    mc=[("RtpHeaderExtMC.tla", "RtpHeaderExtMC.cfg", {"thorough": {"Depth": "3", "Ids": "{0, 1, 2, 14, 15, 16, 255}", "Lens": "{0, 1, 4, 16, 17, 255}"}})],
    gen=[("RtpExtGen.tla", "RtpExtGen.cfg", {"thorough": C05_T})],
    rand=rand_c05,
    trace=("RtpExtTrace.tla", "RtpExtTrace.cfg"),
    shards={"quick": 6, "thorough": 14},
    workers=16,
    class_of=lambda c: c["start"] + "_d" + str(min(c.get("depth", 0), 4)),
    nontrivial=lambda c: len(c["ops"]) >= 1,
    mandatory=["fresh_d1", "onebyte_d2", "twobyte_d2", "legacy_d2", "um_onebyte_d3", "um_twobyte_d3", "um_legacy_d3", "fresh_d3"],
    rule="TLC enumerates every Set/Del history: depth <= D1 over the big alphabet (ids {0,1,2,14,15,16,255} x lengths {0,1,3,4,16,17,255,256,300}), depth D2 over "
         "the mid alphabet, depth D3 over nine selected operations, from seven start states (fresh, preset one-byte/two-byte/legacy, three from Unmarshal); after "
         "every call the harness records GetExtensionIDs/GetExtension over ten probe ids and a Marshal+Unmarshal round trip; seeded random histories of length 1-8 are added; "
         "distinct = distinct (start, op list)",
    assumptions=COMMON_ASSUME + ["profile choice on a fresh header is left to the implementation; wire survival is judged on value content per id (nil and empty are the same value)"],
))


# ---------------------------------------------------------------- C17
def rand_c17(seed, tier, cases=None):
    rng = random.Random(seed * 7919 + 17)
    out = []
    n = 4000 if tier == "quick" else 60000 * TH
    for _ in range(n):
        codec = rng.choice(["audio", "tcc", "playout", "abssend", "abscapture"])
        if rng.random() < 0.5:
            if codec == "audio":
                v = dict(level=rng.randint(0, 255), voice=rng.random() < 0.5)
            elif codec == "tcc":
                v = dict(seq=rng.randint(0, 65535))
            elif codec == "playout":
                v = dict(min=rng.choice([rng.randint(0, 4095), rng.randint(0, 65535)]), max=rng.choice([rng.randint(0, 4095), rng.randint(0, 65535)]))
            elif codec == "abssend":
                v = dict(ts=rng.randint(0, 16777215))
            else:
                h = rng.random() < 0.5
                v = dict(ts=[rng.randint(0, 255) for _ in range(8)], hasoff=h, off=[rng.randint(0, 255) for _ in range(8)] if h else [0] * 8)
            out.append(dict(fam="C17", kind="marshal", codec=codec, v=v, **{"class": codec + "_rand_value"}))
        else:
            size = dict(audio=1, tcc=2, playout=3, abssend=3, abscapture=8)[codec]
            ln = rng.randint(0, 18 if codec == "abscapture" else size + 2)
            prev = [rng.randint(0, 255) for _ in range(rng.choice([0, size, 16, 18]))]
            out.append(dict(fam="C17", kind="unmarshal", codec=codec, bytes=[rng.randint(0, 255) for _ in range(ln)], prev=prev,
                            **{"class": codec + "_rand_bytes"}))
    return out


prop(dict(
    id="C17", fam="C17",
    mc=[("ExtCodecsMC.tla", "ExtCodecsMC.cfg"),
        ("ReceiverMC.tla", "ReceiverMC.cfg", {"thorough": {"MaxSteps": "6"}}), ("ReceiverMC.tla", "ReceiverMC_StaleOptional.cfg", {}, "expect_violation"),
        ("ReceiverMC.tla", "ReceiverMC_StaleList.cfg", {}, "expect_violation"), ("ReceiverMC.tla", "ReceiverMC_CtorShared.cfg", {}, "expect_violation")],
    gen=[("ExtCodecsGen.tla", "ExtCodecsGen.cfg", {"thorough": {"Stride": "1", "Sweep": "TRUE"}})],
    rand=rand_c17,
    trace=("ExtCodecsTrace.tla", "ExtCodecsTrace.cfg"),
    shards={"quick": 1, "thorough": 12},
    workers=16,
    nontrivial=lambda c: True,
    mandatory=["audio_value", "audio_out_of_range", "tcc_value", "playout_value", "playout_out_of_range", "abssend_value", "abscapture_with_offset",
               "abscapture_exact_reused", "abscapture_short", "playout_axis", "audio_axis"],
    rule="TLC enumerates: all 2x256 audio levels; transport-cc values (quick: stride + boundaries, thorough: all 2^16); playout-delay axes (each 12-bit field "
         "with the other at boundary values) plus out-of-range values; abs-send-time byte axes and boundaries; abs-capture-time per-byte axes with and without offset; "
         "decoder inputs of every length 0..size+2 (abs-capture 0..18) x five contents x five earlier inputs (receiver reuse). Thorough adds 2x256 sweep cases, each covering "
         "2^16 points of a 2^24 domain (field separability + round trip counted by the harness, judged = 0). distinct = distinct case records",
    assumptions=COMMON_ASSUME + ["2^24 domains: TLC judges the axes exactly and the harness-counted separability/round-trip violations to be zero (axes-exact and separable => bit-exact on the product)"],
))


# ---------------------------------------------------------------- C19
def rand_c19(seed, tier, cases=None):
    rng = random.Random(seed * 7919 + 19)
    out = []
    for _ in range(5000 if tier == "quick" else 80000 * TH):
        ln = rng.choice([0, 1, 2, 3, 4, 5, 8, rng.randint(0, 40)])
        b = [rng.randint(0, 255) for _ in range(ln)]
        if b and rng.random() < 0.5:
            b[0] &= 0xF0  # per-stream masks
        prev = [rng.randint(0, 255) for _ in range(rng.randint(0, 12))]
        out.append(dict(fam="C19", kind="bytes", bytes=b, prev=prev, tags=dict(ns=0, nlayers=0, shared=False, hasres=False, has_empty_stream=False),
                        **{"class": "rand_bytes"}))
    # every cut of a seeded sample of the valid encodings (the enumerated truncations take every TruncStride-th encoding only):
    # cuts inside the stream masks, the temporal-layer bytes, in the middle of a multi-byte LEB128 bitrate, inside the resolution records
    valid = [c for c in (cases or []) if c.get("kind") == "valid" and str(c.get("class", "")).startswith("ns") and len(c.get("bytes", [])) >= 3]
    rng.shuffle(valid)
    for c in valid[:(150 if tier == "quick" else 1500 * TH)]:
        for cut in range(len(c["bytes"])):
            out.append(dict(fam="C19", kind="bytes", bytes=c["bytes"][:cut], prev=c.get("prev", []), tags=c["tags"], **{"class": "trunc"}))
    return out


prop(dict(
    id="C19", fam="C19",
    mc=[("VLAMC.tla", "VLAMC.cfg", {"thorough": {"MaxNs": "4"}})],
    gen=[("VLAGen.tla", "VLAGen.cfg", {"thorough": {"Stride3": "1", "Stride4": "3", "TruncStride": "11"}})],
    rand=rand_c19,
    trace=("VLATrace.tla", "VLATrace.cfg"),
    shards={"quick": 2, "thorough": 14},
    workers=16,
    nontrivial=lambda c: c["kind"] != "bytes" or len(c["bytes"]) >= 2,
    mandatory=["ns1_shared", "ns2_perstream", "ns2_perstream_res", "ns3_perstream", "ns4_perstream_res", "ns4_shared", "ns3_nolayers", "trunc",
               "invalid_stream_count", "invalid_stream_id", "invalid_spatial_id", "invalid_duplicate", "invalid_temporal_count", "huge_rate", "rand_bytes"],
    rule="TLC enumerates every subset of the (stream, spatial) slots for 1-2 streams and a strided subset for 3-4 streams (thorough: all 4096 for 3, every third of 65536 for 4), "
         "each with and without resolution, temporal counts 1-4 and bitrates rotating through ten LEB128 size classes (0 .. 2^55); EncVLA(v) is the reference encoding used both as the "
         "expected Marshal output and as an independent decoder input (fresh and used receiver); every truncation of a subset of the encodings, invalid values for each rejection rule and "
         "seeded random byte strings feed the decoder; distinct = distinct case records",
    assumptions=COMMON_ASSUME + ["VLAs without any active layer are judged for round trip and panics only (the specification text does not fix their temporal-layer byte)"],
))


# ---------------------------------------------------------------- C18
def rand_c18(seed, tier, cases=None):
    rng = random.Random(seed * 7919 + 18)
    out = []
    n = 4000 if tier == "quick" else 150000 * TH
    for _ in range(n):
        kind = rng.choice(["estimate", "estimate", "capture", "offset"])
        def instant():
            m = rng.random()
            if m < 0.4:
                k = rng.randint(1, 32593413)
                base = 64 * k
                off = rng.choice([-3, -2, -1, 0, 0, 1, 2])
                return [max(0, min(2085978495, base + off)), rng.choice([0, 1, 3814, 3815, 999996185, 999999999, rng.randint(0, 999999999)])]
            return [rng.randint(0, 2085978495), rng.randint(0, 999999999)]
        if kind == "estimate":
            d = rng.choice([[0, rng.randint(0, 5000)], [rng.randint(0, 62), rng.randint(0, 999999999)], [63, rng.randint(0, 999996184)], [63, 999996184 - rng.randint(0, 4000)]])
            t = instant()
            out.append(dict(fam="C18", kind="estimate", send=t, delay=d, **{"class": "rand_estimate"}))
        elif kind == "capture":
            out.append(dict(fam="C18", kind="capture", t=instant(), **{"class": "rand_capture"}))
        else:
            sec = rng.choice([0, 0, rng.randint(0, 100), rng.randint(0, 2147483647)])
            nsec = rng.choice([0, 0, 500000000, rng.randint(0, 999999999), rng.randint(0, 999999999)])
            out.append(dict(fam="C18", kind="offset", d=dict(neg=rng.random() < 0.5, sec=sec, nsec=nsec), **{"class": "rand_offset"}))
    return out


def extra_c18(P, ctx):
    """Advisory symbolic leg: Apalache proves the two round-trip lemmas on the transcription
    NtpTimeApa.tla (unbounded integers); the transcription is bound to the code by exact
    agreement with the raw NTP values recorded at the sampled points. Never a verdict."""
    import json
    import os
    import shutil
    import subprocess
    cov = {"apalache": {"obligations": 2, "discharged": 0, "outcome": "not run"}}
    d = os.path.join(ctx["work"], "apa")
    os.makedirs(d, exist_ok=True)
    shutil.copy(os.path.join(ctx["sdir"], "NtpTimeApa.tla"), d)
    try:
        r = subprocess.run(["apalache-mc", "check", "--init=Init", "--next=Next", "--inv=Inv", "--length=0", "NtpTimeApa.tla"],
                           cwd=d, capture_output=True, text=True, timeout=180)
        ok = "The outcome is: NoError" in r.stdout
        cov["apalache"].update(outcome="NoError" if ok else "not proved", discharged=2 if ok else 0,
                               cmd="apalache-mc check --init=Init --next=Next --inv=Inv --length=0 NtpTimeApa.tla",
                               lemmas=["0 <= t - ToTime(ToNtp(t)) <= 1 for all t in NTP era 0", "0 <= d - FromQ(ToQ(d)) <= 1 for all |d| < 2^31 s"])
    except Exception as e:  # advisory leg
        cov["apalache"]["outcome"] = "error: %r" % (e,)
    # the same two lemmas as a TLAPS proof (the capture-time lemma reduced to the offset lemma by the epoch shift)
    cov["tlaps"] = {"outcome": "not run"}
    try:
        import re
        shutil.copy(os.path.join(ctx["sdir"], "NtpTimeProof.tla"), d)
        r = subprocess.run(["tlapm", "--threads", "8", "NtpTimeProof.tla"], cwd=d, capture_output=True, text=True, timeout=300)
        m = re.search(r"All (\d+) obligations? proved", r.stdout + r.stderr)
        cov["tlaps"] = {"outcome": "all obligations proved" if m else "not proved", "obligations": int(m.group(1)) if m else 0, "cmd": "tlapm --threads 8 NtpTimeProof.tla"}
    except Exception as e:  # advisory leg
        cov["tlaps"]["outcome"] = "error: %r" % (e,)
    # binding: transcription == code on every sampled capture instant
    def to_ntp(ns):
        return ((ns // 10**9) + 2208988800) * 2**32 + ((ns % 10**9) * 2**32) // 10**9
    def to_time(n):
        return ((n // 2**32) - 2208988800) * 10**9 + ((n % 2**32) * 10**9) // 2**32
    pts = mism = 0
    tp = os.path.join(ctx["work"], "trace-main.ndjson")
    if os.path.exists(tp):
        for line in open(tp):
            if '"ev":"capture"' not in line:
                continue
            e = json.loads(line)
            ns = e["t"][0] * 10**9 + e["t"][1]
            raw = 0
            for b in e["ntp"]:
                raw = raw * 256 + b
            back = e["back"][0] * 10**9 + e["back"][1]
            pts += 1
            if to_ntp(ns) != raw or to_time(raw) != back:
                mism += 1
    cov["apalache"].update(binding_points=pts, binding_mismatches=mism,
                           binding="transcription matches the code on all sampled points" if pts and not mism else "MODEL NO LONGER MATCHES THE CODE (advisory leg only)")
    return cov, []


prop(dict(
    id="C18", fam="C18", extra=extra_c18,
    mc=[("NtpTimeMC.tla", "NtpTimeMC.cfg", {"thorough": {"M": "64", "MaxT": "300", "MaxD": "64"}})],
    gen=[("NtpTimeGen.tla", "NtpTimeGen.cfg", {"thorough": {"WrapKs": "{1, 2, 3, 1000, 1001, 13281250, 26562500, 26562501, 30000000, 32593412, 32593413, 32593414}"}})],
    rand=rand_c18,
    trace=("NtpTimeTrace.tla", "NtpTimeTrace.cfg"),
    shards={"quick": 1, "thorough": 12},
    nontrivial=lambda c: True,
    mandatory=["estimate", "estimate_long_delay", "estimate_near_wrap", "estimate_long_delay_near_wrap", "capture", "offset", "offset_negative", "rand_estimate"],
    rule="TLC enumerates instants = 64 s wrap points of the 24-bit field +- {0, 1 ns, 3814-3816 ns, 1 us, 1 s}, whole-second boundaries, epoch and the end of NTP era 0, "
         "x 14 delays spanning [0, 64 s - 2^-18 s), plus capture instants and clock offsets up to +-(2^31 s - 1 ns); seeded random (instant, delay) pairs concentrated around "
         "wrap points are added; the wrap logic itself is model-checked exhaustively on field ticks (NtpTimeMC); distinct = distinct case records",
    assumptions=COMMON_ASSUME + ["the Estimate clause is decided by enumeration around the wrap structure plus the tick-level model, not by proof",
                                 "tolerances: 1 ns for capture time and offset, 3816 ns (2^-18 s + conversion loss) for Estimate, estimate never later than the send instant"],
))


def extra_c07(P, ctx):
    """Advisory symbolic leg: Apalache discharges an inductive invariant of the sequencer as a counter machine with the
    real modulus (SeqInd.tla): after h draws the state is a function of h alone, for every h. Bound to the code by exact
    agreement of the closed form with every hook event of the recorded trace. Never a verdict."""
    import json
    import os
    import shutil
    import subprocess
    cov = {"apalache": {"obligations": 3, "discharged": 0, "outcome": "not run"}}
    d = os.path.join(ctx["work"], "apa")
    os.makedirs(d, exist_ok=True)
    shutil.copy(os.path.join(ctx["sdir"], "SeqInd.tla"), d)
    cmds = [["--init=Init", "--inv=IndInv", "--length=0"], ["--init=IndInit", "--inv=IndInv", "--length=1"], ["--init=IndInit", "--inv=Consequences", "--length=0"]]
    try:
        n = 0
        for c in cmds:
            r = subprocess.run(["apalache-mc", "check", "--cinit=CInit"] + c + ["SeqInd.tla"], cwd=d, capture_output=True, text=True, timeout=300)
            n += "The outcome is: NoError" in r.stdout
        cov["apalache"].update(outcome="NoError" if n == 3 else "not proved", discharged=n,
                               cmd="apalache-mc check --cinit=CInit {--init=Init --inv=IndInv --length=0 | --init=IndInit --inv=IndInv --length=1 | --init=IndInit --inv=Consequences --length=0} SeqInd.tla",
                               lemmas=["Init => IndInv", "IndInv /\\ Draw => IndInv' (unbounded number of draws, modulus 65536)",
                                       "IndInv => the h-th number is (start + h - 1) mod 2^16 and roc * 2^16 + sn = s0 + h"])
    except Exception as e:  # advisory leg
        cov["apalache"]["outcome"] = "error: %r" % (e,)
    # the same invariant as a TLAPS proof (no bound of any kind): Init => IndInv, IndInv /\ [Next]_vars => IndInv', Spec => []IndInv
    cov["tlaps"] = {"outcome": "not run"}
    try:
        shutil.copy(os.path.join(ctx["sdir"], "SeqIndProof.tla"), d)
        r = subprocess.run(["tlapm", "--threads", "8", "SeqIndProof.tla"], cwd=d, capture_output=True, text=True, timeout=300)
        import re
        m = re.search(r"All (\d+) obligations? proved", r.stdout + r.stderr)
        cov["tlaps"] = {"outcome": "all obligations proved" if m else "not proved", "obligations": int(m.group(1)) if m else 0,
                        "cmd": "tlapm --threads 8 SeqIndProof.tla", "theorem": "Spec => []IndInv with IndInv: roc * 2^16 + sn = s0 + h (unbounded number of draws)"}
    except Exception as e:  # advisory leg
        cov["tlaps"]["outcome"] = "error: %r" % (e,)
    pts = mism = 0
    tp = os.path.join(ctx["work"], "trace-main.ndjson")
    if os.path.exists(tp):
        start, h, on = 0, 0, False
        for line in open(tp):
            if '"ev":"reset"' in line:
                e = json.loads(line)
                on = e.get("kind") in ("fixed", "concurrent")      # known start value; roll-over counts are reported relative to a preset
                start, h = e.get("start", 0), 0
            elif on and '"ev":"next"' in line:
                e = json.loads(line)
                h += 1
                s0 = (start + 65535) % 65536
                pts += 1
                if e["v"] != (start + h - 1) % 65536 or e["roc"] != (s0 + h) // 65536:
                    mism += 1
    cov["apalache"].update(binding_points=pts, binding_mismatches=mism,
                           binding="closed form matches every hook event of the trace" if pts and not mism else "MODEL NO LONGER MATCHES THE CODE (advisory leg only)")
    return cov, []


# ---------------------------------------------------------------- C07
prop(dict(
    id="C07", fam="C07", nondeterministic=True, extra=extra_c07,
    mc=[("Sequencer.tla", "Sequencer.cfg", {"thorough": {"N": "3", "Ops": "3", "MOD": "4", "Reads": "1"}}),
        ("Sequencer.tla", "SequencerNoLock.cfg", {}, "expect_violation")],
    gen=[("SeqGen.tla", "SeqGen.cfg", {"thorough": {"Stride": "1", "NRandom": "10000", "ConcOps": "208000", "Gs": "{2, 4, 16}"}})],
    trace=("SeqTrace.tla", "SeqTrace.cfg"),
    shards={"quick": 1, "thorough": 12},
    timeout={"quick": 900, "thorough": 7000},
    nontrivial=lambda c: c["kind"] == "concurrent" or c["start"] >= 65533 or c["kind"] == "random",
    mandatory=["fixed", "fixed_wraps", "random", "random_many", "concurrent_g2", "concurrent_g4", "concurrent_g16", "concurrent_g16_wraps"],
    rule="TLC explores every interleaving of the PlusCal model (N clients x Ops calls + a RollOverCount reader, small modulus) and a lock-free specification mutant must violate it; "
         "on the real code: fixed start values (quick: stride 257 + boundaries, thorough: all 65536) single-threaded, random sequencers, and concurrent runs of 2/4/16 goroutines from "
         "starts {65530, 0, 32767} with RollOverCount readers (thorough: 208000 calls per run, more than three wraps); each run's hook events are replayed as model steps and every client "
         "return is matched to a hook event inside its call window; distinct = distinct case records",
    assumptions=COMMON_ASSUME + ["real schedules are sampled by stress on 16 cores, not enumerated; all interleavings are enumerated on the model only",
                                 "the verif hook in NextSequenceNumber runs inside the critical section (after the change, before unlock)"],
))


# ---------------------------------------------------------------- C06
def rand_c06(seed, tier, cases=None):
    rng = random.Random(seed * 7919 + 6)
    out = []
    for _ in range(1200 if tier == "quick" else 15000 * TH):
        mtu = rng.choice([64, 65, 80, 100, 576, 1200, 1500, rng.randint(64, 2000)])
        ops = []
        for j in range(rng.randint(1, 10)):
            k = rng.random()
            smp = rng.choice([[0, 0, 0, 0], [0, 0, 3, 192], [255, 255, 255, 255], [rng.randint(0, 255) for _ in range(4)]])
            if k < 0.6:
                ops.append(dict(op="packetize", len=max(1, rng.choice([1, mtu - 13, mtu - 12, mtu - 11, mtu - 20, mtu - 21, mtu - 19, 2 * (mtu - 12), rng.randint(1, 4 * mtu), rng.randint(1, 12 * mtu) if mtu < 200 else 77])), salt=j + 1, samples=smp, n=0))
            elif k < 0.75:
                ops.append(dict(op="skip", len=0, salt=0, samples=smp, n=0))
            elif k < 0.9:
                ops.append(dict(op="pad", len=0, salt=0, samples=[0, 0, 0, 0], n=rng.choice([0, 1, 1, 2, 3])))
            else:
                ops.append(dict(op="enable", len=0, salt=0, samples=[0, 0, 0, 0], n=rng.choice([0, 1, 5, 14, 15, 200])))
        out.append(dict(fam="C06", mtu=mtu, pt=rng.randint(0, 127), ssrc=[rng.randint(0, 255) for _ in range(4)],
                        payloader=rng.choice(["g711", "opus", "h264", "vp8", "g722", "vp8pid"]), seqstart=rng.choice([0, 65535, 65530, rng.randint(0, 65535)]),
                        ts0=rng.choice([[255, 255, 255, 255], [255, 255, 250, 0], [rng.randint(0, 255) for _ in range(4)]]), abs0=rng.choice([0, 0, 1, 14, 15]),
                        inst0=[rng.randint(0, 2000000000), rng.randint(0, 511)], ops=ops, depth=len(ops), **{"class": "rand"}))
    # long runs: hundreds of calls on one packetizer (counters far from where they started), and calls that
    # emit hundreds of packets (a unit cut into 300+ fragments)
    for pl, mtu, nops, ln in (("g711", 64, 400, 120), ("vp8pid", 100, 300, 150), ("h264", 80, 300, 100), ("h264", 64, 3, 20000), ("g711", 64, 2, 30000)):
        ops = []
        for j in range(nops):
            smp = [0, 0, 3, 192]
            if j % 37 == 5:
                ops.append(dict(op="skip", len=0, salt=0, samples=smp, n=0))
            elif j % 53 == 7:
                ops.append(dict(op="pad", len=0, salt=0, samples=[0, 0, 0, 0], n=2))
            elif j == 150:
                ops.append(dict(op="enable", len=0, salt=0, samples=[0, 0, 0, 0], n=5))
            else:
                ops.append(dict(op="packetize", len=max(1, ln + (j % 7) - 3), salt=j % 200 + 1, samples=smp, n=0))
        out.append(dict(fam="C06", mtu=mtu, pt=96, ssrc=[1, 2, 3, 4], payloader=pl, seqstart=rng.choice([40000, 65000]), ts0=[255, 255, 0, 0], abs0=0,
                        inst0=[1700000000, 3], ops=ops, depth=len(ops), **{"class": "long_run"}))
    return out


prop(dict(
    id="C06", fam="C06",
    mc=[("PacketizerMC.tla", "PacketizerMC.cfg", {"thorough": {"Depth": "4"}})],
    gen=[("PacketizerGen.tla", "PacketizerGen.cfg", {"thorough": {"Depth": "4", "Mtus": "{64, 100, 576, 1200, 1500}"}})],
    rand=rand_c06,
    trace=("PacketizerTrace.tla", "PacketizerTrace.cfg"),
    shards={"quick": 2, "thorough": 14},
    workers=16,
    nontrivial=lambda c: any(o["op"] == "packetize" for o in c["ops"]),
    mandatory=["d1_mtu64", "d2_mtu100", "d3_mtu1200", "d3_mtu1500", "rand"],
    rule="TLC enumerates every call sequence up to Depth over nine operations (Packetize with payload lengths 1, budget-1, budget, budget+1, 3*budget+1 and sample counts "
         "0/1/960/2^32-1, SkipSamples, GeneratePadding, EnableAbsSendTime) for each MTU; payloader (G711, G722, Opus, H264, VP8 with and without picture id), start sequence number "
         "(incl. 65534/65535), start timestamp (incl. 2^32-1) and initial abs-send-time id rotate through covering rows; the send clock is injected; seeded random call sequences are added; "
         "non-trivial = contains a Packetize call; distinct = distinct case records",
    assumptions=COMMON_ASSUME + ["the packetizer clock and start timestamp are set through verif-tagged accessors",
                                 "the MTU bound is demanded of a packet whose fragment respects the budget the packetizer gave the payloader (Opus ignores the budget by design)"],
))


# ---------------------------------------------------------------- C08
C08_KINDS = ["g711", "g722", "opus", "h264", "h264_nostap", "h265", "h265_donl", "h265_skipagg", "h265_donl_skipagg", "vp8", "vp8pid", "vp9", "vp9_flex", "av1"]
C08_SHAPES = {"h264": ["annexb3", "annexb4", "annexb_mixed", "h264_params", "h264_slice", "h264_sps", "h264_pps"], "h265": ["h265nals", "annexb4", "annexb3"],
              "av1": ["obu", "obu_nosize_last", "obu_ext", "obu_bad", "obu_two"], "vp9": ["vp9_key", "vp9_inter", "vp9_p1", "vp9_p3", "vp9_existing"]}


def _shapes_for(kind):
    base = ["nil", "empty", "pat", "zeros", "ff", "startcodes"]
    for k, v in C08_SHAPES.items():
        if kind.startswith(k):
            return base + v
    return base


def rand_c08(seed, tier, cases=None):
    rng = random.Random(seed * 7919 + 8)
    out = []
    for kind in C08_KINDS:
        for shape in ("pat", _shapes_for(kind)[-1]):
            out.append(dict(fam="C08", kind=kind, scribble=True, calls=[dict(mtu=1200, shape=shape, len=70000, salt=3)], **{"class": kind + "_giant_input"}))
    for _ in range(6000 if tier == "quick" else 80000 * TH):
        kind = rng.choice(C08_KINDS)
        calls = []
        for j in range(rng.choice([1, 1, 2, 3, 5, 7])):
            mtu = rng.choice([rng.randint(0, 40), rng.randint(0, 300), rng.randint(0, 65535), 1200, 1500])
            ln = rng.choice([rng.randint(0, 50), rng.randint(0, 400), rng.randint(0, 3000), 20000 if rng.random() < 0.05 else 7])
            calls.append(dict(mtu=mtu, shape=rng.choice(_shapes_for(kind)), len=ln, salt=rng.randint(0, 200)))
        out.append(dict(fam="C08", kind=kind, scribble=True, calls=calls, **{"class": kind + "_rand"}))
    # long runs: 250 calls on one payloader, and inputs cut into 500+ fragments
    for kind in C08_KINDS:
        shapes = _shapes_for(kind)
        out.append(dict(fam="C08", kind=kind, scribble=True, parallel=True, calls=[dict(mtu=40, shape=shapes[(c * 5) % len(shapes)], len=1 + (c * 13) % 120, salt=c % 200) for c in range(250)], **{"class": kind + "_long_run"}))
        out.append(dict(fam="C08", kind=kind, scribble=True, parallel=True, calls=[dict(mtu=1200, shape=shapes[-1 - c % 2], len=200 + (c * 37) % 3000, salt=c % 200) for c in range(120)], **{"class": kind + "_parallel_instances"}))
        out.append(dict(fam="C08", kind=kind, scribble=True, calls=[dict(mtu=11, shape=shapes[-1], len=6000, salt=2), dict(mtu=11, shape="pat", len=6000, salt=3)], **{"class": kind + "_many_fragments"}))
    # the same access unit (SPS, PPS, slice) again on one H264 payloader while the MTU moves across the size of the STAP-A
    au = [0, 0, 0, 1, 0x67] + [1 + (i * 7) % 250 for i in range(11)] + [0, 0, 0, 1, 0x68, 9, 8, 7, 6, 5] + [0, 0, 0, 1, 0x65] + [1 + (i * 5) % 250 for i in range(29)]
    for first, second in ((1200, 16), (16, 1200), (24, 23), (23, 24)):
        out.append(dict(fam="C08", kind="h264", scribble=True, calls=[dict(mtu=m, shape="raw", len=len(au), salt=0, bytes=au) for m in (first, second, first)], **{"class": "h264_params_again_other_mtu"}))
    # two H264 parameter sets that each fit a 16-bit size field but not together, handed over in separate calls
    for kind in ("h264",):
        mk = lambda t, n: [0, 0, 0, 1, 0x60 | t] + [1 + (i * 7) % 250 for i in range(n - 1)]
        out.append(dict(fam="C08", kind=kind, scribble=True, calls=[dict(mtu=1200, shape="raw", len=33004, salt=0, bytes=mk(7, 33000)), dict(mtu=1200, shape="raw", len=32604, salt=0, bytes=mk(8, 32600)),
                                                                   dict(mtu=1200, shape="raw", len=44, salt=0, bytes=mk(5, 40))], **{"class": kind + "_giant_parameter_sets"}))
    return out


prop(dict(
    id="C08", fam="C08",
    mc=[("PayloaderMC.tla", "PayloaderMC.cfg", {"thorough": {"MaxCalls": "4"}}), ("PayloaderMC.tla", "PayloaderMCAlias.cfg", {}, "expect_violation"),
        ("OwnershipMC.tla", "OwnershipMC.cfg", {"thorough": {"MaxCalls": "4"}}), ("OwnershipMC.tla", "OwnershipMC_Aliasing.cfg", {}, "expect_violation"),
        ("OwnershipMC.tla", "OwnershipMC_SharedResults.cfg", {}, "expect_violation"), ("OwnershipMC.tla", "OwnershipMC_GlobalScratch.cfg", {}, "expect_violation")],
    gen=[("PayloaderGen.tla", "PayloaderGen.cfg", {"thorough": {"Stride": "1", "Lens": "{1, 2, 3, 4, 5, 9, 17, 40, 41, 100, 300, 1300, 20000}"}})],
    rand=rand_c08, corpus=corpus_c08,
    trace=("PayloaderTrace.tla", "PayloaderTrace.cfg"),
    shards={"quick": 2, "thorough": 14},
    workers=16,
    class_of=lambda c: c["class"],
    nontrivial=lambda c: any(x["len"] > 0 and x["shape"] not in ("nil", "empty") for x in c["calls"]),
    mandatory=["g711_mtu_degenerate", "opus_mtu_small", "h264_mtu_degenerate", "h264_history", "h264_params_then_slice", "h265_donl_mtu_small", "h265_history",
               "vp8pid_mtu_degenerate", "vp9_mtu_small", "vp9_flex_mtu_large", "av1_mtu_degenerate", "av1_history", "av1_rand", "h265_rand", "av1_fragment_edge"],
    rule="TLC enumerates (payloader kind x options) x MTU {0..40, 127-129, 255, 256, 1200, 16383-16385, 65535} x input shape (nil, empty, pattern, zeros, 0xFF, start codes and "
         "codec-shaped seeds: Annex-B with 3/4-byte start codes and SPS/PPS, HEVC NAL streams, OBU streams with/without size fields / extension headers / bad sizes, VP9 key/inter/"
         "show-existing headers) x length, thinned by a stride in the quick tier, plus three-call histories and targeted SPS/PPS-across-calls histories; after every call the "
         "caller's buffers are overwritten, returned fragments are re-read and a twin instance fed pristine copies is the oracle for later outputs; seeded random cases are added; "
         "non-trivial = some non-empty input; distinct = distinct case records",
    assumptions=COMMON_ASSUME + ["fragment contents are compared by the harness (facts: input unchanged, fragment unchanged after overwrite, equal to the twin's output); TLC judges lengths and facts"],
))


# ---------------------------------------------------------------- C09
C09_KINDS = ["h264", "h264_avc", "h265", "h265_donl", "vp8", "vp9", "av1", "av1_legacy", "opus", "h265_single", "h265_single_donl", "h265_fu", "h265_fu_donl", "h265_ap", "h265_ap_donl", "h265_paci", "h265_toggle"]


def rand_c09(seed, tier, cases=None):
    rng = random.Random(seed * 7919 + 9)
    out = []
    # the enumerated payloader-output histories (with their edits) again with every receiver in zero-allocation mode
    for c in (cases or []):
        if c.get("src") == "feed" and c.get("kind") in ("vp8", "vp9", "h264", "h264_avc", "h265", "h265_donl", "av1"):
            z = dict(c)
            z["zeroalloc"] = True
            z["class"] = c["class"] + "_zero_allocation"
            z.pop("case", None)
            out.append(z)
    for _ in range(8000 if tier == "quick" else 100000 * TH):
        kind = rng.choice(C09_KINDS)
        items = []
        for j in range(rng.randint(1, 8)):
            ln = rng.choice([0, 1, 2, 3, 4, 5, 8, rng.randint(0, 40), rng.randint(0, 300) if rng.random() < 0.1 else 6])
            b = rbytes(rng, ln)
            if b and rng.random() < 0.6:
                b[0] = rng.choice([0x1C, 0x7C, 0x18, 0x78, 0x62, 0x60, 0x64, 0x90, 0x80, 0xFF, 0xAA, 0x10, 0x50, 0x30, 0x00])
            items.append(b)
        out.append(dict(fam="C09", kind=kind, src="bytes", items=items, probes=True, scribble=True, prefill=(kind in ("vp8", "vp9", "opus") and rng.random() < 0.4),
                        zeroalloc=(kind.split("_")[0] in ("vp8", "vp9", "h264", "h265", "av1") and kind not in ("av1_legacy",) and rng.random() < 0.35), **{"class": kind + "_rand"}))
    # long runs: 300 payloads into one receiver
    for kind in C09_KINDS:
        items = []
        for c in range(300):
            b = rbytes(rng, rng.choice([0, 1, 2, 3, 5, 8, 13, 30]))
            if b and rng.random() < 0.7:
                b[0] = rng.choice([0x1C, 0x7C, 0x18, 0x78, 0x62, 0x60, 0x64, 0x90, 0x80, 0xFF, 0xAA, 0x10, 0x50, 0x30, 0x00, 0x65, 0x26])
            items.append(b)
        out.append(dict(fam="C09", kind=kind, src="bytes", items=items, probes=True, scribble=True, parallel=True, **{"class": kind + "_long_run"}))
        if kind in ("vp8", "vp9", "h264", "h264_avc", "h265", "h265_donl", "av1"):
            out.append(dict(fam="C09", kind=kind, src="bytes", items=items, probes=True, scribble=True, zeroalloc=True, **{"class": kind + "_long_run_zero_allocation"}))
    return out


prop(dict(
    id="C09", fam="C09",
    mc=[("PayloaderMC.tla", "PayloaderMC.cfg", {"thorough": {"MaxCalls": "4"}}), ("PayloaderMC.tla", "PayloaderMCAlias.cfg", {}, "expect_violation"),
        ("OwnershipMC.tla", "OwnershipMC.cfg", {"thorough": {"MaxCalls": "4"}}), ("OwnershipMC.tla", "OwnershipMC_Aliasing.cfg", {}, "expect_violation"),
        ("OwnershipMC.tla", "OwnershipMC_SharedResults.cfg", {}, "expect_violation"), ("OwnershipMC.tla", "OwnershipMC_GlobalScratch.cfg", {}, "expect_violation"),
        ("ReceiverMC.tla", "ReceiverMC.cfg", {"thorough": {"MaxSteps": "6"}}), ("ReceiverMC.tla", "ReceiverMC_StaleOptional.cfg", {}, "expect_violation"),
        ("ReceiverMC.tla", "ReceiverMC_StaleList.cfg", {}, "expect_violation"), ("ReceiverMC.tla", "ReceiverMC_CtorShared.cfg", {}, "expect_violation")],
    gen=[("DepacketizerGen.tla", "DepacketizerGen.cfg", {"thorough": {"Stride": "1", "Sweep": "TRUE", "All2": "TRUE",
                                                                        "Alpha3": "{0, 1, 2, 24, 28, 29, 48, 49, 50, 64, 96, 98, 100, 127, 128, 129, 144, 156, 192, 224, 240, 248, 254, 255}"}})],
    rand=rand_c09, corpus=corpus_c09,
    trace=("DepacketizerTrace.tla", "DepacketizerTrace.cfg"),
    shards={"quick": 6, "thorough": 14},
    workers=16,
    timeout={"quick": 1200, "thorough": 10000},
    class_of=lambda c: c["class"],
    nontrivial=lambda c: c.get("src") != "bytes" or any(len(i) > 0 for i in c.get("items", [])),
    mandatory=["h264_bytes1", "h264_avc_bytes2_warm", "h265_bytes3", "h265_donl_bytes2_warm", "vp8_bytes2_warm", "vp9_bytes3_warm", "av1_bytes2", "av1_legacy_bytes2",
               "opus_bytes0", "h264_feed_drop", "av1_feed_mut", "vp9_feed", "h265_donl_feed_trunc", "vp9_rand"],
    rule="TLC enumerates, for each of sixteen receivers (H264 Annex-B/AVC, H265Packet with/without DONL and the public H265 single/FU/aggregation/PACI packet types, VP8, VP9, AV1Depacketizer, AV1Packet+frame assembler, Opus): the empty string, all 256 one-byte "
         "strings, two-byte strings (quick: 24-value boundary alphabet squared, thorough: all 65536) and three-byte strings over a boundary alphabet, each alone and between two 'warm' payloads that "
         "set every field of the receiver; payloader outputs (all matching payloaders, shapes, MTUs 5/12/20/100) with no edit and every single edit (nil, empty, drop, duplicate, truncate, mutate first "
         "bytes) as multi-packet histories; IsPartitionHead/IsPartitionTail are interleaved; every earlier input buffer is overwritten after each call; thorough adds 16 x 256 sweep cases covering all "
         "2^24 three-byte strings for the panic clause; seeded random sequences are added; distinct = distinct case records",
    assumptions=COMMON_ASSUME + ["on an error result only error-ness is compared; metadata is compared on success only",
                                 "the AV1Packet + frame assembler path is judged for panics only (the statement asks ownership of H264Packet and AV1Depacketizer)"],
))


# ---------------------------------------------------------------- C11
def rand_c11(seed, tier, cases=None):
    rng = random.Random(seed * 7919 + 11)
    out = [dict(fam="C11", kind="payload", valid=True, mtu=1200, pidon=True, startid=300, frames=[dict(len=70000, salt=3, fillv=-1)], **{"class": "giant_frame"})]
    for _ in range(1500 if tier == "quick" else 20000 * TH):
        mtu = rng.choice([5, 6, 7, 9, 13, 50, 200, 1200, rng.randint(5, 1500)])
        frames = [dict(len=rng.choice([1, 2, mtu - 4, mtu - 3, mtu - 1, mtu, mtu + 1, 2 * mtu, rng.randint(1, 3 * mtu), rng.randint(1, 15 * mtu) if mtu < 150 else 300,
                                       rng.choice([1, 2, 3, 4]) * mtu - rng.randint(0, 14)]), salt=rng.randint(0, 200), fillv=rng.choice([-1, -1, -1, 255, 0, rng.randint(0, 255)])) for _ in range(rng.randint(1, 9))]
        for f in frames:
            f["len"] = max(1, f["len"])
            if rng.random() < 0.12:
                f["len"] = 0          # a call that emits nothing
            if rng.random() < 0.15:
                f["pidon"] = rng.random() < 0.5   # the application flips EnablePictureID
        out.append(dict(fam="C11", kind="payload", valid=True, mtu=mtu, pidon=rng.random() < 0.7, startid=rng.choice([0, 1, 120, 126, 127, 128, 300, 32760, 32766, 32767, rng.randint(0, 32767)]),
                        frames=frames, **{"class": "rand_payload"}))
    # long runs: 400 frames on one payloader (picture id crosses 127/128 and wraps), and frames cut into 600+ packets
    for pid, start in ((True, 0), (True, 32500), (False, 0)):
        out.append(dict(fam="C11", kind="payload", valid=True, mtu=20, pidon=pid, startid=start,
                        frames=[dict(len=1 + (j * 13) % 60, salt=j % 200, fillv=-1) for j in range(400)], **{"class": "long_run"}))
    out.append(dict(fam="C11", kind="payload", valid=True, mtu=12, pidon=True, startid=126, frames=[dict(len=6000, salt=4, fillv=-1), dict(len=5, salt=5, fillv=-1)], **{"class": "many_fragments"}))
    # one frame of about 17 MB (beyond 2^24 bytes) through payloader and receiver (lengths and equality facts only)
    for mtu in (65535, 1200):
        out.append(dict(fam="C11", kind="huge", huge=17000000, mtu=mtu, valid=True, bytes=[], **{"class": "huge_frame_17MB"}))
    # the picture id taken through more than a full cycle the honest way (33 000 one-packet frames, no preset)
    out.append(dict(fam="C11", kind="payload", valid=True, mtu=20, pidon=True, startid=0, frames=[dict(len=1 + j % 3, salt=j % 200, fillv=-1) for j in range(33000)], **{"class": "full_cycle"}))
    return out


prop(dict(
    id="C11", fam="C11",
    mc=[("VP8MC.tla", "VP8MC.cfg", {"thorough": {"Rich": "TRUE"}})],
    gen=[("VP8Gen.tla", "VP8Gen.cfg", {"thorough": {"Rich": "TRUE", "Mtus": "{5, 6, 7, 8, 9, 10, 11, 12, 100, 1200}"}})],
    rand=rand_c11,
    trace=("VP8Trace.tla", "VP8Trace.cfg"),
    shards={"quick": 2, "thorough": 12},
    workers=16,
    nontrivial=lambda c: c["kind"] == "payload" or len(c["bytes"]) >= 2,
    mandatory=["desc_basic", "desc_ext", "desc_ext_pid7", "desc_ext_pid15", "trunc_descriptor", "trunc_payload", "payload_pid_small_mtu", "payload_nopid_small_mtu",
               "payload_pid_large_mtu", "rand_payload"],
    rule="TLC enumerates all 2^8 X/N/S/I/L/T/K/M flag combinations x boundary field values (PictureID 0/127/128/32767..., TL0PICIDX 0/255, TID/Y/KEYIDX octets, reserved bits set) "
         "x 0/1/5 payload bytes, and every truncation of each descriptor; payloader histories of three frames with lengths around the fragment budget x MTU {5..12, 1200} x picture-id "
         "mode x start id {0,1,126,127,128,129,32766,32767} (start id set through the verif accessor); seeded random histories are added; distinct = distinct case records",
    assumptions=COMMON_ASSUME + ["picture id 0 is accepted in absent or 7-bit form (not observably different through VP8Packet)",
                                 "the payloader's start picture id is set through a verif-tagged accessor"],
))


# ---------------------------------------------------------------- C10 / C15
def _nal(t, nri, n, rng):
    """A NAL unit whose body may contain zeros and ones in any arrangement that is legal inside a
    NAL unit (never 00 00 00/01/02, no trailing zero)."""
    if rng.random() < 0.35:
        body = [rng.choice([0, 0, 1, 1, 2, 3, 255, rng.randint(0, 255)]) for _ in range(n - 1)]
    else:
        body = [rng.randint(1, 255) for _ in range(n - 1)]
        for i in range(len(body) - 1):
            if rng.random() < 0.08:
                body[i] = 0
    for i in range(2, len(body)):
        if body[i - 2] == 0 and body[i - 1] == 0 and body[i] <= 2:
            body[i] = 3
    # the first body byte follows the NAL header byte (non-zero), the last must not be zero
    if body and body[-1] == 0:
        body[-1] = 7
    return [nri << 5 | t] + body


def rand_c10(seed, tier, cases=None):
    rng = random.Random(seed * 7919 + 10)
    out = []
    # one unit longer than 65535 bytes (the AVC length prefix has four bytes)
    big = [0x65] + [(i * 7) % 250 + 1 for i in range(70000 - 1)]
    out.append(dict(fam="C10", kind="payloader", mtu=1500, stapa=True, calls=[dict(units=[big], scs=[4])], **{"class": "giant_unit"}))
    # two generations of parameter sets where the second pair is a re-split of the first pair's serialised
    # form (prefix of the old SPS; new PPS ends with the old PPS and embeds its length field): contents that
    # mimic the framing, same combined length or not
    for k in (1, 2, 3, 4):
        for j in (1, 2):
            for n2 in (4, 260):
                sps1 = _nal(7, 3, rng.randint(6, 12), rng)
                sps1[-1] = 0x68
                pps1 = _nal(8, 3, n2, rng)
                sps2 = sps1[:len(sps1) - k]
                pps2 = [0x68] * j + [len(pps1) >> 8, len(pps1) & 255] + pps1
                idr = _nal(5, 3, 20, rng)
                out.append(dict(fam="C10", kind="payloader", mtu=1200, stapa=True,
                                calls=[dict(units=[sps1, pps1, idr], scs=[4, 4, 4]), dict(units=[sps2, pps2, idr], scs=[4, 4, 4]), dict(units=[sps1, pps1, idr], scs=[3, 3, 3])],
                                **{"class": "params_resplit_generations"}))
    for _ in range(2000 if tier == "quick" else 20000 * TH):
        mtu = rng.choice([3, 4, 5, 6, 9, 17, 33, 100, 1200, rng.randint(3, 300)])
        stap = rng.random() < 0.6
        calls = []
        pending = []
        for _c in range(rng.randint(1, 3)):
            units, scs = [], []
            for _u in range(rng.randint(1, 3)):
                k = rng.random()
                if k < 0.2 and not pending:
                    a, b = _nal(7, 3, rng.randint(2, mtu + 3), rng), _nal(8, 3, rng.randint(2, mtu + 3), rng)
                    pair = [a, b] if rng.random() < 0.5 else [b, a]
                    units.append(pair[0]); scs.append(rng.choice([3, 4]))
                    pending = [pair[1]]
                    continue
                if pending:
                    units.append(pending.pop()); scs.append(rng.choice([3, 4]))
                    continue
                t = rng.choice([1, 5, 6, 9, 12, 23, 1, 5])
                units.append(_nal(t, rng.randint(0, 3), rng.choice([2, 3, mtu - 1, mtu, mtu + 1, 2 * mtu, rng.randint(2, 3 * mtu + 2), rng.randint(2, 14 * mtu) if mtu < 120 else 77]), rng)); scs.append(rng.choice([3, 4]))
            calls.append(dict(units=units, scs=scs))
        if pending:
            calls.append(dict(units=[pending.pop(), _nal(5, 2, 6, rng)], scs=[3, 3]))
        out.append(dict(fam="C10", kind="payloader", mtu=mtu, stapa=stap, calls=calls, **{"class": "rand_payloader"}))
    # one NAL unit of about 17 MB (beyond 2^24 bytes) through payloader and receiver (lengths and equality facts only)
    for mtu in (65535, 1200):
        out.append(dict(fam="C10", kind="huge", huge=17000000, mtu=mtu, stapa=True, calls=[], **{"class": "huge_unit_17MB"}))
    # two parameter sets that each fit a 16-bit size field but not together (sum beyond 65535), in one call and across calls
    sps_big, pps_big = _nal(7, 3, 33000, rng), _nal(8, 3, 32600, rng)
    out.append(dict(fam="C10", kind="payloader", mtu=1200, stapa=True, calls=[dict(units=[sps_big, pps_big, _nal(5, 3, 40, rng)], scs=[4, 4, 4])], **{"class": "giant_parameter_sets"}))
    out.append(dict(fam="C10", kind="payloader", mtu=1200, stapa=True, calls=[dict(units=[sps_big], scs=[4]), dict(units=[pps_big], scs=[4]), dict(units=[_nal(1, 2, 40, rng)], scs=[3])],
                    **{"class": "giant_parameter_sets"}))
    # the MTU is an argument of every call: the same (and a changed) parameter-set pair again while the MTU moves across the
    # size of their STAP-A, in both directions
    for first, second in ((1200, 16), (16, 1200), (1200, 30), (24, 23), (23, 24)):
        for same in (True, False):
            sps, pps = _nal(7, 3, 12, rng), _nal(8, 3, 6, rng)
            sps2, pps2 = (sps, pps) if same else (_nal(7, 3, 12, rng), pps)
            out.append(dict(fam="C10", kind="payloader", mtu=first, stapa=True,
                            calls=[dict(units=[sps, pps, _nal(5, 3, 30, rng)], scs=[4, 4, 4], mtu=first), dict(units=[sps2, pps2, _nal(5, 3, 30, rng)], scs=[4, 4, 4], mtu=second),
                                   dict(units=[sps, pps, _nal(1, 2, 9, rng)], scs=[3, 3, 3], mtu=first)], **{"class": "params_again_other_mtu"}))
    # DisableStapA is a plain field: the application flips it between calls (parameter sets seen in one mode, the next unit in the other)
    for order in ((False, True), (True, False), (False, True, False), (True, False, True)):
        for split in (True, False):
            sps, pps = _nal(7, 3, 10, rng), _nal(8, 3, 5, rng)
            calls = []
            for j, mode in enumerate(order):
                units = ([sps, pps] if (j == 0 or not split) else []) + [_nal(5 if j % 2 == 0 else 1, 2, 25, rng)]
                calls.append(dict(units=units, scs=[4] * len(units), stapa_now=mode))
            out.append(dict(fam="C10", kind="payloader", mtu=1200, stapa=order[0], calls=calls, **{"class": "stapa_option_flipped"}))
    # a unit cut into 800 fragments, and 300 calls on one payloader (parameter sets now and then)
    out.append(dict(fam="C10", kind="payloader", mtu=7, stapa=True, calls=[dict(units=[_nal(5, 3, 4000, rng), _nal(1, 2, 9, rng)], scs=[4, 3])], **{"class": "many_fragments"}))
    for stap in (True, False):
        calls = []
        for j in range(300):
            if j % 50 == 10:
                calls.append(dict(units=[_nal(7, 3, 9 + j % 5, rng), _nal(8, 3, 5, rng), _nal(5, 3, 30 + j % 40, rng)], scs=[4, 4, 4]))
            else:
                calls.append(dict(units=[_nal(1, 2, 3 + (j * 7) % 70, rng)], scs=[3 + j % 2]))
        out.append(dict(fam="C10", kind="payloader", mtu=40, stapa=stap, calls=calls, **{"class": "long_run"}))
    return out


prop(dict(
    id="C10", fam="C10",
    mc=[("H264MC.tla", "H264MC.cfg", {"thorough": {"Sizes": "{2, 3, 5, 6, 7, 8, 9, 12, 13, 14, 21}"}}), ("H264MC.tla", "H264MCNoResync.cfg", {}, "expect_violation")],
    gen=[("H264Gen.tla", "H264Gen.cfg", {"thorough": {"Rich": "TRUE", "Mtus": "{3, 4, 5, 6, 7, 8, 16, 40, 100, 1200}"}})],
    rand=rand_c10, corpus=corpus_nal("C10", "h264"),
    trace=("H264Trace.tla", "H264Trace.cfg"),
    shards={"quick": 2, "thorough": 12},
    workers=16,
    nontrivial=lambda c: True,
    mandatory=["one_unit_fragmented", "one_unit_single", "one_unit_single_param", "one_unit_fragmented_dropped", "params_one_call", "params_across_calls",
               "params_across_calls_stap_exceeds_mtu", "params_with_aud_filler", "params_one_call_nostap", "decoder_stap", "decoder_fu4", "decoder_fu_empty_fragments", "rand_payloader", "params_resplit_generations"],
    rule="TLC enumerates payloader scenarios: one unit of every type {1,5,6,7,8,9,12,23} x sizes {2,3,MTU-2..MTU+2,2MTU-3..2MTU,3MTU} x MTU {3,4,5,8,16,40,1200} x StapA on/off; SPS/PPS "
         "pairs (either order) and a slice in one call, split over two and three calls, and with AUD/filler around them, with sizes that make the STAP-A fit or exceed the MTU; decoder streams "
         "from the independent encoder (singles, STAP-A groupings, FU-A with 2/4 fragments, empty fragments, one-byte tail); every payloader output is also fed to real Annex-B and AVC receivers; "
         "seeded random scenarios are added; distinct = distinct case records",
    assumptions=COMMON_ASSUME + ["unit bodies are legal NAL contents: never 00 00 00/01/02 inside and no trailing zero (Annex-B well-formedness the splitter relies on); parameter sets come as SPS/PPS pairs"],
))

def rand_c15(seed, tier, cases=None):
    """Loss histories the enumerated frames do not reach: an abandoned unit of 100 000 bytes (more than
    64 KiB buffered), with every fragment but the last / but the first delivered (mask -1 / -2)."""
    out = []
    for kind, pk, shape in (("h264", "h264", "h264_slice"), ("h264_avc", "h264", "h264_slice"), ("av1", "av1", "obu_frame_only")):
        for mask in (-1, -2):
            out.append(dict(fam="C15", kind=kind, a=dict(src="feed", feed=dict(pkind=pk, shape=shape, len=100000, salt=1, mtu=1200)), mask=mask, garbage=[], after=[],
                            b=dict(src="feed", feed=dict(pkind=pk, shape=shape, len=3000, salt=2, mtu=1200)), wellformed_b=True, **{"class": kind + "_giant_abandoned_unit"}))
    # an abandoned unit of 4.3 MB (more than 4 MiB buffered before the next frame begins)
    for kind, pk, shape in (("h264", "h264", "h264_slice"), ("av1", "av1", "obu_frame_only")):
        out.append(dict(fam="C15", kind=kind, a=dict(src="feed", feed=dict(pkind=pk, shape=shape, len=4300000, salt=1, mtu=1200)), mask=-1, garbage=[], after=[],
                        b=dict(src="feed", feed=dict(pkind=pk, shape=shape, len=3000, salt=2, mtu=1200)), wellformed_b=True, **{"class": kind + "_huge_abandoned_unit"}))
        out.append(dict(fam="C15", kind=kind, a=dict(src="feed", feed=dict(pkind=pk, shape=shape, len=17000000, salt=1, mtu=65535)), mask=-1, garbage=[], after=[],
                        b=dict(src="feed", feed=dict(pkind=pk, shape=shape, len=3000, salt=2, mtu=1200)), wellformed_b=True, **{"class": kind + "_huge_abandoned_unit"}))
    # the bytes retained from an abandoned unit end just below a power of two (2^20 .. 2^26: 16 .. 1024 fragments of 65533 bytes
    # delivered, the small last one lost) and the next frame opens with a 65533-byte start fragment
    # ... and just below every whole number of MiB up to 64 (a reassembly bound is most likely a round number)
    for k in range(1, 65):
        m = (k << 20) // 65533
        out.append(dict(fam="C15", kind="h264", a=dict(src="feed", feed=dict(pkind="h264", shape="h264_slice", len=m * 65533 + 101, salt=1, mtu=65535)), mask=-1, garbage=[], after=[],
                        b=dict(src="feed", feed=dict(pkind="h264", shape="h264_slice", len=70000, salt=2, mtu=65535)), wellformed_b=True, **{"class": "h264_retained_just_below_k_MiB"}))
    for n in ((20, 22, 24) if tier == "quick" else (20, 21, 22, 23, 24, 25, 26)):
        out.append(dict(fam="C15", kind="h264", a=dict(src="feed", feed=dict(pkind="h264", shape="h264_slice", len=(1 << (n - 16)) * 65533 + 101, salt=1, mtu=65535)), mask=-1, garbage=[], after=[],
                        b=dict(src="feed", feed=dict(pkind="h264", shape="h264_slice", len=70000, salt=2, mtu=65535)), wellformed_b=True, **{"class": "h264_retained_just_below_2_%d" % n}))
    return out


prop(dict(
    id="C15", fam="C15", rand=rand_c15,
    mc=[("H264MC.tla", "H264MC.cfg", {}), ("H264MC.tla", "H264MCNoResync.cfg", {}, "expect_violation"),
        ("AV1LossMC.tla", "AV1LossMC.cfg", {"thorough": {"Sizes": "{1, 4, 5, 9, 10, 14, 19, 24}"}}), ("AV1LossMC.tla", "AV1LossMCNoResync.cfg", {}, "expect_violation")],
    gen=[("LossGen.tla", "LossGen.cfg", {"thorough": {"MaxA": "10", "Rich": "TRUE"}})],
    trace=("LossTrace.tla", "LossTrace.cfg"),
    shards={"quick": 2, "thorough": 14},
    workers=16,
    nontrivial=lambda c: c["mask"] not in (0,),
    mandatory=["h264_giant_abandoned_unit", "av1_giant_abandoned_unit", "h264_fu2_a", "h264_fu3_a", "h264_fu5_a", "h264_fu5_a_garbage", "h264_unfragmented_a", "av1_real_payloader", "av1_real_payloader_garbage", "h264_real_payloader", "h264_avc_real_payloader"],
    rule="TLC enumerates every delivered subset (mask) of frame A's packets (up to MaxA = 6 quick / 10 thorough packets) x frame A shapes (FU-A of 2/3/5/MaxA fragments, single, STAP-A, "
         "two fragmented units) x garbage prefixes x intact frame B shapes (FU-A, single, STAP-A + FU-A) for H264 in Annex-B and AVC mode from the independent encoder, and the same masks "
         "over frames produced by the real AV1 and H264 payloaders; the loss invariant is model-checked on the reference receiver and a no-resync specification mutant must violate it; "
         "non-trivial = at least one packet of frame A delivered; distinct = distinct case records",
    assumptions=COMMON_ASSUME + ["the oracle is the statement's: a fresh real depacketizer fed frame B only"],
))


# ---------------------------------------------------------------- C12
def rand_c12(seed, tier, cases=None):
    rng = random.Random(seed * 7919 + 12)
    out = []
    for flex in (True, False):
        hdr = dict(profile=0, existing=False, idx=0, nonkey=False, show=True, errres=False, deep=False, cs=2, range=False, ssx=True, ssy=True, w=1280, h=720)
        out.append(dict(fam="C12", kind="payload", valid=True, mtu=1200, flexible=flex, startid=300, frames=[dict(hdr=hdr, body=70000, salt=5, fillv=-1)], **{"class": "giant_frame"}))
    for _ in range(1200 if tier == "quick" else 15000 * TH):
        mtu = rng.choice([12, 13, 15, 20, 64, 200, 1200, rng.randint(12, 1500)])
        frames = []
        for n in range(rng.randint(1, 8)):
            pr = rng.randint(0, 3)
            hdr = dict(profile=pr, existing=rng.random() < 0.12, idx=rng.randint(0, 7), nonkey=rng.random() < 0.5, show=rng.random() < 0.5, errres=rng.random() < 0.5, deep=rng.random() < 0.5,
                       cs=rng.randint(0, 7), range=rng.random() < 0.5, ssx=rng.random() < 0.5, ssy=rng.random() < 0.5,
                       w=rng.choice([1, 2, 640, 1920, 65535, rng.randint(1, 65535)]), h=rng.choice([1, 480, 1080, 65535, rng.randint(1, 65535)]))
            frames.append(dict(hdr=hdr, body=rng.choice([0, 1, mtu - 12, mtu - 3, mtu, 2 * mtu, rng.randint(0, 3 * mtu), rng.randint(0, 14 * mtu) if mtu < 150 else 40,
                                                    rng.choice([1, 2, 3, 4]) * mtu - rng.randint(0, 30)]), salt=rng.randint(0, 200), fillv=rng.choice([-1, -1, 255, 0, rng.randint(0, 255)])))
        for f in frames:
            f["body"] = max(0, f["body"])
        out.append(dict(fam="C12", kind="payload", valid=True, mtu=mtu, flexible=rng.random() < 0.5, startid=rng.choice([0, 32767, 32766, rng.randint(0, 32767), -1]),      # -1: the payloader's own default start (no InitialPictureIDFn)
                        frames=frames, **{"class": "rand_payload"}))
    # one frame of about 17 MB (beyond 2^24 bytes) through payloader and receiver (lengths and equality facts only)
    for flex in (True, False):
        for mtu in (65535, 1200):
            out.append(dict(fam="C12", kind="huge", huge=17000000, mtu=mtu, flexible=flex, valid=True, **{"class": "huge_frame_17MB"}))
    for flex in (True, False):
        hk = dict(profile=0, existing=False, idx=0, nonkey=False, show=True, errres=False, deep=False, cs=2, range=False, ssx=True, ssy=True, w=640, h=480)
        hn = dict(hk, nonkey=True)
        out.append(dict(fam="C12", kind="payload", valid=True, mtu=40, flexible=flex, startid=32500,
                        frames=[dict(hdr=hk if j % 60 == 0 else hn, body=1 + (j * 11) % 90, salt=j % 200, fillv=-1) for j in range(400)], **{"class": "long_run"}))
        out.append(dict(fam="C12", kind="payload", valid=True, mtu=20, flexible=flex, startid=5,
                        frames=[dict(hdr=hk, body=6000, salt=4, fillv=-1), dict(hdr=hn, body=5, salt=5, fillv=-1)], **{"class": "many_fragments"}))
    return out


prop(dict(
    id="C12", fam="C12",
    mc=[("VP9MC.tla", "VP9MC.cfg")],
    gen=[("VP9Gen.tla", "VP9Gen.cfg", {"thorough": {"TruncStride": "3", "Mtus": "{12, 13, 14, 15, 16, 20, 100, 1200}"}})],
    rand=rand_c12,
    trace=("VP9Trace.tla", "VP9Trace.cfg"),
    shards={"quick": 2, "thorough": 12},
    workers=16,
    nontrivial=lambda c: True,
    mandatory=["desc", "desc_ss", "desc_ss_refs_layer_pid", "trunc_descriptor", "trunc_payload", "header_key_p0", "header_key_p3", "header_inter_p1", "header_show_existing_p2",
               "header_key_p1_65536", "payload_flexible_small_mtu", "payload_nonflexible_small_mtu", "payload_nonflexible_large_mtu", "rand_payload"],
    rule="TLC enumerates all 256 descriptor flag bytes x 20 field variants (7/15-bit picture ids at boundaries, layer indices with SID 0-4, 1-3 reference indices, five scalability-structure "
         "variants incl. N_S = 7, resolutions 65535, picture groups with 0-3 P_DIFFs, reserved bits set) with and without payload, every truncation of a strided subset; bit-level uncompressed "
         "headers for profiles 0-3 x colour spaces 0-7 x bit depth x subsampling x six sizes (1x1 .. 65536x65536) x key/inter/show-existing for vp9.Header; payloader histories of three frames "
         "(key, inter, key) in both modes x MTU x start picture id {0,1,32766,32767} (via InitialPictureIDFn) x body lengths around the fragment budget; seeded random histories are added",
    assumptions=COMMON_ASSUME + ["layer indices use SID 0-4 (the library rejects SID >= 5 as too many spatial layers; the VP9 bitstream allows at most five)",
                                 "a coded size of 65536 does not fit the 16-bit SS fields: excluded from the equality clause (stated limit)",
                                 "payloader frames carry harness-packed header bits (same layout as VP9!HeaderBits, which TLC uses for the header cases)"],
))


# ---------------------------------------------------------------- C14
def rand_c14(seed, tier, cases=None):
    rng = random.Random(seed * 7919 + 14)
    out = []
    def unit(t, n):
        return [t << 1, 1] + [(i * 7) % 250 + 1 for i in range(n - 2)]
    for mtu, units in ((1200, [unit(32, 24), unit(19, 66236)]), (1200, [unit(19, 70000)]), (65535, [unit(1, 65536)]), (65535, [unit(33, 9), unit(1, 65534)]),
                       (65535, [unit(32, 33000), unit(33, 32600), unit(19, 40)]), (65535, [unit(32, 30000), unit(33, 30000), unit(19, 5000)])):
        out.append(dict(fam="C14", kind="payload", valid=True, mtu=mtu, donl=False, skipagg=False, calls=[dict(units=units, scs=[4] * len(units))], **{"class": "giant_unit"}))
    for _ in range(2000 if tier == "quick" else 20000 * TH):
        mtu = rng.choice([4, 5, 6, 7, 9, 13, 20, 50, 100, 1200, rng.randint(4, 300)])
        units = []
        for _u in range(rng.randint(1, 7)):
            t = rng.choice([0, 1, 19, 20, 32, 33, 34, 39, 40, 47, rng.randint(0, 47)])
            n = rng.choice([3, 4, mtu - 3, mtu - 2, mtu - 1, mtu, mtu + 1, 2 * mtu, rng.randint(3, 3 * mtu + 3), rng.randint(3, 12 * mtu) if mtu < 150 else 77])
            n = max(3, n)
            layer, tid = rng.randint(0, 63), rng.choice([0, 1, 1, 2, 3, 7, rng.randint(0, 7)])      # every value of the 3-bit field, 0 included
            # (units with the F bit set are not generated: H265Packet refuses every payload whose header carries F = 1, so such a
            # unit cannot take part in the round trip the statement describes)
            units.append([t << 1 | layer >> 5, (layer & 31) << 3 | tid] + [rng.randint(1, 255) for _ in range(n - 2)])
        out.append(dict(fam="C14", kind="payload", valid=True, mtu=mtu, donl=rng.random() < 0.3, skipagg=rng.random() < 0.4,
                        calls=[dict(units=units, scs=[rng.choice([3, 4]) for _ in units])], **{"class": "rand_payload"}))
    # SkipAggregation is a plain field: the application flips it between calls
    for order in ((False, True, False), (True, False, True)):
        calls = [dict(units=[unit(32, 6), unit(33, 5), unit(19, 20 + j)], scs=[4, 4, 4], skipagg_now=m) for j, m in enumerate(order)]
        out.append(dict(fam="C14", kind="payload", valid=True, mtu=100, donl=False, skipagg=order[0], calls=calls, **{"class": "skipagg_option_flipped"}))
    # ... and so is AddDONL: every call fragments one unit and aggregates two, with the option as it is at that moment
    for mtu in (20, 100):
        for order in ((True, False, True, False), (False, True, False, False)):
            calls = [dict(units=[unit(32, 6), unit(33, 5), unit(19, 2 * mtu + 3 + j)], scs=[4, 4, 4], donl_now=m) for j, m in enumerate(order)]
            out.append(dict(fam="C14", kind="payload", valid=True, mtu=mtu, donl=order[0], skipagg=False, calls=calls, **{"class": "donl_option_flipped"}))
    # one unit of about 17 MB (beyond 2^24 bytes) through payloader and receiver (lengths and equality facts only)
    for mtu in (65535, 1200):
        out.append(dict(fam="C14", kind="huge", huge=17000000, mtu=mtu, valid=True, **{"class": "huge_unit_17MB"}))
    # a unit cut into 800+ fragments, 300 calls on one payloader (the DONL counter runs on), and 300 units in ONE aggregation packet
    for donl in (False, True):
        out.append(dict(fam="C14", kind="payload", valid=True, mtu=4000, donl=donl, skipagg=False, calls=[dict(units=[unit(1, 4) for _ in range(300)], scs=[3] * 300)], **{"class": "many_units_one_packet"}))
        out.append(dict(fam="C14", kind="payload", valid=True, mtu=9, donl=donl, skipagg=False, calls=[dict(units=[unit(19, 4000), unit(1, 5)], scs=[4, 3])], **{"class": "many_fragments"}))
        out.append(dict(fam="C14", kind="payload", valid=True, mtu=40, donl=donl, skipagg=False,
                        calls=[dict(units=[unit(1, 3 + (j * 7) % 70)] + ([unit(32, 6), unit(33, 5)] if j % 40 == 3 else []), scs=[3] * (3 if j % 40 == 3 else 1)) for j in range(300)],
                        **{"class": "long_run"}))
    return out


prop(dict(
    id="C14", fam="C14",
    mc=[("H265MC.tla", "H265MC.cfg", {"thorough": {"Sizes": "{3, 4, 5, 6, 8, 9, 12, 17}"}})],
    gen=[("H265Gen.tla", "H265Gen.cfg", {"thorough": {"Stride16": "1", "Mtus": "{4, 5, 6, 7, 8, 9, 10, 11, 12, 13, 16, 20, 100, 1200}"}})],
    rand=rand_c14, corpus=corpus_nal("C14", "h265"),
    trace=("H265Trace.tla", "H265Trace.cfg"),
    shards={"quick": 2, "thorough": 12},
    workers=16,
    class_of=lambda c: c["class"],
    nontrivial=lambda c: True,
    mandatory=["single", "single_donl", "ap2", "ap3_donl", "fu_start_donl", "fu_middle", "fu_end", "paci", "paci_tsci", "paci_tsci_axis", "trunc_ap3", "trunc_single_donl",
               "trunc_paci_tsci", "accessor_nal_header", "accessor_fu_header", "payload", "payload_fragmented", "payload_donl_fragmented", "payload_skipagg_multi", "rand_payload"],
    rule="TLC builds, with the independent RFC 7798 encoder, single NAL unit packets (nine types x layer ids {0,1,63} x TID {1,7}), aggregation packets of two and three units, first/middle/"
         "last fragmentation units and PACI packets (PHSsize 0/3/4/16/31, all F0-F2/Y/A combinations, TSCI), each with and without DONL, plus every truncation of each; the TSCI triple is covered "
         "on its three byte axes (3 x 256) plus boundary products; NAL header accessors on 16-bit values (quick: stride 61 + boundaries, thorough: all 65536) and all 256 FU headers; payloader "
         "scenarios: one, three and four units with sizes {3, MTU-4..MTU+2, 2MTU-2..2MTU+2} x MTU {4..12, 20, 1200} x AddDONL x SkipAggregation; seeded random unit lists are added",
    assumptions=COMMON_ASSUME + ["fragmentation units produced by the independent encoder are never empty (the library refuses empty FU payloads; the RFC does not require accepting them)",
                                 "a payload cut inside a third or later aggregation unit may be refused or yield the complete units before the cut",
                                 "DON values are not judged, only the placement of the DONL/DOND fields"],
))


# ---------------------------------------------------------------- C13
def _obu_stream(obus, pad=0):
    """The byte stream handed to the payloader; pad > 0 writes every obu_size as a non-minimal LEB128 number
    (pad extra bytes: continuation bits set, zero digits), which the AV1 bitstream syntax allows."""
    out = []
    for o in obus:
        hdr = [o["type"] << 3 | (4 if o["ext"] else 0) | (2 if o["hassize"] else 0) | o["r1"]]
        if o["ext"]:
            hdr.append(o["tid"] << 5 | o["sid"] << 3 | o["r3"])
        out += hdr
        if o["hassize"]:
            n = len(o["payload"])
            while True:
                b = n & 0x7f
                n >>= 7
                if n:
                    out.append(b | 0x80)
                else:
                    used = 1
                    m = len(o["payload"]) >> 7
                    while m:
                        used += 1
                        m >>= 7
                    eff = min(pad, 8 - used)          # leb128() values occupy at most 8 bytes
                    if eff > 0:
                        out.append(b | 0x80)
                        out += [0x80] * (eff - 1) + [0x00]
                    else:
                        out.append(b)
                    break
        out += o["payload"]
    return out


def rand_c13(seed, tier, cases=None):
    rng = random.Random(seed * 7919 + 13)
    out = []
    big = [dict(type=6, ext=False, tid=0, sid=0, r3=0, r1=0, hassize=True, payload=[(i * 7) % 251 for i in range(70000)]),
           dict(type=6, ext=False, tid=0, sid=0, r3=0, r1=0, hassize=True, payload=[1, 2, 3])]
    out.append(dict(fam="C13", kind="payload", valid=True, mtu=1200, obus=big, stream=_obu_stream(big), **{"class": "giant_obu"}))
    for _ in range(1200 if tier == "quick" else 15000 * TH):
        mtu = rng.choice([2, 3, 4, 5, 7, 16, 64, 129, 130, 131, 200, 1200, rng.randint(2, 400)])
        n = rng.randint(1, 8 if tier == "thorough" else 5)
        obus = []
        for i in range(n):
            ext = rng.random() < 0.5
            ln = rng.choice([0, 1, 2, mtu - 2, mtu - 1, mtu, 2 * (mtu - 1) - 1, 2 * (mtu - 1), 126, 127, 128, rng.randint(0, 3 * mtu),
                             rng.choice([1, 2, 3]) * (mtu - 1) - rng.randint(0, 6)])   # last fragment of every size near a full packet
            ln = max(0, min(ln, 1500))
            obus.append(dict(type=rng.choice([1, 2, 3, 4, 5, 6, 7, 8, 15, rng.randint(0, 15)]), ext=ext, tid=rng.randint(0, 2) if ext else 0, sid=rng.randint(0, 1) if ext else 0,
                             r3=rng.choice([0, 0, 5]) if ext else 0, r1=rng.choice([0, 0, 1]), hassize=True, payload=rbytes(rng, ln)))
        if rng.random() < 0.3:
            obus[-1]["hassize"] = False
        out.append(dict(fam="C13", kind="payload", valid=True, mtu=mtu, obus=obus, stream=_obu_stream(obus), **{"class": "rand_obus"}))
        if _ % 10 == 0 and all(o["hassize"] for o in obus):
            out.append(dict(fam="C13", kind="payload", valid=True, mtu=mtu, obus=obus, stream=_obu_stream(obus, pad=1 + (_ // 10) % 7), **{"class": "rand_obus_padded_size_field"}))
    # an OBU cut into 600+ packets, and 40 OBUs in one call
    many = [dict(type=6, ext=False, tid=0, sid=0, r3=0, r1=0, hassize=True, payload=[(i * 7) % 251 for i in range(5000)]),
            dict(type=6, ext=False, tid=0, sid=0, r3=0, r1=0, hassize=True, payload=[1, 2, 3])]
    out.append(dict(fam="C13", kind="payload", valid=True, mtu=10, obus=many, stream=_obu_stream(many), **{"class": "many_fragments"}))
    lots = [dict(type=6 if i else 1, ext=i % 9 == 8, tid=0, sid=0, r3=0, r1=0, hassize=True, payload=[(i + k) % 251 for k in range(1 + (i * 5) % 40)]) for i in range(40)]
    out.append(dict(fam="C13", kind="payload", valid=True, mtu=64, obus=lots, stream=_obu_stream(lots), **{"class": "many_obus"}))
    # one OBU of about 17 MB (beyond 2^24 bytes) through payloader and receiver (lengths and equality facts only)
    for mtu in (65535,):      # (at MTU 1200 the depacketizer re-copies its growing buffer for each of 14 000 packets: minutes, not a verdict)
        out.append(dict(fam="C13", kind="huge", huge=17000000, mtu=mtu, valid=True, obus=[], stream=[], **{"class": "huge_obu_17MB"}))
    # an OBU just beyond the 2^21 boundary of LEB128 (its size field needs four bytes; one event of 40 MB)
    if True:
        huge = [dict(type=6, ext=False, tid=0, sid=0, r3=0, r1=0, hassize=True, payload=[(i * 7) % 251 for i in range(2097160)]),
                dict(type=6, ext=False, tid=0, sid=0, r3=0, r1=0, hassize=True, payload=[1, 2, 3])]
        out.append(dict(fam="C13", kind="payload", valid=True, mtu=65535, obus=huge, stream=_obu_stream(huge), **{"class": "obu_beyond_2_21"}))
    # more than 256 elements in ONE packet (W = 0), after a fragmented OBU and from a fresh packet
    tiny = [dict(type=6, ext=False, tid=0, sid=0, r3=0, r1=0, hassize=True, payload=[1 + i % 250]) for i in range(300)]
    for head in ([many[0]], []):
        obs = head + tiny
        out.append(dict(fam="C13", kind="payload", valid=True, mtu=4000, obus=obs, stream=_obu_stream(obs), **{"class": "many_obus_one_packet"}))
    return out


prop(dict(
    id="C13", fam="C13",
    mc=[("AV1MC.tla", "AV1MC.cfg", {"thorough": {"Sizes": "{0, 1, 2, 4, 5, 6, 7, 8, 13, 20}"}})],
    gen=[("AV1Gen.tla", "AV1Gen.cfg", {"thorough": {"Stride": "7", "HdrStride": "1"}})],
    rand=rand_c13,
    trace=("AV1Trace.tla", "AV1Trace.cfg"),
    shards={"quick": 8, "thorough": 14},
    workers=16,
    nontrivial=lambda c: c["kind"] != "payload" or len(c["stream"]) > 2,
    mandatory=["one_obu", "one_obu_fragmented", "one_obu_fragmented_nosize", "one_obu_not_sent", "two_obus", "two_obus_layers_differ", "three_obus", "three_obus_layers_aba",
               "three_obus_layers_differ", "leb128", "obu_header", "rand_obus"],
    rule="TLC enumerates OBU lists: one OBU of twelve types x four extension-header variants x sizes {0,1,2,MTU-3..MTU+1,2MTU-3..2MTU,126..129} x size field present/omitted; two OBUs "
         "(strided product of types, extension variants, sizes); three OBUs with all 64 orders of extension ids (none,(0,0),(1,0),(0,1)) and, with a leading temporal delimiter and a trailing "
         "tile list, five; x MTU {2,3,4,5,8,16,130,200}; every payloader output is stitched by the reference and fed to the real AV1Depacketizer and to AV1Packet + frame assembler; LEB128 digit "
         "sequences around every 7-bit boundary up to 2^32-1; OBU header byte pairs (quick: stride 53 + boundaries, thorough: all 65536); seeded random lists of up to 8 OBUs are added",
    assumptions=COMMON_ASSUME + ["N and the reserved aggregation-header bits are not judged (the statement does not mention them)",
                                 "the deprecated path uses a fresh AV1Packet per RTP payload (AV1Packet caches its parsed elements)"],
))


# ---------------------------------------------------------------- growth (not listed properties; not in MANIFEST)
prop(dict(
    id="G01", fam="G01",
    mc=[("RtpHeaderExtMC.tla", "RtpHeaderExtMC.cfg", {})],
    gen=[("ViewGen.tla", "ViewGen.cfg", {"thorough": {"Depth": "3"}})],
    trace=("ViewTrace.tla", "ViewTrace.cfg"),
    shards={"quick": 2, "thorough": 12},
    nontrivial=lambda c: len(c["ops"]) > 0,
    class_of=lambda c: c["class"],
    rule="GROWTH: Set/Del/Get/GetIDs histories (depth <= 2, thorough 3) on OneByteHeaderExtension / TwoByteHeaderExtension / RawExtension started from well-formed blocks; "
         "judged against the ordered-map machine of RtpHeaderExt plus re-serialisation (Marshal must be a well-formed block whose reference walk returns the map)",
    assumptions=COMMON_ASSUME + ["not one of the listed properties: findings are reported in DESIGN.md 9.7, never as a listed property's violation"],
))


def rand_g02(seed, tier, cases=None):
    rng = random.Random(seed * 7919 + 102)
    base = [c["bytes"] for c in (cases or []) if len(c.get("bytes", [])) >= 8]
    out = []
    for _ in range(3000 if tier == "quick" else 60000 * TH):
        if rng.random() < 0.5 and base:
            b = list(rng.choice(base))
            for _k in range(rng.randint(1, 2)):
                i = rng.randrange(len(b))
                b[i] ^= 1 << rng.randrange(8)
            cl = "rand_bitflip"
        else:
            b = rbytes(rng, rng.choice([0, 1, 2, 4, 5, 8, 9, 10, 11, 12, 16]))
            if b and rng.random() < 0.8:
                b[0] = 0x80 | (b[0] & 0x3F)
            if len(b) >= 5 and rng.random() < 0.6:
                b[1:4] = [0x49, 0x83, 0x42]   # sync code at the byte-aligned position of profiles 0-2 ... only when bits line up; mostly damage
            cl = "rand_bytes"
        out.append(dict(fam="G02", bytes=b, prev=rng.choice(base) if base and rng.random() < 0.5 else [], **{"class": cl}))
    return out


prop(dict(
    id="G02", fam="G02",
    mc=[("VP9HeaderMC.tla", "VP9HeaderMC.cfg", {})],
    gen=[("VP9HeaderGen.tla", "VP9HeaderGen.cfg", {"thorough": {"Dims": "{0, 1, 255, 256, 1279, 32767, 32768, 65534, 65535}"}})],
    rand=rand_g02,
    trace=("VP9HeaderTrace.tla", "VP9HeaderTrace.cfg"),
    shards={"quick": 4, "thorough": 14},
    nontrivial=lambda c: len(c["bytes"]) >= 1,
    class_of=lambda c: c["class"],
    rule="GROWTH: VP9 uncompressed headers from the independent encoder of VP9Header.tla (all profiles, show-existing / non-key / key frames, bit depths, colour spaces incl. RGB, "
         "subsampling, boundary frame sizes, both fill bits, trailing bytes), every byte-prefix, damaged marker / sync code, seeded random strings and bit-flips; each decoded by a fresh "
         "codecs/vp9.Header and by one that has parsed a key frame before",
    assumptions=COMMON_ASSUME + ["not one of the listed properties: findings are reported in DESIGN.md 9.7, never as a listed property's violation",
                                 "reserved_zero bits are not judged (decoders ignore them); subsampling of an RGB stream in profiles 0/2 (not conformant) is not judged"],
))


prop(dict(
    id="G03", fam="G03",
    gen=[("AnnexBGen.tla", "AnnexBGen.cfg", {"thorough": {"MaxLen": "10"}})],
    trace=("AnnexBTrace.tla", "AnnexBTrace.cfg"),
    shards={"quick": 4, "thorough": 14},
    nontrivial=lambda c: len(c["bytes"]) >= 4,
    class_of=lambda c: c["class"],
    exhaustive=True,
    rule="GROWTH: EVERY string over the alphabet {00, 01, 03, 65} up to length 7 (thorough: 10) handed to H264Payloader (no STAP-A) and H265Payloader (no aggregation) with MTU 65535; "
         "the units that come back are compared with the Annex B byte-stream grammar of AnnexB.tla (conformant streams: exact units; any string: no panic); non-trivial = at least 4 bytes",
    assumptions=COMMON_ASSUME + ["not one of the listed properties: findings are reported in DESIGN.md 9.7, never as a listed property's violation",
                                 "H265 needs two header bytes: units shorter than that are outside its domain and are only judged for panics"],
))


prop(dict(
    id="G04", fam="G04",
    gen=[("WrappersGen.tla", "WrappersGen.cfg", {})],
    corpus=lambda entries, tier: [dict(fam="G04", kind="bytes", bytes=e["bytes"], **{"class": "corpus"}) for e in entries if len(e["bytes"]) <= 2100],
    trace=("WrappersTrace.tla", "WrappersTrace.cfg"),
    shards={"quick": 1, "thorough": 4},
    nontrivial=lambda c: len(c.get("bytes", [])) + len(c.get("digits", [])) >= 1,
    class_of=lambda c: c["class"],
    rule="GROWTH: the deprecated *PartitionHeadChecker types and pkg/obu against the functions that replaced them on the empty string, all 256 one-byte strings, two- and three-byte strings "
         "over a boundary alphabet and the repository's test strings; EncodeLEB128 / WriteToLeb128 / ReadLeb128 on digit sequences at every 7-bit boundary up to 2^56 - 1",
    assumptions=COMMON_ASSUME + ["not one of the listed properties: findings are reported in DESIGN.md 9.7, never as a listed property's violation"],
))


prop(dict(
    id="G05", fam="G05",
    mc=[("AV1LossMC.tla", "AV1LossMC.cfg", {}), ("AV1LossMC.tla", "AV1LossMCNoResync.cfg", {}, "expect_violation")],
    gen=[("AV1LossGen.tla", "AV1LossGen.cfg", {"thorough": {"Sizes": "{3, 4, 5, 9, 10, 14, 19, 24, 29}", "Mtus": "{4, 6, 11, 16}"}})],
    trace=("AV1LossTrace.tla", "AV1LossTrace.cfg"),
    shards={"quick": 2, "thorough": 12},
    nontrivial=lambda c: len(c["packets"]) >= 2,
    class_of=lambda c: c["class"],
    exhaustive=True,
    rule="GROWTH: every loss subset of the packets of a three-OBU frame from the reference sender (one OBU fragmented over up to five packets, with and without extension headers), "
         "followed by an intact frame; AV1Depacketizer's output for EVERY delivered packet is compared with the reference receiver of AV1Loss.tla (the OBUs that packet completes, with size fields)",
    assumptions=COMMON_ASSUME + ["not one of the listed properties: findings are reported in DESIGN.md 9.7, never as a listed property's violation"],
))


prop(dict(
    id="G06", fam="G06",
    mc=[("H264MC.tla", "H264MC.cfg", {}), ("H264MC.tla", "H264MCNoResync.cfg", {}, "expect_violation")],
    gen=[("H264LossGen.tla", "H264LossGen.cfg", {"thorough": {"Sizes": "{5, 9, 14, 25, 40}", "NFrag": "6"}})],
    trace=("H264LossTrace.tla", "H264LossTrace.cfg"),
    shards={"quick": 2, "thorough": 12},
    nontrivial=lambda c: len(c["packets"]) >= 2,
    class_of=lambda c: c["class"],
    exhaustive=True,
    rule="GROWTH: every loss subset of the packets of a frame from the independent RFC 6184 encoder (single unit, a unit in 2-5 FU-A fragments, a STAP-A), followed by an intact frame; "
         "H264Packet's output for EVERY delivered packet, in Annex-B and AVC framing, is compared with the reference receiver H264!RefDepack",
    assumptions=COMMON_ASSUME + ["not one of the listed properties: findings are reported in DESIGN.md 9.7, never as a listed property's violation",
                                 "a fragmented unit whose start fragment was lost comes out front-truncated when its end arrives (the reference receiver models the library's behaviour here; RFC 6184 would have it discarded)"],
))


prop(dict(
    id="G07", fam="G07",
    gen=[("PipelineGen.tla", "PipelineGen.cfg", {"thorough": {"Mtus": "{64, 65, 80, 100, 576, 1200, 1500}", "Sizes": "{10, 50, 51, 52, 53, 54, 88, 200, 1187, 1188, 1189, 3000}"}})],
    trace=("PipelineTrace.tla", "PipelineTrace.cfg"),
    shards={"quick": 2, "thorough": 12},
    nontrivial=lambda c: True,
    class_of=lambda c: c["class"],
    rule="GROWTH: frames of H264 NAL units / AV1 OBUs / VP8 frames / Opus packets (sizes around the per-packet budget) x MTU x start sequence number (incl. the wrap) through the whole sending pipeline "
         "(payloader -> Packetizer -> Packet.Marshal); the wire bytes are read by the specification alone (RtpWire!Parse, then H264!RefDepack / AV1Loss!RefRxR / VP8!RefDecode) and by the library's own receiver",
    assumptions=COMMON_ASSUME + ["not one of the listed properties: findings are reported in DESIGN.md 9.7, never as a listed property's violation"],
))


prop(dict(
    id="G08", fam="G08", nondeterministic=True,
    mc=[("SharedSeqMC.tla", "SharedSeqMC.cfg", {}), ("SharedSeqMC.tla", "SharedSeqMC_LocalCount.cfg", {}, "expect_violation"),
        ("SharedSeqMC.tla", "SharedSeqMC_Unlocked.cfg", {}, "expect_violation")],
    gen=[("SharedSeqGen.tla", "SharedSeqGen.cfg", {"thorough": {"Gs": "{2, 3, 4, 8, 16}", "CallsPer": "400", "Salts": "14"}})],
    trace=("SharedSeqTrace.tla", "SharedSeqTrace.cfg"),
    shards={"quick": 1, "thorough": 8},
    nontrivial=lambda c: True,
    class_of=lambda c: c["class"],
    rule="GROWTH: 2-16 packetizers that share ONE sequencer, each driven from its own goroutine (40 / 400 Packetize / GeneratePadding calls of 0-4 packets each), started before, at and after the wrap; "
         "TLC explores every interleaving of the model (3 packetizers x 2 calls x 2 numbers, modulus 16) and two specification mutants (numbers counted locally after the first draw "
         "of a call; an unlocked draw) must violate it; each real run must be a behaviour of the model: no number twice, none skipped, own numbers ascending, roll-over count = zeros handed out",
    assumptions=COMMON_ASSUME + ["not one of the listed properties: findings are reported in DESIGN.md 9.7, never as a listed property's violation",
                                 "real schedules are sampled by running on 16 cores, not enumerated; all interleavings are enumerated on the model only"],
))


prop(dict(
    id="G09", fam="G09",
    gen=[("ObuGen.tla", "ObuGen.cfg", {"thorough": {"Lens": "{0, 1, 2, 3, 126, 127, 128, 129, 255, 256, 300, 16383, 16384, 16385}"}})],
    trace=("ObuTrace.tla", "ObuTrace.cfg"),
    shards={"quick": 2, "thorough": 8},
    nontrivial=lambda c: True,
    class_of=lambda c: c["class"],
    exhaustive=True,
    rule="GROWTH: obu.OBU.Marshal (reached by no listed property; found by selftest/coverage.sh): every obu_type x extension header (absent, layer ids and reserved bits at their extremes) x size field x "
         "reserved bit x payload lengths around the LEB128 digit boundaries, alone and as streams of four OBUs; the bytes are read back by the specification alone (AV1!ReadStream) and must be "
         "the specification's own encoding; the library's ParseOBUHeader must agree on the header",
    assumptions=COMMON_ASSUME + ["not one of the listed properties: findings are reported in DESIGN.md 9.7, never as a listed property's violation"],
))


for _id in ("C02", "C03", "C08", "C09", "C10", "C14"):
    PROPS[_id]["rule"] += CORPUS_RULE

# additions of the later strengthening rounds (DESIGN 9.6), appended to the generation rules reported in the evidence
RULE_ADD = {
    "C02": "; receivers may also start as application-built values with every field set",
    "C04": "; every case is also marshalled in place into the buffer the packet was decoded from (unchanged, other fixed fields, first extension deleted)",
    "C05": "; start states include a receiver that decoded an extension packet and then a plain one; long histories of 120 operations",
    "C06": "; long runs of 300-400 calls and calls emitting hundreds of packets",
    "C07": "; sequencers far along (roll-over count preset around 2^16, 2^32, 2^64 through a verification-only constructor, relative counts) and the sequencer observed "
           "hook-less through a packetizer (roll-over count against the wraps of the observed numbers)",
    "C08": "; the input is a window of a larger caller buffer whose following bytes must stay untouched; the caller appends to / writes over returned fragments; long runs of 250 calls, "
           "inputs cut into 500+ fragments, parameter sets whose sizes sum beyond 2^16, the same access unit again with another MTU",
    "C09": "; receivers may start as application-built values with every field set (VP8, VP9, Opus); long runs of 300 payloads",
    "C10": "; one item of 17 MB (beyond 2^24 bytes) through payloader and receiver, judged from lengths and equality facts; all access units of a history lie in one stream buffer (which must stay untouched); per-call MTU with repeated parameter sets; re-split parameter-set generations; "
           "units cut into 800 fragments, 300 calls on one payloader, parameter sets whose sizes sum beyond 2^16",
    "C11": "; one item of 17 MB (beyond 2^24 bytes) through payloader and receiver, judged from lengths and equality facts; every descriptor is also decoded into a VP8Packet that has decoded a descriptor with every field set; 400-frame runs and frames cut into 600+ packets",
    "C12": "; one item of 17 MB (beyond 2^24 bytes) through payloader and receiver, judged from lengths and equality facts; every descriptor is also decoded into a VP9Packet that has decoded descriptors with every optional part; 400-frame runs and frames cut into 300+ packets",
    "C13": "; one item of 17 MB (beyond 2^24 bytes) through payloader and receiver, judged from lengths and equality facts; sizes around one and two packet capacities with every header / length-field offset; 300 elements in one packet; OBU size fields written as padded LEB128 numbers up to "
           "8 bytes; an OBU beyond 2^21 bytes; an OBU cut into 600+ packets",
    "C14": "; one item of 17 MB (beyond 2^24 bytes) through payloader and receiver, judged from lengths and equality facts; every payload is also decoded into an H265Packet that has decoded payloads of every kind; all access units of a history lie in one stream buffer; 300 units in one "
           "aggregation packet, units cut into 800+ fragments, 300 calls on one payloader, unit pairs whose sizes sum beyond 2^16",
    "C15": "; abandoned units of 4.3 MB and 17 MB; bytes retained from an abandoned unit ending just below 2^20 .. 2^24 (thorough: .. 2^26)",
    "C16": "; the Opus partition flags are probed for every payload incl. nil / empty ones on a used and a fresh packet",
    "C17": "; receivers may be application-built or constructor-built values; the caller writes over what Marshal returned and marshals again; a canary of fixed values through "
           "every constructor and codec is re-evaluated after each event",
    "C18": "; offsets are also decoded into a constructor-built zero-offset receiver, after which a newly constructed zero-offset value must still report zero",
    "C19": "; the reused receiver has decoded a sibling of the judged value (same layout, resolution toggled or other rates)",
}
for _id, _t in RULE_ADD.items():
    PROPS[_id]["rule"] += _t
