#!/usr/bin/env python3
"""Regenerate /verif/MANIFEST.json from the property descriptors (run after props change)."""
import json, os, subprocess, sys
sys.path.insert(0, os.path.dirname(os.path.dirname(os.path.abspath(__file__))))
from vlib import props

ROOT = os.path.dirname(os.path.dirname(os.path.abspath(__file__)))
ALL = ["C%02d" % i for i in range(1, 21)]
TEXT = {
    "C01": "RtpWire.tla is an RFC 3550/8285 reference encoder/decoder model-checked by TLC (Parse inverts every legal Image); TLC enumerates the packet domain; the real Marshal/Unmarshal round trip of every packet is recorded and validated by TLC against the round-trip action (field-by-field).",
    "C02": "TLC derives truncations, structural mutations and (earlier, later) pairs from RFC-grammar images; every decode by the real code into fresh and used receivers is validated by TLC against the Decode action of RtpTrace (bounds, payload and extension values are input bytes, reuse independence; panic is not an allowed outcome).",
    "C03": "TLC enumerates every image the RFC grammar allows for each packet value (independent of the library's encoder) and validates the real decode against the value, the re-encode against the stability rule, and the standalone views against the reference element walk.",
    "C04": "The destination buffer is a heap cell of the RtpTrace state machine; TLC validates every recorded MarshalTo (all destination lengths x prior fills) against the contract relative to Marshal's own bytes.",
    "C05": "RtpHeaderExt.tla is the extension map as a state machine, relational in the outcome and functional in the effect; TLC model-checks a reference policy for all histories, enumerates all Set/Del histories up to depth 3-4 and validates every recorded call, observation and wire round trip of the real code.",
    "C16": "Audio.tla defines the unique lossless split and the Opus pass-through as TLA+ relations; TLC model-checks them over all (len, mtu) in bounds, enumerates the cases, and validates every recorded call of the real G711/G722/Opus code (trace validation).",
    "C17": "ExtCodecs.tla gives the five bit layouts as TLA+ encoders/decoders (round trip model-checked); TLC enumerates value axes, every input length and receiver histories and validates each recorded Marshal/Unmarshal; the 2^24 domains are covered by axes-exact + harness-counted separability judged = 0.",
    "C19": "VLA.tla encodes/decodes the video-layers-allocation00 layout (DecVLA(EncVLA(v)) = v model-checked); TLC enumerates slot subsets, LEB128 size classes, truncations and invalid values and validates Marshal bytes, decode of the reference encoding into fresh and used receivers, rejections and bounds.",
    "C06": "Packetizer.tla is the packetizer as a state machine (timestamp as 4-byte tuple, 16-bit sequence counter, abs-send-time id); TLC model-checks every call sequence up to depth 3-4 with a reference payloader (SeqContinuous, TsLaw, AbsOnlyOnMarked), enumerates call sequences x MTU x configuration rows, and validates every recorded Packetize/SkipSamples/GeneratePadding/EnableAbsSendTime call (fragments recorded from the real payloader, injected clock) against the corresponding action.",
    "C07": "Sequencer.tla (PlusCal) models N clients and a RollOverCount reader with one label per step of the critical section; TLC explores every interleaving (Consecutive, RocExact, Monotone, ReadsLinearizable) and a lock-free specification mutant must violate them; hook events emitted inside the real critical section are replayed as model steps with MOD = 65536 and every client return is matched (witness verified by TLC) to a hook event inside its call window.",
    "C08": "Payloader.tla states the contract (size law, non-empty law) over a heap of caller-owned buffers; PayloaderMC model-checks the ownership model and its aliasing mutant; TLC enumerates payloader kind x MTU x shaped input x history, the harness overwrites caller buffers between calls and a twin instance is the oracle; TLC validates every recorded call and re-read.",
    "C09": "Depacketizer.tla states the receiver contract (no panic outcome, fresh = reused for per-packet formats, twin equality for formats that retain fragment state); TLC enumerates short strings exhaustively, warm/cold receivers and edited payloader outputs for sixteen receivers and validates every recorded call; thorough adds the complete 2^24 three-byte sweep for the panic clause.",
    "C10": "H264.tla contains independent RFC 6184 encoders (single, STAP-A, FU-A with arbitrary cuts), a reference receiver and the payloader contract MatchItems over the pending SPS/PPS state; TLC model-checks that the receiver inverts every encoding plan and that a reference payloader satisfies the contract, enumerates scenarios and validates every recorded Payload call and every real depacketizer output (Annex-B and AVC).",
    "C11": "VP8.tla encodes the RFC 7741 descriptor and gives a reference decoder (inverse model-checked for all flag combinations); the payloader is a state machine over the running picture id; TLC enumerates descriptors, all truncations and payloader histories and validates every recorded decode and Payload call.",
    "C12": "VP9.tla encodes the VP9 RTP descriptor (picture id forms, layer indices, reference indices, scalability structure) and the bit-level uncompressed frame header; TLC enumerates all 256 flag bytes x field variants, truncations, headers for all profiles/colour configurations/sizes and payloader histories, and validates every recorded VP9Packet decode, vp9.Header parse and Payload call.",
    "C13": "AV1.tla gives the aggregation-header grammar, element stitching and the aggregation rules (W, Z/Y chaining, no empty element, size flag cleared, no mixed layers) plus OBU header and LEB128 codecs; TLC model-checks two reference aggregators against the rules, enumerates OBU lists x MTU and validates every recorded payloader output, AV1Depacketizer result, AV1Packet+assembler result, LEB128 and OBU header call.",
    "C14": "H265.tla contains independent RFC 7798 encoders (single, aggregation, FU, PACI/TSCI, with and without DONL), a reference parser and reassembly; TLC model-checks parser-inverts-encoder, enumerates every packet form with all truncations, header accessor domains and payloader scenarios, and validates every recorded parse, accessor value and Payload call.",
    "C15": "The lossy channel is enumerated by TLC (every delivered subset of frame A, garbage prefixes, intact frame B); the loss invariant is model-checked on the reference H264 receiver (H264MC!LossInv) and a no-resync specification mutant must violate it; every recorded result of the real H264Packet / AV1Depacketizer after loss is validated against a fresh receiver's result.",
    "C18": "NtpTime.tla states the tolerance relation on <<sec, nsec>> instants; NtpTimeMC model-checks the 64 s wrap logic on field ticks (recovered for every delay below the modulus, lost at exactly one modulus); TLC enumerates instants around wrap points x delays and offsets up to 2^31 s and validates every recorded CaptureTime / offset / Estimate result.",
    "C20": "Clone is an action of the RtpTrace state machine producing two independent values; TLC enumerates packets x mutation sites x side and validates that the untouched side's observation (projection + Marshal bytes + accessors) never changes.",
}
NOTE = "Real code is exercised on TLC-enumerated classes plus seeded random cases (not all Go inputs); TLC, the CommunityModules Json module and the harness projection code are trusted; see DESIGN.md section 4 for the bounds."


def main():
    hooks = []
    hp = os.path.join(ROOT, "hooks_commits.txt")
    if os.path.exists(hp):
        hooks = [l.split()[0] for l in open(hp) if l.strip()]
    checks = []
    for pid in ALL:
        if pid not in props.PROPS:
            continue
        P = props.PROPS[pid]
        checks.append({
            "property_id": pid,
            "quick_cmd": "./check %s --tier quick" % pid,
            "thorough_cmd": "./check %s --tier thorough" % pid,
            "evidence_file": "/verif/evidence/%s.json" % pid,
            "replay_cmd_template": "./check %s --replay {path}" % pid,
            "engine": "tlc-pipeline",
            "level_claimed": {"category": "model_checking", "text": P.get("level_text") or TEXT.get(pid, ""), "design_ref": "DESIGN.md section 4 " + pid},
            "level_note": P.get("level_note") or NOTE,
            "technique": P.get("technique") or "explicit TLA+ specification; TLC model checking of the spec; TLC-generated cases executed on the real code; TLC trace validation of the recorded behaviour",
        })
    na = [{"property_id": p, "reason": "specification and conformance harness for this property are not built yet in this snapshot (planned: DESIGN.md section 4)"}
          for p in ALL if p not in props.PROPS]
    man = {
        "version": 1,
        "setup_cmd": "cd /verif/harness && cp /repo/go.sum . && GOFLAGS=-mod=mod GOPROXY=off GOSUMDB=off GOTOOLCHAIN=local go build -tags verif -o /verif/.build/harness . && cd /verif && python3 -c 'import vlib.props'",
        "hooks": {"guard": "verif", "enable": "go build -tags verif (the harness module replaces github.com/pion/rtp with /repo)",
                  "baseline_off_cmd": "cd /repo && GOFLAGS=-mod=mod GOPROXY=off GOSUMDB=off GOTOOLCHAIN=local go test -json -vet=off -count=1 -timeout 25m ./...",
                  "source_commits": hooks, "add_only": True},
        "engines": [{"name": "tlc-pipeline", "path": "/verif/check", "serves_properties": [c["property_id"] for c in checks],
                     "kind_free_text": "TLA+ specifications in /verif/spec model-checked by TLC; TLC generates the cases; the Go harness (/verif/harness, built with -tags verif against /repo) executes them on the real code; TLC validates the recorded trace against the trace specification (total monitor); rejects are re-executed and classified against known_findings.jsonl"}],
        "checks": checks,
        "not_applicable": na,
        "notes": "Generated by vlib/manifest.py from vlib/props.py. Exit codes: 0 held, 1 VIOLATION, 2 infrastructure error (never a verdict).",
    }
    json.dump(man, open(os.path.join(ROOT, "MANIFEST.json"), "w"), indent=1)
    print("checks:", [c["property_id"] for c in checks], "not_applicable:", [n["property_id"] for n in na])


if __name__ == "__main__":
    main()
