"""Orchestrator core for /verif: build harness, run TLC (model check, generate, judge),
confirm rejects on the real code, classify against known findings, write evidence.

Exit codes: 0 property held on everything explored (known findings are printed),
1 violation (VIOLATION line printed), 2 infrastructure problem (never a verdict).
"""
import hashlib
import json
import os
import re
import shutil
import subprocess
import sys
import time

ROOT = os.path.dirname(os.path.dirname(os.path.abspath(__file__)))
REPO = os.environ.get("VERIF_REPO", "/repo")
TLA_CP = "/opt/veriftools/tla/tla2tools.jar:/opt/veriftools/tla/CommunityModules-deps.jar"
GOENV = dict(GOFLAGS="-mod=mod", GOPROXY="off", GOSUMDB="off", GOTOOLCHAIN="local")


class Infra(Exception):
    pass


def log(msg):
    print(msg, flush=True)


def sh(cmd, cwd=None, env=None, timeout=None, check=True):
    e = dict(os.environ)
    if env:
        e.update(env)
    try:
        p = subprocess.run(cmd, cwd=cwd, env=e, timeout=timeout, capture_output=True, text=True)
    except subprocess.TimeoutExpired:
        raise Infra("timeout after %ss: %s" % (timeout, " ".join(cmd)[:200]))
    if check and p.returncode != 0:
        raise Infra("command failed (%d): %s\n%s\n%s" % (p.returncode, " ".join(cmd)[:300], p.stdout[-3000:], p.stderr[-3000:]))
    return p


def build_harness(workdir):
    """Rebuild the harness against /repo's current working tree with the verif tag."""
    src = os.path.join(ROOT, "harness")
    hdir = os.path.join(workdir, "harness-src")
    if os.path.exists(hdir):
        shutil.rmtree(hdir)
    shutil.copytree(src, hdir)
    # honour VERIF_REPO (used by selftests on scratch worktrees)
    gomod = open(os.path.join(hdir, "go.mod")).read().replace("=> /repo", "=> " + REPO)
    open(os.path.join(hdir, "go.mod"), "w").write(gomod)
    shutil.copy(os.path.join(REPO, "go.sum"), os.path.join(hdir, "go.sum"))
    out = os.path.join(workdir, "harness")
    cover = ["-cover", "-coverpkg=./...,github.com/pion/rtp/..."] if os.environ.get("VERIF_COVER") else []   # selftest/coverage.sh: which library code the harness reaches
    sh(["go", "build", "-tags", "verif"] + cover + ["-o", out, "."], cwd=hdir, env=GOENV, timeout=600)
    return out


def prepare_spec(workdir):
    sdir = os.path.join(workdir, "spec")
    if os.path.exists(sdir):
        shutil.rmtree(sdir)
    shutil.copytree(os.path.join(ROOT, "spec"), sdir)
    return sdir


_tlc_seq = [0]


def tlc(sdir, module, cfg, workdir, env=None, workers=8, timeout=900, heap="6g", extra=None, constants=None):
    """Run TLC; return dict(out, generated, distinct, depth). A TLC error raises Infra
    (an error in the specification itself is a broken check, not a violation)."""
    _tlc_seq[0] += 1
    md = os.path.join(workdir, "md%d" % _tlc_seq[0])
    cfgpath = os.path.join(sdir, cfg)
    if constants:
        # derive a cfg with overridden constants (tier-specific bounds live in props.py)
        txt = open(cfgpath).read()
        for k, v in constants.items():
            txt, n = re.subn(r"(?m)^(\s*)%s\s*=.*$" % re.escape(k), r"\g<1>%s = %s" % (k, v), txt)
            if n == 0:
                txt += "\nCONSTANT %s = %s\n" % (k, v)
        cfg = cfg.replace(".cfg", ".t%d.cfg" % _tlc_seq[0])
        cfgpath = os.path.join(sdir, cfg)
        open(cfgpath, "w").write(txt)
    cmd = ["java", "-XX:+UseParallelGC", "-Xmx" + heap, "-Xss256m", "-cp", TLA_CP, "tlc2.TLC",
           "-metadir", md, "-workers", str(workers), "-noGenerateSpecTE", "-config", cfg]
    if extra:
        cmd += extra
    cmd.append(module)
    t0 = time.time()
    p = sh(cmd, cwd=sdir, env=env, timeout=timeout, check=False)
    out = p.stdout + p.stderr
    shutil.rmtree(md, ignore_errors=True)
    if p.returncode != 0 or "Error:" in out:
        # keep the first error lines (a long counterexample trace would push them out of the tail)
        heads = [l for l in out.splitlines() if l.startswith("Error:") or "is violated" in l][:6]
        raise Infra("TLC failed on %s/%s (exit %d): %s\n%s" % (module, cfg, p.returncode, " | ".join(heads), out[-3000:]))
    res = dict(out=out, generated=0, distinct=0, depth=0, wall=time.time() - t0, cmd=" ".join(cmd[6:]))
    m = re.search(r"(\d+) states generated, (\d+) distinct states found", out)
    if m:
        res["generated"], res["distinct"] = int(m.group(1)), int(m.group(2))
    m = re.search(r"depth of the complete state graph search is (\d+)", out)
    if m:
        res["depth"] = int(m.group(1))
    return res


def read_ndjson(path):
    out = []
    with open(path) as f:
        for line in f:
            line = line.strip()
            if line:
                out.append(json.loads(line))
    return out


def write_ndjson(path, rows):
    with open(path, "w") as f:
        for r in rows:
            f.write(json.dumps(r, separators=(",", ":")) + "\n")


REJ = re.compile(r'<<\s*"REJECT",\s*(-?\d+),\s*(-?\d+),\s*"([^"]*)"\s*>>')
CONS = re.compile(r'<<"CONSUMED", (\d+), (\d+)>>')


def judge(sdir, module, cfg, trace_path, workdir, timeout=1800, heap="8g"):
    """TLC validates the recorded trace against the trace specification.
    Returns (rejects [(case, i, reason)], tlc result)."""
    r = tlc(sdir, module, cfg, workdir, env={"VERIF_TRACE": trace_path}, workers=1, timeout=timeout, heap=heap)
    m = CONS.search(r["out"])
    if not m:
        raise Infra("judge did not report CONSUMED:\n" + r["out"][-3000:])
    if m.group(1) != m.group(2):
        raise Infra("judge consumed %s of %s trace events" % (m.group(1), m.group(2)))
    r["events"] = int(m.group(2))
    rejects = [(int(a), int(b), c) for a, b, c in REJ.findall(r["out"])]
    return rejects, r


def shard(rows_by_case, nshards):
    """Split a list of per-case event lists into nshards trace lists of similar size."""
    shards = [[] for _ in range(nshards)]
    sizes = [0] * nshards
    for evs in rows_by_case:
        k = sizes.index(min(sizes))
        shards[k].extend(evs)
        sizes[k] += len(evs)
    return [s for s in shards if s]


def judge_sharded(sdir, module, cfg, trace_path, workdir, nshards, timeout=1800):
    """Judge a big trace in parallel JVMs (cases are independent after a reset)."""
    if nshards <= 1:
        return judge(sdir, module, cfg, trace_path, workdir, timeout=timeout)
    import concurrent.futures
    by_case = {}
    order = []
    with open(trace_path) as f:
        for line in f:
            if not line.strip():
                continue
            # cheap extraction of the case id without full JSON parse
            m = re.search(r'"case":(-?\d+)', line)
            c = int(m.group(1))
            if c not in by_case:
                by_case[c] = []
                order.append(c)
            by_case[c].append(line)
    # memory: a judge JVM holds its whole shard as TLC values (about 1 GB per 100 000 events). Shards are kept below
    # 250 000 events and at most eight JVMs run at a time (measured before this: fourteen concurrent 3 GB JVMs plus the
    # orchestrator took 54 of 62 GB for the thorough tier of C05)
    nevents = sum(len(v) for v in by_case.values())
    nshards = max(nshards, -(-nevents // 250000))
    shards = shard([by_case[c] for c in order], nshards)
    paths = []
    for k, s in enumerate(shards):
        p = "%s.shard%d" % (trace_path, k)
        with open(p, "w") as f:
            f.writelines(s)
        paths.append(p)
    rejects, agg = [], dict(generated=0, distinct=0, events=0, wall=0.0, out="", cmd="")
    with concurrent.futures.ThreadPoolExecutor(max_workers=min(len(paths), 8)) as ex:
        futs = [ex.submit(judge, sdir, module, cfg, p, workdir, timeout, "3g") for p in paths]
        for fu in futs:
            rj, r = fu.result()
            rejects += rj
            for k in ("generated", "distinct", "events"):
                agg[k] += r[k]
            agg["wall"] = max(agg["wall"], r["wall"])
            agg["cmd"] = r["cmd"]
    for p in paths:
        os.remove(p)
    return rejects, agg


def load_known():
    path = os.path.join(ROOT, "known_findings.jsonl")
    if not os.path.exists(path):
        return []
    return read_ndjson(path)


def _match_value(want, got):
    if isinstance(want, list):
        return got in want
    if isinstance(want, dict):
        if "min" in want and not (isinstance(got, (int, float)) and got >= want["min"]):
            return False
        if "max" in want and not (isinstance(got, (int, float)) and got <= want["max"]):
            return False
        return True
    return want == got


def classify(prop, case, reason, known):
    """Return the open known-finding record whose match covers (reason, case features), else None."""
    feats = dict(case)
    feats.update(case.get("tags", {}) if isinstance(case.get("tags"), dict) else {})
    for k in known:
        if k.get("property") != prop or k.get("status") != "open":
            continue
        mt = k.get("match", {})
        if not _match_value(mt.get("reason"), reason):
            continue
        ok = True
        for key, want in mt.get("tags", {}).items():
            if not _match_value(want, feats.get(key)):
                ok = False
                break
        if ok:
            return k
    return None


def write_evidence(prop, tier, seed, coverage, wall, violations, assumptions, level="model_checking"):
    ev = dict(property_id=prop, tier=tier, seed=seed, level=level, coverage=coverage,
              assumptions=assumptions, wall_s=round(wall, 2), violations=violations)
    # growth families (Gxx) are not listed properties: their evidence is kept apart from /verif/evidence
    path = os.path.join(ROOT, "evidence" if not prop.startswith("G") else "evidence_growth", prop + ".json")
    os.makedirs(os.path.dirname(path), exist_ok=True)
    with open(path, "w") as f:
        json.dump(ev, f, indent=1)
    return path


def replay_path(prop, case, reason):
    h = hashlib.sha1(json.dumps([case, reason], sort_keys=True).encode()).hexdigest()[:10]
    return os.path.join(ROOT, "replays", "%s-%s.json" % (prop, h))
