"""Generic seven-step pipeline (DESIGN 2.1) driven by a property descriptor from props.py."""
import json
import os
import shutil
import sys
import time

from . import core
from .core import Infra, log


def _tier_consts(spec, tier):
    """spec = (module, cfg) or (module, cfg, {tier: {const: value}})"""
    if len(spec) >= 3 and spec[2]:
        return spec[2].get(tier) or {}
    return {}


def generate_cases(P, ctx):
    """Step 3: TLC writes the enumerated domain; seeded random cases are appended."""
    cases = []
    for k, g in enumerate(P.get("gen", [])):
        out = os.path.join(ctx["work"], "gen%d.ndjson" % k)
        if os.path.exists(out):
            os.remove(out)
        env = {"VERIF_OUT": out, "VERIF_TIER": ctx["tier"], "VERIF_SEED": str(ctx["seed"])}
        # generators are one ASSUME: a single worker (measured: 1.65M cases in 15 s with -workers 1, 4 min 11 s with -workers 16)
        r = core.tlc(ctx["sdir"], g[0], g[1], ctx["work"], env=env, workers=1,
                     timeout=ctx["timeout"], constants=_tier_consts(g, ctx["tier"]), heap="12g")   # a 6g cap made a 2.7M-case generation thrash in GC for over an hour
        ctx["tlc_runs"].append(dict(kind="gen", module=g[0], cfg=g[1], generated=r["generated"],
                                    distinct=r["distinct"], wall=round(r["wall"], 1), cmd=r["cmd"]))
        if not os.path.exists(out):
            raise Infra("generator %s wrote no cases" % g[0])
        got = core.read_ndjson(out)
        ctx["gen_counts"][g[0]] = len(got)
        cases += got
    n_tlc = len(cases)
    if P.get("rand"):
        extra = P["rand"](ctx["seed"], ctx["tier"], cases)
        for c in extra:
            c.setdefault("src", "rand")
        cases += extra
    n_rand = len(cases) - n_tlc
    if P.get("corpus"):
        # the byte strings the authors of the repository's tests chose (harness corpus, from the current working tree)
        cp = os.path.join(ctx["work"], "corpus.ndjson")
        core.sh([ctx["harness"], "corpus", core.REPO, cp], timeout=300)
        extra = P["corpus"](core.read_ndjson(cp), ctx["tier"])
        for c in extra:
            c.setdefault("src", "corpus")
            c["origin"] = "corpus"
        cases += extra
    for i, c in enumerate(cases):
        c["case"] = i + 1
        c.setdefault("src", "tlc")
    ctx["n_tlc_cases"], ctx["n_rand_cases"], ctx["n_corpus_cases"] = n_tlc, n_rand, len(cases) - n_tlc - n_rand
    return cases


def _canary_prefix_confirms(ctx, cases, cid):
    """Re-execute the cases up to and including cid in their original order in a new harness process; confirmed iff
    the process-wide canary changes after case cid again."""
    idx = [k for k, c in enumerate(cases) if c["case"] == cid]
    if not idx:
        return False
    cpath = os.path.join(ctx["work"], "cases-prefix.ndjson")
    tpath = os.path.join(ctx["work"], "trace-prefix.ndjson")
    core.write_ndjson(cpath, cases[:idx[0] + 1])
    p = core.sh([ctx["harness"], "exec", cpath, tpath], timeout=ctx["timeout"], env=ctx.get("harness_env"), check=False)
    if p.returncode != 0 or "EXECUTED" not in p.stdout:
        return False
    with open(tpath) as f:
        for line in f:
            if '"ev":"crash"' in line and '"canary:' in line.replace('": "', '":"'):
                ev = json.loads(line)
                if ev["case"] == cid:
                    return True
    return False


def exec_and_judge(P, ctx, cases, tag):
    """Steps 4-5 on a list of cases; returns rejects [(case id, i, reason)], judge stats."""
    cpath = os.path.join(ctx["work"], "cases-%s.ndjson" % tag)
    tpath = os.path.join(ctx["work"], "trace-%s.ndjson" % tag)
    remaining = list(cases)
    part = 0
    hangs = []
    open(tpath, "w").close()
    while True:
        core.write_ndjson(cpath, remaining)
        ppath = tpath + ".part%d" % part
        p = core.sh([ctx["harness"], "exec", cpath, ppath], timeout=ctx["timeout"], env=ctx.get("harness_env"), check=False)
        m = core.re.search(r"HANG case=(-?\d+)", p.stdout)
        if m:
            # a library call did not return within the case budget: keep the complete cases before it
            hung = int(m.group(1))
            hangs.append(hung)
            with open(tpath, "a") as out, open(ppath) as src:
                for line in src:
                    cm = core.re.search(r'"case":(-?\d+)', line)
                    if cm and int(cm.group(1)) != hung:
                        out.write(line)
            idx = [k for k, c in enumerate(remaining) if c["case"] == hung]
            remaining = remaining[idx[0] + 1:] if idx else []
            part += 1
            if len(hangs) >= 4 or not remaining:
                break
            continue
        if p.returncode != 0 or "EXECUTED" not in p.stdout:
            raise Infra("harness did not finish: " + p.stdout[-500:] + p.stderr[-2000:])
        with open(tpath, "a") as out, open(ppath) as src:
            shutil.copyfileobj(src, out)
        break
    ctx.setdefault("hangs", {})[tag] = hangs
    # a library result that crashed its consumer (the harness): taken out of the trace (the trace specifications do not
    # know the event) and recorded as a rejected case
    crashes = []
    with open(tpath) as f:
        has_crash = any('"ev":"crash"' in line for line in f)
    if has_crash:
        kept = tpath + ".nocrash"
        with open(tpath) as f, open(kept, "w") as out:
            for line in f:
                if '"ev":"crash"' in line:
                    ev = json.loads(line)
                    crashes.append((ev["case"], ev.get("i", 0), "shared_state_changed_by_earlier_use" if str(ev.get("msg", "")).startswith("canary:") else "result_crashes_consumer"))
                else:
                    out.write(line)
        os.replace(kept, tpath)
    if tag == "main":
        # cases the harness could not run because a verification accessor no longer fits the implementation
        with open(tpath) as f:
            nun = sum(1 for line in f if '"ev":"unavailable"' in line)
        ctx["unavailable_cases"] = nun
        if nun * 2 > len(cases):
            raise Infra("the verification accessors (build tag verif) do not fit this implementation: %d of %d cases could not be run" % (nun, len(cases)))
    nsh = P.get("shards", {}).get(ctx["tier"], 1) if tag == "main" else 1
    t = P["trace"]
    rejects, r = core.judge_sharded(ctx["sdir"], t[0], t[1], tpath, ctx["work"], nsh, timeout=ctx["timeout"])
    rejects += [(h, 0, "call_did_not_return") for h in hangs]
    seen = {c for c, _, _ in rejects}
    rejects += [x for x in crashes if x[0] not in seen]
    return rejects, r, tpath


def run_property(P, tier, seed, replay=None):
    t0 = time.time()
    prop = P["id"]
    work = os.path.join(core.ROOT, ".work", "%s-%s-%d" % (prop, tier if not replay else "replay", os.getpid()))
    shutil.rmtree(work, ignore_errors=True)
    os.makedirs(work)
    ctx = dict(work=work, tier=tier, seed=seed, tlc_runs=[], gen_counts={}, workers=P.get("workers", 8),
               timeout=P.get("timeout", {}).get(tier, 3000))
    known = core.load_known()
    try:
        # (1) rebuild the harness from /repo's working tree, hooks on
        ctx["harness"] = core.build_harness(work)
        ctx["sdir"] = core.prepare_spec(work)
        states = transitions = 0
        if replay:
            rp = json.load(open(replay))
            cases = rp["cases"]
        else:
            # (2) exhaustive model check of the specification itself
            for m in P.get("mc", []):
                if len(m) >= 4 and m[3] == "expect_violation":
                    # anti-vacuity: a specification mutant must violate the invariants
                    try:
                        core.tlc(ctx["sdir"], m[0], m[1], work, workers=ctx["workers"], timeout=ctx["timeout"], constants=_tier_consts(m, tier))
                    except Infra as e:
                        if "is violated" in str(e):
                            ctx["tlc_runs"].append(dict(kind="mc-mutant", module=m[0], cfg=m[1], cmd="tlc -config %s %s (specification mutant)" % (m[1], m[0]), result="invariant violated as expected"))
                            continue
                        raise
                    raise Infra("specification mutant %s/%s did not violate any invariant (vacuous model?)" % (m[0], m[1]))
                r = core.tlc(ctx["sdir"], m[0], m[1], work, workers=ctx["workers"], timeout=ctx["timeout"],
                             constants=_tier_consts(m, tier), extra=(["-coverage", "1"] if tier == "thorough" and P.get("coverage") else None))
                if r["distinct"] < 1:
                    raise Infra("model check %s explored no state" % m[0])
                ctx["tlc_runs"].append(dict(kind="mc", module=m[0], cfg=m[1], generated=r["generated"],
                                            distinct=r["distinct"], depth=r["depth"], wall=round(r["wall"], 1), cmd=r["cmd"]))
                states += r["distinct"]
                transitions += r["generated"]
            # (3) cases
            cases = generate_cases(P, ctx)
        if P.get("pre_exec"):
            P["pre_exec"](P, ctx, cases)
        by_id = {c["case"]: c for c in cases}
        # (4)+(5)
        if replay and P.get("nondeterministic") and rp.get("events"):
            tpath = os.path.join(ctx["work"], "trace-main.ndjson")
            core.write_ndjson(tpath, rp["events"])
            rejects, jr = core.judge(ctx["sdir"], P["trace"][0], P["trace"][1], tpath, ctx["work"], timeout=ctx["timeout"])
        else:
            rejects, jr, tpath = exec_and_judge(P, ctx, cases, "main")
        ctx["tlc_runs"].append(dict(kind="judge", module=P["trace"][0], cfg=P["trace"][1], generated=jr["generated"],
                                    distinct=jr["distinct"], wall=round(jr["wall"], 1), cmd=jr["cmd"]))
        states += jr["distinct"]
        transitions += jr["generated"]
        # (6) confirm every reject on the real code, alone
        confirmed = []
        # reasons "harness_*" / "oracle_*": the case could not be set up or has no usable oracle (e.g. an instrument the case
        # relies on - a payloader producing the frames of a loss history, SetExtension building the packet - misbehaves).
        # Never a verdict. A few such cases are left out (counted in the evidence); many mean the check itself is broken.
        unjudgeable = [(cid, i, reason) for cid, i, reason in rejects
                       if reason.startswith("harness_") or reason.startswith("oracle_") or reason == "unknown_event"]
        if unjudgeable:
            ids = {cid for cid, _, _ in unjudgeable}
            if len(ids) > max(5, len(cases) // 50) or any(r == "unknown_event" for _, _, r in unjudgeable):
                cid, i, reason = unjudgeable[0]
                raise Infra("case %d event %d: %s (%d cases; harness/oracle drift, not a verdict)" % (cid, i, reason, len(ids)))
            rejects = [x for x in rejects if x[0] not in ids]
            ctx["unjudgeable_cases"] = len(ids)
        if rejects:
            rej_cases = []
            seen = set()
            for cid, i, reason in rejects:
                if cid not in seen and cid in by_id:
                    seen.add(cid)
                    rej_cases.append(by_id[cid])
            if P.get("nondeterministic"):
                # schedule- or randomness-dependent behaviour: the recorded trace is the real-code
                # behaviour; re-judge exactly those recorded events alone (a fresh JVM, no sharding)
                ids = {c["case"] for c in rej_cases}
                cpath = os.path.join(ctx["work"], "trace-confirm.ndjson")
                with open(cpath, "w") as out, open(tpath) as src:
                    for line in src:
                        m = core.re.search(r'"case":(-?\d+)', line)
                        if m and int(m.group(1)) in ids:
                            out.write(line)
                rj2, _ = core.judge(ctx["sdir"], P["trace"][0], P["trace"][1], cpath, ctx["work"], timeout=ctx["timeout"])
            else:
                rj2, _, _ = exec_and_judge(P, ctx, rej_cases, "confirm")
            again = {(cid, reason) for cid, i, reason in rj2}
            for cid, i, reason in rejects:
                if (cid, reason) in again or (P.get("nondeterministic") and reason in ("result_crashes_consumer", "call_did_not_return")) \
                        or reason == "concurrent_instances_interfere":
                    # (an interference between goroutines was observed on the real code; a race need not show again)
                    # (for a schedule-dependent family the recorded crash / hang IS the observation: it is not in the judge's output)
                    confirmed.append((cid, i, reason))
                elif reason == "shared_state_changed_by_earlier_use" and _canary_prefix_confirms(ctx, cases, cid):
                    # package-level state builds up over a history of calls: the case alone need not show it, the same cases
                    # in the same order in a new process must
                    confirmed.append((cid, i, reason))
                elif reason == "call_did_not_return":
                    # the call exceeded the time budget once and returned in time when the case was run alone:
                    # a loaded machine, not an outcome (counted in the evidence)
                    ctx["transient_timeouts"] = ctx.get("transient_timeouts", 0) + 1
                else:
                    raise Infra("reject of case %d (%s) did not reproduce on re-execution" % (cid, reason))
        # extra legs (concurrency runs, Apalache lemmas, sweeps) supply their own verdicts
        extra_cov = {}
        extra_viol = []
        if P.get("extra") and not replay:
            extra_cov, extra_viol = P["extra"](P, ctx)
            states += extra_cov.pop("_states", 0)
            transitions += extra_cov.pop("_transitions", 0)
        # (7) classify
        findings = {}
        violations = {}
        for cid, i, reason in confirmed:
            case = by_id[cid]
            k = core.classify(prop, case, reason, known)
            if k is not None:
                findings.setdefault(k["signature"], [k, 0])[1] += 1
            else:
                sig = (reason, P["class_of"](case) if P.get("class_of") else case.get("class", ""))
                violations.setdefault(sig, []).append((case, i, reason))
        for sig, (k, n) in sorted(findings.items()):
            log("KNOWN-FINDING: property=%s %s [%s] (%d cases in this run)" % (prop, k["what"], sig, n))
        nviol = 0
        for sig, lst in sorted(violations.items(), key=lambda kv: str(kv[0])):
            case, i, reason = lst[0]
            path = core.replay_path(prop, case, reason)
            os.makedirs(os.path.dirname(path), exist_ok=True)
            evs = [e for e in core.read_ndjson(tpath) if e.get("case") == case["case"]] if os.path.getsize(tpath) < 200e6 else []
            json.dump(dict(property=prop, fam=P.get("fam", prop), reason=reason, failing_event=i, cases=[case],
                           events=evs, spec=dict(module=P["trace"][0], cfg=P["trace"][1]),
                           signature=list(sig), seed=seed, same_signature_cases=len(lst)), open(path, "w"), indent=1)
            log("VIOLATION property=%s replay=%s reason=%s class=%s cases=%d" % (prop, path, reason, sig[1], len(lst)))
            nviol += 1
            if nviol >= 12:
                break
        for v in extra_viol:
            log("VIOLATION property=%s replay=%s %s" % (prop, v["replay"], v.get("what", "")))
            nviol += 1
        # evidence
        classes = {}
        nontriv = set()
        for c in cases:
            cl = P["class_of"](c) if P.get("class_of") else c.get("class", "")
            classes[cl] = classes.get(cl, 0) + 1
            if P.get("nontrivial", lambda c: True)(c):
                key = json.dumps({k: v for k, v in c.items() if k not in ("case", "src")}, sort_keys=True)
                nontriv.add(key)
        if not replay:
            missing = [m for m in P.get("mandatory", []) if classes.get(m, 0) == 0]
            if missing:
                raise Infra("mandatory case classes with no case: %s" % missing)
        samples = []
        seen_cl = set()
        for c in cases:
            cl = P["class_of"](c) if P.get("class_of") else c.get("class", "")
            if cl not in seen_cl and len(samples) < 6:
                seen_cl.add(cl)
                samples.append(c)
        cov = dict(states=states, transitions=transitions, traces_validated_against_impl=len(cases),
                   evaluations=len(cases), distinct_nontrivial=len(nontriv), rule=P.get("rule", ""),
                   samples=samples, exhaustive=bool(P.get("exhaustive", False)),
                   trace_events=jr.get("events", 0), classes=classes, tlc_runs=ctx["tlc_runs"],
                   cases_from_tlc=ctx.get("n_tlc_cases", 0), cases_random=ctx.get("n_rand_cases", 0), cases_from_repository_tests=ctx.get("n_corpus_cases", 0), cases_not_run_accessor_unavailable=ctx.get("unavailable_cases", 0), cases_left_out_no_oracle=ctx.get("unjudgeable_cases", 0), transient_timeouts=ctx.get("transient_timeouts", 0),
                   rejected_cases=len({c for c, _, _ in confirmed}),
                   known_findings={s: n for s, (k, n) in findings.items()},
                   checker_cmd="tlc (tla2tools 1.8.0) " + "; ".join(r["cmd"] for r in ctx["tlc_runs"][:3]))
        cov.update(extra_cov)
        wall = time.time() - t0
        if not replay and not os.environ.get("VERIF_NOEVIDENCE"):
            core.write_evidence(prop, tier, seed, cov, wall, nviol, P.get("assumptions", []))
        log("SUMMARY property=%s tier=%s seed=%d cases=%d events=%d states=%d rejected=%d known=%d violations=%d wall=%.1fs" % (
            prop, tier, seed, len(cases), jr.get("events", 0), states, cov["rejected_cases"], len(findings), nviol, wall))
        return 1 if nviol else 0
    except Infra as e:
        log("INFRA-ERROR property=%s: %s" % (prop, e))
        return 2
    except Exception as e:  # an orchestrator bug is never a verdict
        import traceback
        log("INFRA-ERROR property=%s: orchestrator exception %r\n%s" % (prop, e, traceback.format_exc()))
        return 2
    finally:
        if not os.environ.get("VERIF_KEEP"):
            shutil.rmtree(work, ignore_errors=True)
