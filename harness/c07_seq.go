package main

// C07: sequencer. The verif hook emits one event per NextSequenceNumber inside the
// critical section; clients stamp a global logical clock before the call and after the
// return. The harness proposes, for every client return, the hook event it corresponds to
// (a witness); TLC verifies the witness (DESIGN 4 C07).

import (
	"encoding/json"
	"sort"
	"sync"
	"sync/atomic"

	"github.com/pion/rtp"
	"github.com/pion/rtp/codecs"
)

func init() { families["C07"] = runC07 }

type c07Case struct {
	Kind    string `json:"kind"`
	Start   int    `json:"start"`
	G       int    `json:"g"`
	K       int    `json:"k"`
	Readers int    `json:"readers"`
	Class   string `json:"class"`
	Roc0    []int  `json:"roc0"` // roll-over count the sequencer starts with (8 bytes, big endian); counts are reported relative to it
}

type hookEv struct {
	c   int64
	v   uint16
	roc uint64
}
type callEv struct {
	g        int
	inv, ret int64
	v        uint16
}
type readEv struct {
	g        int
	inv, ret int64
	roc      uint64
}

var c07mu sync.Mutex // one C07 case at a time: the hook is process-global

func runC07(raw json.RawMessage, w *Writer) {
	var c c07Case
	if err := json.Unmarshal(raw, &c); err != nil {
		fatal("C07 case: %v", err)
	}
	if c.Kind == "random_many" {
		// a random sequencer starts below 2^15: construct many and record the largest first value
		max, bad := 0, 0
		for i := 0; i < c.K; i++ {
			v := int(rtp.NewRandomSequencer().NextSequenceNumber())
			if v > max {
				max = v
			}
			if v >= 32768 {
				bad++
			}
		}
		w.Emit(Ev{"ev": "reset", "class": c.Class, "kind": c.Kind, "start": 0, "g": 1, "k": c.K})
		w.Emit(Ev{"ev": "random_many", "n": c.K, "max_first": max, "not_below_2_15": bad})
		return
	}
	if c.Kind == "long_fixed" {
		// several wraps on ONE sequencer, single-threaded and hook-less: the run is projected onto the number of
		// steps that are not "previous + 1 mod 2^16", the calls that returned 0 with the roll-over count read right
		// after each of them, and the final value and count
		s := rtp.NewFixedSequencer(uint16(c.Start))
		breaks, first, last := 0, -1, -1
		zeros := [][]int{}
		r, _ := guard(func() {
			for i := 1; i <= c.K; i++ {
				v := int(s.NextSequenceNumber())
				if first < 0 {
					first = v
				} else if v != (last+1)%65536 {
					breaks++
				}
				last = v
				if v == 0 && len(zeros) < 64 {
					zeros = append(zeros, []int{i, int(s.RollOverCount())})
				}
			}
		})
		w.Emit(Ev{"ev": "reset", "class": c.Class, "kind": c.Kind, "start": c.Start, "g": 1, "k": c.K})
		w.Emit(Ev{"ev": "long", "res": r, "calls": c.K, "first": first, "last": last, "breaks": breaks, "zeros": zeros, "roc": int(s.RollOverCount())})
		return
	}
	if c.Kind == "packetizer" {
		// the sequencer as a component: a packetizer draws the numbers (possibly through other entry points than
		// NextSequenceNumber); observed through the public API only - the packets' sequence numbers and RollOverCount
		seq := rtp.NewFixedSequencer(uint16(c.Start))
		pz := rtp.NewPacketizer(64, 96, 1, &codecs.G711Payloader{}, seq, 8000)
		w.Emit(Ev{"ev": "reset", "class": c.Class, "kind": c.Kind, "start": c.Start, "g": 1, "k": c.K})
		for i := 0; i < c.K; i++ {
			var pkts []*rtp.Packet
			var roc uint64
			r, _ := guard(func() {
				if i%5 == 4 {
					pkts = pz.GeneratePadding(uint32(1 + i%3))
				} else {
					pkts = pz.Packetize(pat(1+(i*37)%200, i), 160)
				}
				roc = seq.RollOverCount()
			})
			seqs := []int{}
			nilPkts := 0
			for _, p := range pkts {
				if p == nil {
					nilPkts++
					continue
				}
				seqs = append(seqs, int(p.SequenceNumber))
			}
			rocI := int(roc)
			if roc > 1<<30 {
				rocI = 1 << 30
			}
			w.Emit(Ev{"ev": "pz", "res": r, "seqs": seqs, "nil_packets": nilPkts, "roc": rocI})
		}
		return
	}
	c07mu.Lock()
	defer c07mu.Unlock()
	var clock int64
	hooks := make([]hookEv, 0, c.G*c.K+8)
	var hookMu sync.Mutex // the sequencer's own mutex normally serialises this; do not rely on it
	rtp.VerifSeqHook = func(v uint16, roc uint64) {
		hookMu.Lock()
		hooks = append(hooks, hookEv{c: atomic.AddInt64(&clock, 1), v: v, roc: roc})
		hookMu.Unlock()
	}
	defer func() { rtp.VerifSeqHook = nil }()
	var seq rtp.Sequencer
	var roc0 uint64
	for _, b := range c.Roc0 {
		roc0 = roc0<<8 | uint64(b)
	}
	switch {
	case c.Kind == "random":
		seq = rtp.NewRandomSequencer()
	case roc0 != 0:
		seq = rtp.VerifNewSequencerAt(uint16(c.Start), roc0)
		if seq == nil {
			// the verification constructor does not fit this implementation: nothing to run
			w.Emit(Ev{"ev": "reset", "class": c.Class, "kind": c.Kind, "start": c.Start, "g": c.G, "k": c.K})
			w.Emit(Ev{"ev": "unavailable"})
			return
		}
	default:
		seq = rtp.NewFixedSequencer(uint16(c.Start))
	}
	rel := func(roc uint64) int {
		d := roc - roc0 // modulo 2^64
		if d > 1<<30 {
			return 1 << 30
		}
		return int(d)
	}
	calls := make([][]callEv, c.G)
	reads := make([][]readEv, c.Readers)
	panics := int32(0)
	var wg sync.WaitGroup
	var stop int32
	startGate := make(chan struct{})
	for g := 0; g < c.G; g++ {
		wg.Add(1)
		go func(g int) {
			defer wg.Done()
			defer func() {
				if recover() != nil {
					atomic.AddInt32(&panics, 1)
				}
			}()
			<-startGate
			out := make([]callEv, 0, c.K)
			for i := 0; i < c.K; i++ {
				inv := atomic.AddInt64(&clock, 1)
				v := seq.NextSequenceNumber()
				ret := atomic.AddInt64(&clock, 1)
				out = append(out, callEv{g: g, inv: inv, ret: ret, v: v})
			}
			calls[g] = out
		}(g)
	}
	var rwg sync.WaitGroup
	for r := 0; r < c.Readers; r++ {
		rwg.Add(1)
		go func(r int) {
			defer rwg.Done()
			defer func() {
				if recover() != nil {
					atomic.AddInt32(&panics, 1)
				}
			}()
			<-startGate
			out := []readEv{}
			for atomic.LoadInt32(&stop) == 0 && len(out) < 400 {
				inv := atomic.AddInt64(&clock, 1)
				roc := seq.RollOverCount()
				ret := atomic.AddInt64(&clock, 1)
				out = append(out, readEv{g: r, inv: inv, ret: ret, roc: roc})
			}
			// one read after everything has finished
			reads[r] = out
		}(r)
	}
	close(startGate)
	wg.Wait()
	atomic.StoreInt32(&stop, 1)
	rwg.Wait()
	finalInv := atomic.AddInt64(&clock, 1)
	finalRoc := seq.RollOverCount()
	finalRet := atomic.AddInt64(&clock, 1)

	w.Emit(Ev{"ev": "reset", "class": c.Class, "kind": c.Kind, "start": c.Start, "g": c.G, "k": c.K})
	// Issue order is forced by the values themselves (value + 65536 * wraps grows by one per issue), so the
	// hook events are put in that order; the order in which the hook calls happened to arrive is not used
	// (a lock-free implementation may report them out of order and still be linearizable).
	sort.SliceStable(hooks, func(i, j int) bool {
		return (hooks[i].roc-roc0)*65536+uint64(hooks[i].v) < (hooks[j].roc-roc0)*65536+uint64(hooks[j].v)
	})
	for _, h := range hooks {
		w.Emit(Ev{"ev": "next", "c": int(h.c), "v": int(h.v), "roc": rel(h.roc)})
	}
	// witness: a one-to-one assignment of client returns to hook events such that every call's
	// value was issued inside its own window. Values repeat after a wrap and a descheduled caller's
	// window can span a whole wrap, so the assignment is searched per value (groups are tiny).
	type flat struct {
		callEv
		ref int
	}
	all := []flat{}
	hooksByVal := map[uint16][]int{}
	for i, h := range hooks {
		hooksByVal[h.v] = append(hooksByVal[h.v], i)
	}
	callsByVal := map[uint16][]callEv{}
	for g := range calls {
		for _, ce := range calls[g] {
			callsByVal[ce.v] = append(callsByVal[ce.v], ce)
		}
	}
	inWindow := func(ce callEv, hi int) bool { return hooks[hi].c > ce.inv && hooks[hi].c < ce.ret }
	for v, cs := range callsByVal {
		hs := hooksByVal[v]
		assign := make([]int, len(cs)) // hook index + 1, 0 = none
		used := make([]bool, len(hs))
		var search func(k int) bool
		search = func(k int) bool {
			if k == len(cs) {
				return true
			}
			for j, hi := range hs {
				if !used[j] && inWindow(cs[k], hi) {
					used[j], assign[k] = true, hi+1
					if search(k + 1) {
						return true
					}
					used[j], assign[k] = false, 0
				}
			}
			return false
		}
		if len(cs) > 8 || !search(0) {
			// no complete assignment: propose greedily so that TLC reports the call that cannot be matched
			for j := range used {
				used[j] = false
			}
			for k := range cs {
				assign[k] = 0
				for j, hi := range hs {
					if !used[j] && inWindow(cs[k], hi) {
						used[j], assign[k] = true, hi+1
						break
					}
				}
			}
		}
		for k, ce := range cs {
			all = append(all, flat{ce, assign[k]})
		}
	}
	sort.SliceStable(all, func(i, j int) bool { return all[i].ref < all[j].ref })
	for _, a := range all {
		w.Emit(Ev{"ev": "call", "g": a.g, "inv": int(a.inv), "ret": int(a.ret), "v": int(a.v), "ref": a.ref})
	}
	// hook-less cross-check (public API only): every value is issued once, so the linearization
	// order is forced by the values; it must respect real time: a call that returned before
	// another was invoked holds the smaller position. Emitted for runs shorter than one wrap.
	if c.Kind != "random" && len(all) < 65536 {
		byPos := make([]flat, len(all))
		copy(byPos, all)
		start := uint16(c.Start)
		sort.SliceStable(byPos, func(i, j int) bool { return uint16(byPos[i].v-start) < uint16(byPos[j].v-start) })
		for k, a := range byPos {
			w.Emit(Ev{"ev": "lin", "pos": k, "inv": int(a.inv), "ret": int(a.ret), "v": int(a.v)})
		}
	}
	// RollOverCount reads, judged by call windows only (no assumption on where inside a call the issue takes
	// effect): a call that returned before the read was invoked is visible to it (and so are all earlier issues);
	// a call invoked after the read returned is not (nor any later issue). lo/hi are witnesses TLC verifies.
	n := len(all)
	complete := n == len(hooks)
	for k := 0; complete && k < n; k++ {
		complete = all[k].ref == k+1
	}
	sufMinRet := make([]int64, n+1)
	preMaxInv := make([]int64, n+1)
	if complete {
		sufMinRet[n] = 1 << 62
		for k := n - 1; k >= 0; k-- {
			sufMinRet[k] = sufMinRet[k+1]
			if all[k].ret < sufMinRet[k] {
				sufMinRet[k] = all[k].ret
			}
		}
		for k := 0; k < n; k++ {
			preMaxInv[k+1] = preMaxInv[k]
			if all[k].inv > preMaxInv[k+1] {
				preMaxInv[k+1] = all[k].inv
			}
		}
	}
	emitRead := func(g int, inv, ret int64, roc uint64) {
		if !complete {
			return // the case is already rejected at the unmatched call
		}
		// lo: largest 1-based k with all[k-1].ret < inv  (sufMinRet is non-decreasing)
		lo := sort.Search(n, func(i int) bool { return sufMinRet[i] >= inv })
		for lo > 0 && all[lo-1].ret >= inv {
			lo--
		}
		// hi: (first 1-based k with all[k-1].inv > ret) - 1
		hi := sort.Search(n, func(i int) bool { return preMaxInv[i+1] > ret })
		w.Emit(Ev{"ev": "read", "g": g, "inv": int(inv), "ret": int(ret), "roc": rel(roc), "lo": lo, "hi": hi})
	}
	for r := range reads {
		for _, re := range reads[r] {
			emitRead(re.g, re.inv, re.ret, re.roc)
		}
	}
	emitRead(-1, finalInv, finalRet, finalRoc)
	w.Emit(Ev{"ev": "end", "nhooks": len(hooks), "ncalls": len(all), "expected": c.G * c.K, "panics": int(panics)})
}
