package main

// G01 (specification growth, not a listed property): the standalone HeaderExtension
// implementers (OneByteHeaderExtension, TwoByteHeaderExtension, RawExtension) driven
// through Set / Del / Get / GetIDs histories. Same abstract machine as C05
// (RtpHeaderExt.tla): an ordered map that must survive re-serialisation.

import (
	"encoding/json"

	"github.com/pion/rtp"
)

func init() { families["G01"] = runG01 }

type g01Case struct {
	View  string  `json:"view"` // onebyte | twobyte | raw
	Block []int   `json:"block"`
	Ops   []c05Op `json:"ops"`
	Class string  `json:"class"`
}

func g01Obs(v rtp.HeaderExtension) Ev {
	ids := []int{}
	vals := [][]int{}
	probes := []Ev{}
	var mb []byte
	size := -1
	r, _ := guard(func() {
		for _, id := range v.GetIDs() {
			ids = append(ids, int(id))
			vals = append(vals, ints(v.Get(id)))
		}
		for _, id := range c05Probe {
			probes = append(probes, Ev{"id": int(id), "val": ints(v.Get(id))})
		}
		mb, _ = v.Marshal()
		mb = cloneBytes(mb)
		size = v.MarshalSize()
	})
	// MarshalTo into destinations of every interesting length: too short -> refused (no panic, no write behind the
	// destination); long enough -> the bytes of Marshal and their count
	mtShort, mtLong := true, true
	if r == "ok" && size >= 0 {
		for _, n := range []int{0, 1, size - 1, size, size + 3} {
			if n < 0 {
				continue
			}
			back := make([]byte, n+4)
			for i := range back {
				back[i] = 0xA5
			}
			var k int
			var err error
			rr, _ := guard(func() { k, err = v.MarshalTo(back[:n:n]) })
			guardOK := back[n] == 0xA5 && back[n+1] == 0xA5 && back[n+2] == 0xA5 && back[n+3] == 0xA5
			if n < size {
				if rr != "ok" || err == nil || !guardOK {
					mtShort = false
				}
			} else if rr != "ok" || err != nil || k != size || string(back[:size]) != string(mb) || !guardOK {
				mtLong = false
			}
		}
	}
	return Ev{"res": r, "ids": ids, "vals": vals, "probes": probes, "marshal": ints(mb), "size": size, "mt_short": mtShort, "mt_long": mtLong}
}

func runG01(raw json.RawMessage, w *Writer) {
	var c g01Case
	if err := json.Unmarshal(raw, &c); err != nil {
		fatal("G01 case: %v", err)
	}
	var v rtp.HeaderExtension
	switch c.View {
	case "onebyte":
		v = &rtp.OneByteHeaderExtension{}
	case "twobyte":
		v = &rtp.TwoByteHeaderExtension{}
	default:
		v = &rtp.RawExtension{}
	}
	w.Emit(Ev{"ev": "reset", "class": c.Class, "view": c.View})
	var err error
	r, _ := guard(func() { _, err = v.Unmarshal(bytesOf(c.Block)) })
	w.Emit(Ev{"ev": "start", "view": c.View, "block": c.Block, "res": outcome(r, err), "obs": g01Obs(v)})
	if r != "ok" || err != nil {
		return
	}
	for _, op := range c.Ops {
		val := pat(op.Len, op.Salt+op.ID)
		rr, _ := guard(func() {
			if op.Op == "set" {
				err = v.Set(uint8(op.ID), val)
			} else {
				err = v.Del(uint8(op.ID))
			}
		})
		w.Emit(Ev{"ev": op.Op, "view": c.View, "id": op.ID, "len": op.Len, "salt": op.Salt + op.ID, "res": outcome(rr, err), "obs": g01Obs(v)})
		if rr == "panic" {
			return
		}
	}
}
