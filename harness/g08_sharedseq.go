package main

// G08 (specification growth, not a listed property): several packetizers that share ONE sequencer, each driven from
// its own goroutine (the sequencer is the only shared object; it is documented as safe for concurrent use). Item (8)
// of DESIGN section 8. No hook: the numbers are read off the packets.

import (
	"encoding/json"
	"sync"

	"github.com/pion/rtp"
	"github.com/pion/rtp/codecs"
)

func init() { families["G08"] = runG08 }

type g08Case struct {
	Start int     `json:"start"`
	Mtu   int     `json:"mtu"`
	Sizes [][]int `json:"sizes"` // per packetizer: payload size of each Packetize call
	Class string  `json:"class"`
}

func runG08(raw json.RawMessage, w *Writer) {
	var c g08Case
	if err := json.Unmarshal(raw, &c); err != nil {
		fatal("G08 case: %v", err)
	}
	w.Emit(Ev{"ev": "reset", "class": c.Class, "start": c.Start})
	seq := rtp.NewFixedSequencer(uint16(c.Start))
	g := len(c.Sizes)
	per := make([][][]int, g) // per packetizer, per call: the sequence numbers on the packets
	foreign := make([]int, g) // packets that carry another packetizer's SSRC / payload type, or nil packets
	panics := make([]int, g)
	var wg sync.WaitGroup
	gate := make(chan struct{})
	for i := 0; i < g; i++ {
		wg.Add(1)
		go func(i int) {
			defer wg.Done()
			pz := rtp.NewPacketizer(uint16(c.Mtu), uint8(96+i), uint32(1000+i), &codecs.G711Payloader{}, seq, 8000)
			<-gate
			for _, n := range c.Sizes[i] {
				buf := make([]byte, n%100000)
				for k := range buf {
					buf[k] = byte(i)
				}
				nums := []int{}
				r, _ := guard(func() {
					var pkts []*rtp.Packet
					if n >= 100000 { // padding-only packets draw from the same sequencer
						pkts = pz.GeneratePadding(uint32(n - 100000))
					} else {
						pkts = pz.Packetize(buf, 160)
					}
					for _, p := range pkts {
						if p == nil || p.SSRC != uint32(1000+i) || p.PayloadType != uint8(96+i) {
							foreign[i]++
							continue
						}
						nums = append(nums, int(p.SequenceNumber))
					}
				})
				if r != "ok" {
					panics[i]++
				}
				per[i] = append(per[i], nums)
			}
		}(i)
	}
	close(gate)
	wg.Wait()
	roc := -1
	guard(func() { roc = int(seq.RollOverCount()) })
	np, nf := 0, 0
	for i := 0; i < g; i++ {
		np += panics[i]
		nf += foreign[i]
	}
	w.Emit(Ev{"ev": "shared", "start": c.Start, "mtu": c.Mtu, "sizes": c.Sizes, "per": per, "roc": roc, "panics": np, "foreign": nf})
}
