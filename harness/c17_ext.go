package main

// C17: fixed-size header-extension payload codecs.

import (
	"encoding/json"
	"fmt"
	"time"

	"github.com/pion/rtp"
)

func init() { families["C17"] = runC17 }

type c17Val struct {
	Level  int   `json:"level"`
	Voice  bool  `json:"voice"`
	Seq    int   `json:"seq"`
	Min    int   `json:"min"`
	Max    int   `json:"max"`
	Ts     any   `json:"ts"`
	HasOff bool  `json:"hasoff"`
	Off    []int `json:"off"`
}

type c17Case struct {
	Kind  string `json:"kind"`
	Codec string `json:"codec"`
	V     c17Val `json:"v"`
	Bytes []int  `json:"bytes"`
	Prev  []int  `json:"prev"`
	Hi    int    `json:"hi"`
	Class string `json:"class"`
	RawV  json.RawMessage
}

type extCodec interface {
	Marshal() ([]byte, error)
	Unmarshal([]byte) error
}

func tsInt(v any) int {
	if f, ok := v.(float64); ok {
		return int(f)
	}
	return 0
}

func tsBytes(v any) []int {
	out := []int{}
	if a, ok := v.([]any); ok {
		for _, x := range a {
			out = append(out, int(x.(float64)))
		}
	}
	return out
}

func c17New(codec string) extCodec {
	switch codec {
	case "audio":
		return &rtp.AudioLevelExtension{}
	case "tcc":
		return &rtp.TransportCCExtension{}
	case "playout":
		return &rtp.PlayoutDelayExtension{}
	case "abssend":
		return &rtp.AbsSendTimeExtension{}
	case "abscapture":
		return &rtp.AbsCaptureTimeExtension{}
	}
	fatal("codec %q", codec)
	return nil
}

func c17Build(codec string, v c17Val) extCodec {
	switch codec {
	case "audio":
		return &rtp.AudioLevelExtension{Level: uint8(v.Level), Voice: v.Voice}
	case "tcc":
		return &rtp.TransportCCExtension{TransportSequence: uint16(v.Seq)}
	case "playout":
		return &rtp.PlayoutDelayExtension{MinDelay: uint16(v.Min), MaxDelay: uint16(v.Max)}
	case "abssend":
		return &rtp.AbsSendTimeExtension{Timestamp: uint64(tsInt(v.Ts))}
	case "abscapture":
		e := &rtp.AbsCaptureTimeExtension{Timestamp: u64of(tsBytes(v.Ts))}
		if v.HasOff {
			o := int64(u64of(v.Off))
			e.EstimatedCaptureClockOffset = &o
		}
		return e
	}
	fatal("codec %q", codec)
	return nil
}

func c17Fields(codec string, e extCodec) Ev {
	switch x := e.(type) {
	case *rtp.AudioLevelExtension:
		return Ev{"level": int(x.Level), "voice": x.Voice}
	case *rtp.TransportCCExtension:
		return Ev{"seq": int(x.TransportSequence)}
	case *rtp.PlayoutDelayExtension:
		return Ev{"min": int(x.MinDelay), "max": int(x.MaxDelay)}
	case *rtp.AbsSendTimeExtension:
		if x.Timestamp >= 1<<31 {
			return Ev{"ts": -1}
		}
		return Ev{"ts": int(x.Timestamp)}
	case *rtp.AbsCaptureTimeExtension:
		off := make([]int, 8)
		if x.EstimatedCaptureClockOffset != nil {
			off = be64(uint64(*x.EstimatedCaptureClockOffset))
		}
		return Ev{"ts": be64(x.Timestamp), "hasoff": x.EstimatedCaptureClockOffset != nil, "off": off}
	}
	return Ev{}
}

// c17Full: a value the application built itself with every field at its largest value (also bits a
// decode can never produce, e.g. the ~50-bit timestamp NewAbsSendTimeExtension stores)
func c17Full(codec string) extCodec {
	switch codec {
	case "audio":
		return &rtp.AudioLevelExtension{Level: 255, Voice: true}
	case "tcc":
		return &rtp.TransportCCExtension{TransportSequence: 0xFFFF}
	case "playout":
		return &rtp.PlayoutDelayExtension{MinDelay: 0xFFFF, MaxDelay: 0xFFFF}
	case "abssend":
		return &rtp.AbsSendTimeExtension{Timestamp: ^uint64(0)}
	case "abscapture":
		o := int64(-1)
		return &rtp.AbsCaptureTimeExtension{Timestamp: ^uint64(0), EstimatedCaptureClockOffset: &o}
	}
	return c17New(codec)
}

// c17Canary: fixed values built and marshalled through every constructor and codec; what they give must never change
// during a run (package-level tables, shared pointers or pooled buffers corrupted by an earlier use would show here)
func c17Canary() string {
	out := []int{}
	guard(func() {
		t0 := time.Unix(1700000000, 123456789)
		for _, e := range []extCodec{
			&rtp.AudioLevelExtension{Level: 10, Voice: true}, &rtp.AudioLevelExtension{Level: 11}, &rtp.AudioLevelExtension{Level: 127, Voice: true},
			&rtp.TransportCCExtension{TransportSequence: 0x1234}, &rtp.PlayoutDelayExtension{MinDelay: 1, MaxDelay: 2},
			&rtp.AbsSendTimeExtension{Timestamp: 0x123456}, rtp.NewAbsSendTimeExtension(t0), rtp.NewAbsCaptureTimeExtension(t0),
			rtp.NewAbsCaptureTimeExtensionWithCaptureClockOffset(t0, 0), rtp.NewAbsCaptureTimeExtensionWithCaptureClockOffset(t0, 3*time.Second),
		} {
			b, err := e.Marshal()
			out = append(out, len(b))
			if err != nil {
				out = append(out, -1)
			}
			out = append(out, ints(b)...)
		}
		z := rtp.NewAbsCaptureTimeExtensionWithCaptureClockOffset(t0, 0).EstimatedCaptureClockOffsetDuration()
		if z == nil {
			out = append(out, -2)
		} else {
			out = append(out, int(*z))
		}
	})
	return fmt.Sprint(out)
}

var c17Pristine = c17Canary()

func c17CanaryOK() bool { return c17Canary() == c17Pristine }

func c17Decode(codec string, prev, b []byte, usePrev bool) Ev {
	e := c17New(codec)
	if usePrev && len(prev)%4 == 3 && (codec == "abscapture" || codec == "abssend") {
		// the receiver is a value a constructor handed out
		if codec == "abscapture" {
			e = rtp.NewAbsCaptureTimeExtensionWithCaptureClockOffset(time.Unix(1600000000, 7), 0)
		} else {
			e = rtp.NewAbsSendTimeExtension(time.Unix(1600000000, 7))
		}
	} else if usePrev && len(prev)%2 == 1 {
		e = c17Full(codec) // the receiver is a value the application built, not an earlier decode
		if len(prev)%4 == 1 {
			guard(func() { _ = e.Unmarshal(prev) })
		}
	} else if usePrev {
		guard(func() { _ = e.Unmarshal(prev) })
	}
	var err error
	r, _ := guard(func() { err = e.Unmarshal(b) })
	return Ev{"res": outcome(r, err), "fields": c17Fields(codec, e)}
}

func runC17(raw json.RawMessage, w *Writer) {
	var c c17Case
	if err := json.Unmarshal(raw, &c); err != nil {
		fatal("C17 case: %v", err)
	}
	var m map[string]json.RawMessage
	_ = json.Unmarshal(raw, &m)
	w.Emit(Ev{"ev": "reset", "class": c.Class})
	switch c.Kind {
	case "marshal":
		e := c17Build(c.Codec, c.V)
		var b []byte
		var err error
		r, _ := guard(func() { b, err = e.Marshal() })
		back := Ev{"res": "none", "fields": c17Fields(c.Codec, c17New(c.Codec))}
		first := ints(b)
		again := first
		if r == "ok" && err == nil {
			back = c17Decode(c.Codec, nil, b, false)
			// what Marshal returned is the caller's: it writes over it (and fills the spare capacity, if any);
			// the same value and its neighbours must still marshal to the same bytes afterwards
			for i := range b {
				b[i] ^= 0xFF
			}
			full := b[:cap(b)]
			for i := len(b); i < len(full); i++ {
				full[i] = 0xEE
			}
			guard(func() {
				b2, err2 := c17Build(c.Codec, c.V).Marshal()
				if err2 == nil {
					again = ints(b2)
				} else {
					again = []int{-1}
				}
			})
		}
		w.Emit(Ev{"ev": "marshal", "codec": c.Codec, "v": m["v"], "res": outcome(r, err), "bytes": first, "again": again, "back": back, "canary_ok": c17CanaryOK()})
	case "unmarshal":
		b, prev := bytesOf(c.Bytes), bytesOf(c.Prev)
		var bb []byte
		if len(c.Bytes) > 0 {
			bb = b
		}
		w.Emit(Ev{"ev": "unmarshal", "codec": c.Codec, "bytes": c.Bytes, "prevlen": len(prev),
			"fresh": c17Decode(c.Codec, nil, bb, false), "used": c17Decode(c.Codec, prev, bb, len(prev) > 0), "canary_ok": c17CanaryOK()})
	case "sweep":
		w.Emit(c17Sweep(c.Codec, c.Hi))
	}
}

// c17Sweep covers one high byte (2^16 points) of a 2^24 domain and counts points that
// violate field separability or round-trip identity; TLC judges the counts to be 0 and the
// axis cases exactly, which together give bit-exactness on the whole product.
func c17Sweep(codec string, hi int) Ev {
	nonsep, rtfail, panics, unsep := 0, 0, 0, 0
	for lo := 0; lo < 65536; lo++ {
		x := hi<<16 | lo
		r, _ := guard(func() {
			switch codec {
			case "playout":
				a, b := uint16(x>>12), uint16(x&0xFFF)
				full, e1 := rtp.PlayoutDelayExtension{MinDelay: a, MaxDelay: b}.Marshal()
				pa, e2 := rtp.PlayoutDelayExtension{MinDelay: a}.Marshal()
				pb, e3 := rtp.PlayoutDelayExtension{MaxDelay: b}.Marshal()
				if e1 != nil || e2 != nil || e3 != nil || len(full) != 3 || len(pa) != 3 || len(pb) != 3 {
					nonsep++
					return
				}
				for i := 0; i < 3; i++ {
					if full[i] != pa[i]|pb[i] {
						nonsep++
						break
					}
				}
				var d, da, db rtp.PlayoutDelayExtension
				if d.Unmarshal(full) != nil || d.MinDelay != a || d.MaxDelay != b {
					rtfail++
				}
				// decoder separability on the raw triple x
				raw := []byte{byte(x >> 16), byte(x >> 8), byte(x)}
				_ = d.Unmarshal(raw)
				_ = da.Unmarshal([]byte{raw[0], raw[1] & 0xF0, 0})
				_ = db.Unmarshal([]byte{0, raw[1] & 0x0F, raw[2]})
				if d.MinDelay != da.MinDelay || d.MaxDelay != db.MaxDelay || da.MaxDelay != 0 || db.MinDelay != 0 {
					unsep++
				}
			case "abssend":
				full, _ := rtp.AbsSendTimeExtension{Timestamp: uint64(x)}.Marshal()
				p0, _ := rtp.AbsSendTimeExtension{Timestamp: uint64(x & 0xFF0000)}.Marshal()
				p1, _ := rtp.AbsSendTimeExtension{Timestamp: uint64(x & 0xFF00)}.Marshal()
				p2, _ := rtp.AbsSendTimeExtension{Timestamp: uint64(x & 0xFF)}.Marshal()
				if len(full) != 3 || len(p0) != 3 || len(p1) != 3 || len(p2) != 3 {
					nonsep++
					return
				}
				for i := 0; i < 3; i++ {
					if full[i] != p0[i]|p1[i]|p2[i] {
						nonsep++
						break
					}
				}
				var d, d0, d1, d2 rtp.AbsSendTimeExtension
				if d.Unmarshal(full) != nil || d.Timestamp != uint64(x) {
					rtfail++
				}
				raw := []byte{byte(x >> 16), byte(x >> 8), byte(x)}
				_ = d.Unmarshal(raw)
				_ = d0.Unmarshal([]byte{raw[0], 0, 0})
				_ = d1.Unmarshal([]byte{0, raw[1], 0})
				_ = d2.Unmarshal([]byte{0, 0, raw[2]})
				if d.Timestamp != d0.Timestamp|d1.Timestamp|d2.Timestamp {
					unsep++
				}
			}
		})
		if r != "ok" {
			panics++
		}
	}
	return Ev{"ev": "sweep", "codec": codec, "hi": hi, "points": 65536, "nonsep": nonsep, "rtfail": rtfail, "unsep": unsep, "panics": panics}
}
