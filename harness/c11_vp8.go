package main

// C11: VP8 descriptor decoding and payloader contract.

import (
	"encoding/json"

	"github.com/pion/rtp/codecs"
)

func init() { families["C11"] = runC11 }

type frameJ struct {
	Len   int  `json:"len"`
	Salt  int  `json:"salt"`
	FillV *int `json:"fillv"`
	// optional: the application flips EnablePictureID before this frame (exported field)
	PidOn *bool `json:"pidon"`
}

// frameBytes builds the frame: the pattern, or a constant byte when fillv >= 0.
func frameBytes(fr frameJ) ([]byte, int) {
	b := pat(fr.Len, fr.Salt)
	fv := -1
	if fr.FillV != nil && *fr.FillV >= 0 {
		fv = *fr.FillV
		for i := range b {
			b[i] = byte(fv)
		}
	}
	return b, fv
}

type c11Case struct {
	Kind    string          `json:"kind"`
	Bytes   []int           `json:"bytes"`
	Dlen    int             `json:"dlen"`
	Want    json.RawMessage `json:"want"`
	WantOk  bool            `json:"wantok"`
	Mtu     int             `json:"mtu"`
	PidOn   bool            `json:"pidon"`
	StartID int             `json:"startid"`
	Frames  []frameJ        `json:"frames"`
	Class   string          `json:"class"`
	Huge    int             `json:"huge"`
}

func vp8Decode(b []byte) Ev { return vp8DecodeInto(&codecs.VP8Packet{}, b) }

// a descriptor with every optional field present and every field non-zero, then one payload byte
var vp8Rich = []byte{0xB7, 0xF0, 0xFF, 0xFF, 0xFF, 0xFF, 0x55}

func vp8DecodeInto(p *codecs.VP8Packet, b []byte) Ev {
	var out []byte
	var err error
	var head bool
	r, _ := guard(func() {
		out, err = p.Unmarshal(b)
		head = p.IsPartitionHead(b)
	})
	return Ev{"res": outcome(r, err), "f": meta(p), "out": ints(out), "head": head}
}

func runC11(raw json.RawMessage, w *Writer) {
	var c c11Case
	if err := json.Unmarshal(raw, &c); err != nil {
		fatal("C11 case: %v", err)
	}
	w.Emit(Ev{"ev": "reset", "class": c.Class})
	switch c.Kind {
	case "decode":
		b := bytesOf(c.Bytes)
		var in []byte
		if len(b) > 0 || c.WantOk {
			in = b
		} else {
			in = []byte{}
		}
		d := vp8Decode(in)
		// the same descriptor into a VP8Packet that has decoded a descriptor with every field set before
		usedP := &codecs.VP8Packet{}
		usedP.SetZeroAllocation(len(in)%2 == 1) // every other case: zero-allocation mode
		guard(func() { _, _ = usedP.Unmarshal(cloneBytes(vp8Rich)) })
		u := vp8DecodeInto(usedP, in)
		w.Emit(Ev{"ev": "decode", "bytes": c.Bytes, "dlen": c.Dlen, "want": c.Want, "wantok": c.WantOk, "res": d["res"], "f": d["f"], "out": d["out"], "head": d["head"],
			"used": Ev{"res": u["res"], "f": u["f"], "out": u["out"]}})
	case "huge":
		w.Emit(hugeVP8(c.Huge, c.Mtu))
	case "payload":
		p := &codecs.VP8Payloader{EnablePictureID: c.PidOn}
		if !codecs.VerifSetVP8PictureID(p, uint16(c.StartID)) && c.StartID != 0 {
			// the verification accessor does not fit this implementation: only a fresh payloader (id 0) can be run
			w.Emit(Ev{"ev": "unavailable"})
			return
		}
		for k, fr := range c.Frames {
			frame, fv := frameBytes(fr)
			if fr.PidOn != nil {
				p.EnablePictureID = *fr.PidOn
			}
			var frags [][]byte
			r, _ := guard(func() { frags = p.Payload(uint16(c.Mtu), cloneBytes(frame)) })
			decs := []Ev{}
			for _, f := range frags {
				decs = append(decs, vp8Decode(f))
			}
			w.Emit(Ev{"ev": "payload", "k": k, "mtu": c.Mtu, "pidon": p.EnablePictureID, "startid": c.StartID, "len": fr.Len, "salt": fr.Salt, "fillv": fv,
				"res": r, "frags": intss(frags), "decoded": decs})
		}
	}
}
