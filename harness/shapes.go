package main

// Codec-shaped input builders for the generic payloader / depacketizer contracts (C08,
// C09). Inputs are not judged content-wise there; the descriptors keep cases small.

func buildInput(shape string, n, salt int) []byte {
	switch shape {
	case "nil":
		return nil
	case "empty":
		return []byte{}
	case "pat":
		return pat(n, salt)
	case "zeros":
		return make([]byte, n)
	case "ff":
		b := make([]byte, n)
		for i := range b {
			b[i] = 0xFF
		}
		return b
	case "annexb3", "annexb4", "annexb_mixed", "h265nals":
		return annexB(shape, n, salt)
	case "obu", "obu_nosize_last", "obu_ext", "obu_bad":
		return obuStream(shape, n, salt)
	case "vp9_key", "vp9_inter", "vp9_p1", "vp9_p3", "vp9_existing":
		return vp9Frame(shape, n, salt)
	case "h264_params", "h264_sps", "h264_pps", "h264_slice":
		sps := append([]byte{0, 0, 0, 1, 0x67}, pat(4+n%7, salt)...)
		pps := append([]byte{0, 0, 1, 0x68}, pat(3+n%5, salt+1)...)
		switch shape {
		case "h264_sps":
			return sps
		case "h264_pps":
			return pps
		case "h264_params":
			return append(sps, pps...)
		}
		return append([]byte{0, 0, 1, 0x65}, pat(n, salt+2)...)
	case "obu_frame_only":
		// one OBU_FRAME with a size field and nothing else (no temporal delimiter, no sequence header)
		out := append([]byte{0x32}, leb(n)...)
		return append(out, pat(n, salt)...)
	case "obu_two":
		// a frame-header OBU whose transmitted size is n bytes (header + n-1 payload), then a small frame OBU
		if n < 1 {
			n = 1
		}
		out := append([]byte{0x1A}, leb(n-1)...)
		out = append(out, pat(n-1, salt)...)
		return append(out, 0x32, 0x03, 7, 8, 9)
	case "startcodes":
		b := []byte{}
		for len(b) < n {
			b = append(b, 0, 0, 1)
			if (len(b)+salt)%2 == 0 {
				b = append(b, 0)
			}
		}
		return b[:n]
	}
	fatal("unknown shape %q", shape)
	return nil
}

func annexB(shape string, n, salt int) []byte {
	types := []byte{7, 8, 5, 1, 9, 12, 6, 1, 5}
	h265 := []byte{32, 33, 34, 19, 1, 39, 40, 0, 47}
	out := []byte{}
	k := salt
	for len(out) < n || len(out) == 0 {
		four := shape == "annexb4" || (shape == "annexb_mixed" && k%2 == 0) || (shape == "h265nals" && k%3 == 0)
		if four {
			out = append(out, 0, 0, 0, 1)
		} else {
			out = append(out, 0, 0, 1)
		}
		ln := 2 + (k*7+n)%(n/3+4)
		if shape == "h265nals" {
			t := h265[k%len(h265)]
			out = append(out, t<<1, byte(1+k%7))
		} else {
			t := types[k%len(types)]
			out = append(out, byte(k%4)<<5|t)
		}
		body := pat(ln, salt+k)
		out = append(out, body...)
		k++
		if n == 0 {
			break
		}
	}
	if len(out) > n && n > 0 {
		out = out[:n]
	}
	return out
}

func leb(v int) []byte {
	out := []byte{}
	for {
		b := byte(v & 0x7f)
		v >>= 7
		if v == 0 {
			return append(out, b)
		}
		out = append(out, b|0x80)
	}
}

func obuStream(shape string, n, salt int) []byte {
	out := []byte{0x12, 0x00} // temporal delimiter with size 0
	types := []int{1, 6, 3, 4, 5, 15, 8, 2, 6}
	k := salt
	for len(out) < n {
		t := types[k%len(types)]
		ln := (k*5 + n) % (n/2 + 3)
		hdr := byte(t<<3) | 0x02
		var ext []byte
		if shape == "obu_ext" {
			hdr |= 0x04
			ext = []byte{byte((k%3)<<5 | (k%2)<<3)}
		}
		last := len(out)+2+ln >= n
		if shape == "obu_nosize_last" && last {
			hdr &^= 0x02
			out = append(out, hdr)
			out = append(out, ext...)
			out = append(out, pat(ln, k)...)
			break
		}
		out = append(out, hdr)
		out = append(out, ext...)
		sz := ln
		if shape == "obu_bad" && k%3 == 1 {
			sz = ln + 50 // declared size larger than what follows
		}
		out = append(out, leb(sz)...)
		out = append(out, pat(ln, k)...)
		k++
	}
	return out
}

func vp9Frame(shape string, n, salt int) []byte {
	var hdr []byte
	switch shape {
	case "vp9_key": // profile 0 key frame, 8 bit, 640x480-ish
		hdr = []byte{0x82, 0x49, 0x83, 0x42, 0x00, 0x27, 0xF0, 0x1D, 0xF6, 0x00}
	case "vp9_inter":
		hdr = []byte{0x86, 0x00, 0x40, 0x92}
	case "vp9_p1": // profile 1 key frame
		hdr = []byte{0xA2, 0x49, 0x83, 0x42, 0x20, 0x02, 0x7F, 0x01, 0xDF, 0x60}
	case "vp9_p3": // profile 3 key frame
		hdr = []byte{0xB1, 0x24, 0xC1, 0xA1, 0x40, 0x00, 0x4F, 0xE0, 0x3B, 0xEC}
	case "vp9_existing":
		hdr = []byte{0x8B, 0x00}
	}
	out := append([]byte{}, hdr...)
	if n > len(out) {
		out = append(out, pat(n-len(out), salt)...)
	}
	if n < len(out) {
		out = out[:n]
	}
	return out
}
