package main

// C10: H264 payloader / depacketizer.

import (
	"bytes"
	"encoding/json"

	"github.com/pion/rtp/codecs"
)

func init() { families["C10"] = runC10 }

type c10Call struct {
	Units [][]int `json:"units"`
	Scs   []int   `json:"scs"`
	Mtu   int     `json:"mtu"`       // 0: the case's MTU
	StapA *bool   `json:"stapa_now"` // set: the application changes DisableStapA before this call
}

type c10Case struct {
	Kind     string    `json:"kind"`
	Mtu      int       `json:"mtu"`
	StapA    bool      `json:"stapa"`
	Calls    []c10Call `json:"calls"`
	Payloads [][]int   `json:"payloads"`
	Huge     int       `json:"huge"`
	Class    string    `json:"class"`
}

type h264Rx struct {
	annexb, avc *codecs.H264Packet
}

func newH264Rx() *h264Rx {
	return &h264Rx{annexb: &codecs.H264Packet{}, avc: &codecs.H264Packet{IsAVC: true}}
}

// feed gives one payload to both receivers and projects what they returned.
func (r *h264Rx) feed(p []byte) Ev {
	var o1, o2 []byte
	var e1, e2 error
	var head bool
	res, _ := guard(func() {
		head = r.annexb.IsPartitionHead(p)
		o1, e1 = r.annexb.Unmarshal(cloneBytes(p))
		o2, e2 = r.avc.Unmarshal(cloneBytes(p))
	})
	return Ev{"res": res, "annexb_res": outcome("ok", e1), "avc_res": outcome("ok", e2), "annexb": ints(o1), "avc": ints(o2), "head": head}
}

// annexbStream lays the calls' units out in one buffer (start codes as given) followed by a closing
// 4-byte start code and a unit header; bounds[k]..bounds[k+1] is call k's window.
func annexbStream(calls []c10Call) ([]byte, []int) {
	stream := []byte{}
	bounds := []int{0}
	for _, call := range calls {
		for i, u := range call.Units {
			if call.Scs[i] == 4 {
				stream = append(stream, 0, 0, 0, 1)
			} else {
				stream = append(stream, 0, 0, 1)
			}
			stream = append(stream, bytesOf(u)...)
		}
		bounds = append(bounds, len(stream))
	}
	stream = append(stream, 0, 0, 0, 1, 0x65, 0x88)
	return stream, bounds
}

func runC10(raw json.RawMessage, w *Writer) {
	var c c10Case
	if err := json.Unmarshal(raw, &c); err != nil {
		fatal("C10 case: %v", err)
	}
	w.Emit(Ev{"ev": "reset", "class": c.Class, "kind": c.Kind, "mtu": c.Mtu, "stapa": c.StapA})
	rx := newH264Rx()
	if c.Kind == "huge" {
		w.Emit(hugeH264(c.Huge, c.Mtu))
		return
	}
	if c.Kind == "decoder" {
		for k, p := range c.Payloads {
			e := rx.feed(bytesOf(p))
			e["ev"], e["k"], e["payload"] = "depack", k, p
			w.Emit(e)
		}
		return
	}
	p := &codecs.H264Payloader{DisableStapA: !c.StapA}
	// an encoder-style caller: all access units of the history lie one after the other in ONE stream buffer and every
	// call gets its window of it (what follows a window - the next unit, or a closing start code - is the caller's data)
	stream, bounds := annexbStream(c.Calls)
	pristine := cloneBytes(stream)
	for k, call := range c.Calls {
		input := pristine[bounds[k]:bounds[k+1]]
		var frags [][]byte
		mtu := c.Mtu
		if call.Mtu > 0 {
			mtu = call.Mtu
		}
		if call.StapA != nil {
			p.DisableStapA = !*call.StapA
		}
		r, _ := guard(func() { frags = p.Payload(uint16(mtu), stream[bounds[k]:bounds[k+1]]) })
		intact := bytes.Equal(stream, pristine) // the call wrote neither into its window nor into what lies behind it
		deps := []Ev{}
		for _, f := range frags {
			deps = append(deps, rx.feed(f))
		}
		w.Emit(Ev{"ev": "payload", "k": k, "units": call.Units, "scs": call.Scs, "input": ints(input), "mtu": mtu, "stapa": !p.DisableStapA, "stream_intact": intact, "res": r, "frags": intss(frags), "deps": deps})
	}
}
