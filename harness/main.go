// Command harness steps TLC-generated (and seeded random) cases through the real
// pion/rtp code and records what the code did as NDJSON trace events. It decides
// nothing: TLC judges the trace against the TLA+ specification.
package main

import (
	"bufio"
	"encoding/json"
	"fmt"
	"os"
	"runtime"
	"sort"
	"time"
)

// memBudget bounds the live heap of one case (runaway allocation counts as not returning).
const memBudget = 3 << 30

// caseBudget bounds one case (a handful of library calls on small inputs).
var caseBudget = 30 * time.Second

// Ev is one trace event. Every integer must stay below 2^31 and there is no null.
type Ev map[string]any

type Writer struct {
	w   *bufio.Writer
	cas int
	i   int
	nEv int
	fam string
}

func (w *Writer) Begin(cas int, fam string) { w.cas, w.i, w.fam = cas, 0, fam }

func (w *Writer) Emit(e Ev) {
	e["case"] = w.cas
	e["i"] = w.i
	w.i++
	w.nEv++
	b, err := json.Marshal(e)
	if err != nil {
		fatal("marshal event: %v", err)
	}
	w.w.Write(b)
	w.w.WriteByte('\n')
}

func fatal(f string, a ...any) {
	fmt.Fprintf(os.Stderr, "harness: "+f+"\n", a...)
	os.Exit(2)
}

type runner func(raw json.RawMessage, w *Writer)

var families = map[string]runner{}

func main() {
	if len(os.Args) < 2 {
		fatal("usage: harness exec <cases.ndjson> <trace.ndjson> | harness sweep <name> <out.ndjson> | harness families")
	}
	switch os.Args[1] {
	case "families":
		var names []string
		for k := range families {
			names = append(names, k)
		}
		sort.Strings(names)
		for _, n := range names {
			fmt.Println(n)
		}
	case "exec":
		if len(os.Args) != 4 {
			fatal("usage: harness exec <cases.ndjson> <trace.ndjson>")
		}
		execCases(os.Args[2], os.Args[3])
	case "sweep":
		if len(os.Args) < 4 {
			fatal("usage: harness sweep <name> <out.ndjson> [args]")
		}
		runSweep(os.Args[2], os.Args[3], os.Args[4:])
	case "corpus":
		if len(os.Args) != 4 {
			fatal("usage: harness corpus <repo> <out.ndjson>")
		}
		runCorpus(os.Args[2], os.Args[3])
	default:
		fatal("unknown command %q", os.Args[1])
	}
}

func execCases(casesPath, tracePath string) {
	in, err := os.Open(casesPath)
	if err != nil {
		fatal("%v", err)
	}
	defer in.Close()
	out, err := os.Create(tracePath)
	if err != nil {
		fatal("%v", err)
	}
	w := &Writer{w: bufio.NewWriterSize(out, 1<<20)}
	sc := bufio.NewScanner(in)
	sc.Buffer(make([]byte, 1<<20), 1<<28)
	n := 0
	canaryChanged() // what the fixed values give before the first case
	for sc.Scan() {
		line := sc.Bytes()
		if len(line) == 0 {
			continue
		}
		var head struct {
			Case int    `json:"case"`
			Fam  string `json:"fam"`
		}
		if err := json.Unmarshal(line, &head); err != nil {
			fatal("case line %d: %v", n+1, err)
		}
		run, ok := families[head.Fam]
		if !ok {
			fatal("unknown family %q", head.Fam)
		}
		w.Begin(head.Case, head.Fam)
		raw := append(json.RawMessage(nil), line...)
		// watchdog: a call that does not return is an outcome too (reported, never judged by TLC)
		done := make(chan struct{})
		go func(cas int) {
			deadline := time.After(caseBudget)
			tick := time.NewTicker(100 * time.Millisecond)
			defer tick.Stop()
			for {
				select {
				case <-done:
					return
				case <-tick.C:
					var ms runtime.MemStats
					runtime.ReadMemStats(&ms)
					if ms.HeapAlloc < memBudget {
						continue
					}
				case <-deadline:
				}
				// the main goroutine is stuck inside the library (or allocating without bound):
				// nothing else writes to the trace
				w.w.Flush()
				fmt.Printf("HANG case=%d executed_before=%d\n", cas, n)
				os.Exit(0)
			}
		}(head.Case)
		func() {
			// the harness consumes what the library returns (dereferences returned packets, indexes returned
			// slices): a result that crashes this consumer is an outcome of the case, recorded as such
			defer func() {
				if r := recover(); r != nil {
					w.Emit(Ev{"ev": "crash", "msg": fmt.Sprint(r)})
				}
			}()
			run(raw, w)
			if canaryChanged() {
				w.Emit(Ev{"ev": "crash", "msg": "canary: fixed values through fresh objects give something else after this case"})
			}
		}()
		close(done)
		n++
	}
	if err := sc.Err(); err != nil {
		fatal("%v", err)
	}
	if err := w.w.Flush(); err != nil {
		fatal("%v", err)
	}
	out.Close()
	fmt.Printf("EXECUTED cases=%d events=%d\n", n, w.nEv)
}

// ---- shared helpers -------------------------------------------------------

const scribble = 253

// pat mirrors Bytes!Pat: 1 + ((7*i + 13*salt) % 250), i from 0.
func pat(n, salt int) []byte {
	b := make([]byte, n)
	for i := range b {
		b[i] = byte(1 + ((7*i + 13*salt) % 250))
	}
	return b
}

func ints(b []byte) []int {
	out := make([]int, len(b))
	for i, v := range b {
		out[i] = int(v)
	}
	return out
}

func intss(bs [][]byte) [][]int {
	out := make([][]int, len(bs))
	for i, b := range bs {
		out[i] = ints(b)
	}
	return out
}

func bytesOf(a []int) []byte {
	out := make([]byte, len(a))
	for i, v := range a {
		out[i] = byte(v)
	}
	return out
}

func cloneBytes(b []byte) []byte {
	if b == nil {
		return nil
	}
	return append([]byte{}, b...)
}

func cloneFrags(f [][]byte) [][]byte {
	out := make([][]byte, len(f))
	for i := range f {
		out[i] = cloneBytes(f[i])
	}
	return out
}

func scribbleBuf(b []byte) {
	for i := range b {
		b[i] = scribble
	}
}

// guard runs f and reports "ok" or "panic" (with the panic text for diagnosis only).
func guard(f func()) (res string, msg string) {
	defer func() {
		if r := recover(); r != nil {
			res, msg = "panic", fmt.Sprint(r)
		}
	}()
	f()
	return "ok", ""
}

func be32(v uint32) []int {
	return []int{int(v >> 24), int(v >> 16 & 255), int(v >> 8 & 255), int(v & 255)}
}
func be64(v uint64) []int {
	out := make([]int, 8)
	for i := 0; i < 8; i++ {
		out[i] = int(v >> (56 - 8*i) & 255)
	}
	return out
}
func u32of(a []int) uint32 {
	var v uint32
	for _, x := range a {
		v = v<<8 | uint32(x&255)
	}
	return v
}
func u64of(a []int) uint64 {
	var v uint64
	for _, x := range a {
		v = v<<8 | uint64(x&255)
	}
	return v
}
