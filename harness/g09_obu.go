package main

// G09 (specification growth, not a listed property): obu.OBU.Marshal (low-overhead bitstream format) read back by the
// specification; found uncovered by selftest/coverage.sh.

import (
	"encoding/json"

	"github.com/pion/rtp/codecs/av1/obu"
)

func init() { families["G09"] = runG09 }

type g09Obu struct {
	Type    int   `json:"type"`
	Ext     bool  `json:"ext"`
	Tid     int   `json:"tid"`
	Sid     int   `json:"sid"`
	R3      int   `json:"r3"`
	R1      int   `json:"r1"`
	HasSize bool  `json:"hassize"`
	Payload []int `json:"payload"`
}

type g09Case struct {
	Obus  []g09Obu `json:"obus"`
	Class string   `json:"class"`
}

func runG09(raw json.RawMessage, w *Writer) {
	var c g09Case
	if err := json.Unmarshal(raw, &c); err != nil {
		fatal("G09 case: %v", err)
	}
	var m map[string]json.RawMessage
	_ = json.Unmarshal(raw, &m)
	w.Emit(Ev{"ev": "reset", "class": c.Class})
	each := [][]int{}
	parsed := []Ev{}
	stream := []byte{}
	r, _ := guard(func() {
		for _, o := range c.Obus {
			v := obu.OBU{Header: obu.Header{Type: obu.Type(o.Type), HasSizeField: o.HasSize, Reserved1Bit: o.R1 == 1}, Payload: bytesOf(o.Payload)}
			if o.Ext {
				v.Header.ExtensionHeader = &obu.ExtensionHeader{TemporalID: uint8(o.Tid), SpatialID: uint8(o.Sid), Reserved3Bits: uint8(o.R3)}
			}
			b := v.Marshal()
			each = append(each, ints(b))
			stream = append(stream, b...)
			h, err := obu.ParseOBUHeader(b)
			p := Ev{"res": outcome("ok", err), "type": 0, "ext": false, "hassize": false, "r1": 0, "tid": 0, "sid": 0, "r3": 0, "size": 0}
			if err == nil && h != nil {
				p["type"], p["hassize"], p["size"] = int(h.Type), h.HasSizeField, h.Size()
				if h.Reserved1Bit {
					p["r1"] = 1
				}
				if x := h.ExtensionHeader; x != nil {
					p["ext"], p["tid"], p["sid"], p["r3"] = true, int(x.TemporalID), int(x.SpatialID), int(x.Reserved3Bits)
				}
			}
			parsed = append(parsed, p)
		}
	})
	// the header parser on nothing at all, and on an extension flag without the extension byte
	emptyRes, cutRes := "ok", "ok"
	guard(func() {
		_, e0 := obu.ParseOBUHeader([]byte{})
		_, e1 := obu.ParseOBUHeader([]byte{0x0c})
		emptyRes, cutRes = outcome("ok", e0), outcome("ok", e1)
	})
	w.Emit(Ev{"ev": "obus", "res": r, "empty_res": emptyRes, "cut_res": cutRes, "obus": m["obus"], "each": each, "stream": ints(stream), "parsed": parsed})
}
