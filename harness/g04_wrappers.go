package main

// G04 (specification growth, not a listed property): the deprecated wrappers (the
// *PartitionHeadChecker types, pkg/obu) against what replaced them, and the LEB128 encoders.

import (
	"encoding/json"

	"github.com/pion/rtp/codecs"
	"github.com/pion/rtp/codecs/av1/obu"
	oldobu "github.com/pion/rtp/pkg/obu"
)

func init() { families["G04"] = runG04 }

type g04Case struct {
	Kind   string `json:"kind"`
	Bytes  []int  `json:"bytes"`
	Digits []int  `json:"digits"`
	Class  string `json:"class"`
}

func lebRes(v, n uint, err error) Ev {
	return Ev{"v": be64(uint64(v)), "n": int(n), "err": err != nil}
}

func runG04(raw json.RawMessage, w *Writer) {
	var c g04Case
	if err := json.Unmarshal(raw, &c); err != nil {
		fatal("G04 case: %v", err)
	}
	w.Emit(Ev{"ev": "reset", "class": c.Class})
	switch c.Kind {
	case "bytes":
		b := bytesOf(c.Bytes)
		var in []byte
		if len(b) > 0 {
			in = b
		}
		pairs := []Ev{}
		r, _ := guard(func() {
			pairs = append(pairs,
				Ev{"codec": "h264", "primary": (&codecs.H264Packet{}).IsPartitionHead(in), "wrapper": (&codecs.H264PartitionHeadChecker{}).IsPartitionHead(in)},
				Ev{"codec": "vp8", "primary": (&codecs.VP8Packet{}).IsPartitionHead(in), "wrapper": (&codecs.VP8PartitionHeadChecker{}).IsPartitionHead(in)},
				Ev{"codec": "vp9", "primary": (&codecs.VP9Packet{}).IsPartitionHead(in), "wrapper": (&codecs.VP9PartitionHeadChecker{}).IsPartitionHead(in)},
				Ev{"codec": "opus", "primary": (&codecs.OpusPacket{}).IsPartitionHead(in), "wrapper": (&codecs.OpusPartitionHeadChecker{}).IsPartitionHead(in)})
		})
		w.Emit(Ev{"ev": "heads", "bytes": c.Bytes, "res": r, "pairs": pairs})
		var p, q Ev
		r, _ = guard(func() {
			p = lebRes(obu.ReadLeb128(in))
			q = lebRes(oldobu.ReadLeb128(in))
		})
		w.Emit(Ev{"ev": "lebread", "bytes": c.Bytes, "res": r, "primary": p, "wrapper": q})
	case "digits":
		var v uint64
		for i := len(c.Digits) - 1; i >= 0; i-- {
			v = v<<7 | uint64(c.Digits[i])
		}
		var p, q []int
		var written []byte
		back := []int{}
		r, _ := guard(func() {
			p = be64(uint64(obu.EncodeLEB128(uint(v))))
			q = be64(uint64(oldobu.EncodeLEB128(uint(v))))
			written = obu.WriteToLeb128(uint(v))
			got, _, err := obu.ReadLeb128(written)
			if err == nil {
				x := uint64(got)
				for {
					back = append(back, int(x&0x7f))
					x >>= 7
					if x == 0 {
						break
					}
				}
			}
		})
		w.Emit(Ev{"ev": "lebenc", "digits": c.Digits, "res": r, "primary": p, "wrapper": q, "written": ints(written), "readback": back})
	}
}
