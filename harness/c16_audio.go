package main

import (
	"bytes"
	"encoding/json"

	"github.com/pion/rtp"
	"github.com/pion/rtp/codecs"
)

type c16Case struct {
	Kind  string `json:"kind"`
	Len   int    `json:"len"`
	Mtu   int    `json:"mtu"`
	Salt  int    `json:"salt"`
	IsNil bool   `json:"isnil"`
	Big   bool   `json:"big"`
	Class string `json:"class"`
	FillV *int   `json:"fillv"`
}

func init() { families["C16"] = runC16 }

func audioPayloader(kind string) rtp.Payloader {
	switch kind {
	case "g711":
		return &codecs.G711Payloader{}
	case "g722":
		return &codecs.G722Payloader{}
	case "opus":
		return &codecs.OpusPayloader{}
	}
	fatal("unknown audio kind %q", kind)
	return nil
}

func runC16(raw json.RawMessage, w *Writer) {
	var c c16Case
	if err := json.Unmarshal(raw, &c); err != nil {
		fatal("C16 case: %v", err)
	}
	w.Emit(Ev{"ev": "reset", "kind": c.Kind, "class": c.Class})
	var input []byte
	fillv := -1
	if c.FillV != nil {
		fillv = *c.FillV
	}
	if !c.IsNil {
		input = pat(c.Len, c.Salt)
		if fillv >= 0 {
			for i := range input {
				input[i] = byte(fillv)
			}
		}
	}
	pristine := cloneBytes(input)
	base := Ev{"kind": c.Kind, "len": c.Len, "salt": c.Salt, "mtu": c.Mtu, "isnil": c.IsNil, "big": c.Big, "fillv": fillv}
	ev := func(name string) Ev {
		e := Ev{"ev": name}
		for k, v := range base {
			e[k] = v
		}
		return e
	}
	if c.Kind == "opusdepack" {
		var pkt codecs.OpusPacket
		var out []byte
		var err error
		var head, tail bool
		heads, tails := []bool{}, []bool{}
		res, msg := guard(func() {
			out, err = pkt.Unmarshal(input)
			head = pkt.IsPartitionHead(input)
			tail = pkt.IsPartitionTail(false, input) && pkt.IsPartitionTail(true, input)
			// "always": whatever payload is asked about, also the ones Unmarshal rejects, on a used and on a fresh packet
			for _, q := range [][]byte{nil, {}, {0}, pristine} {
				var fresh codecs.OpusPacket
				heads = append(heads, pkt.IsPartitionHead(q), fresh.IsPartitionHead(q))
				tails = append(tails, pkt.IsPartitionTail(false, q), pkt.IsPartitionTail(true, q), fresh.IsPartitionTail(true, q))
			}
		})
		if res == "ok" && err != nil {
			res = "err"
		}
		// the same input on a packet that has decoded something before, and on one the application filled in itself
		usedRes, usedOut := "ok", []byte(nil)
		r2, _ := guard(func() {
			used := &codecs.OpusPacket{}
			_, _ = used.Unmarshal([]byte{7, 8, 9})
			o1, e1 := used.Unmarshal(input)
			built := &codecs.OpusPacket{Payload: []byte{4, 5, 6}}
			o2, e2 := built.Unmarshal(input)
			if (e1 == nil) != (e2 == nil) || !bytes.Equal(o1, o2) {
				usedRes = "differ"
				return
			}
			usedOut = o1
			if e1 != nil {
				usedRes = "err"
			}
		})
		if r2 != "ok" {
			usedRes = "panic"
		}
		e := ev("depack")
		e["res"], e["out"], e["head"], e["tail"], e["diag"] = res, ints(out), head, tail, msg
		e["used_res"], e["used_out"] = usedRes, ints(usedOut)
		e["heads"], e["tails"] = heads, tails
		w.Emit(e)
		return
	}
	p := audioPayloader(c.Kind)
	var frags [][]byte
	res, msg := guard(func() { frags = p.Payload(uint16(c.Mtu), input) })
	e := ev("payload")
	e["res"], e["diag"] = res, msg
	e["input_unchanged"] = bytes.Equal(input, pristine)
	if c.Big {
		lens := make([]int, len(frags))
		facts := make([]bool, len(frags))
		off := 0
		for i, f := range frags {
			lens[i] = len(f)
			facts[i] = off+len(f) <= len(pristine) && bytes.Equal(f, pristine[off:off+len(f)])
			off += len(f)
		}
		e["lens"], e["facts"], e["frags"] = lens, facts, [][]int{}
	} else {
		e["frags"], e["lens"], e["facts"] = intss(frags), []int{}, []bool{}
	}
	w.Emit(e)
	if res != "ok" || c.Big {
		return
	}
	// the caller reuses its buffer: fragments already returned must not move
	scribbleBuf(input)
	e2 := ev("reread")
	e2["frags"] = intss(frags)
	w.Emit(e2)
}
