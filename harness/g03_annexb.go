package main

// G03 (specification growth, not a listed property): the Annex B splitter shared by the H264 and
// H265 payloaders, observed through the public API: Payload with the largest MTU, no STAP-A /
// aggregation, so every unit comes back as one single NAL unit packet.

import (
	"encoding/json"

	"github.com/pion/rtp/codecs"
)

func init() { families["G03"] = runG03 }

type g03Case struct {
	Bytes []int  `json:"bytes"`
	Class string `json:"class"`
}

func runG03(raw json.RawMessage, w *Writer) {
	var c g03Case
	if err := json.Unmarshal(raw, &c); err != nil {
		fatal("G03 case: %v", err)
	}
	w.Emit(Ev{"ev": "reset", "class": c.Class})
	for _, codec := range []string{"h264", "h265"} {
		var frags [][]byte
		r, _ := guard(func() {
			if codec == "h264" {
				frags = (&codecs.H264Payloader{DisableStapA: true}).Payload(65535, bytesOf(c.Bytes))
			} else {
				frags = (&codecs.H265Payloader{SkipAggregation: true}).Payload(65535, bytesOf(c.Bytes))
			}
		})
		w.Emit(Ev{"ev": "split", "codec": codec, "bytes": c.Bytes, "res": r, "units": intss(frags)})
	}
}
