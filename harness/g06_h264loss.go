package main

// G06 (specification growth, not a listed property): H264Packet packet by packet under loss (Annex-B and AVC framing).

import "encoding/json"

func init() { families["G06"] = runG06 }

func runG06(raw json.RawMessage, w *Writer) {
	var c g05Case
	if err := json.Unmarshal(raw, &c); err != nil {
		fatal("G06 case: %v", err)
	}
	w.Emit(Ev{"ev": "reset", "class": c.Class})
	rx := newH264Rx()
	for k, p := range c.Packets {
		e := rx.feed(bytesOf(p))
		e["ev"], e["k"], e["p"] = "packet", k, p
		w.Emit(e)
	}
}
