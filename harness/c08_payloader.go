package main

// C08: generic payloader contract (MTU bound, no panic, input neither modified nor
// retained). A twin instance fed pristine copies is the oracle for "later outputs are
// unaffected by overwriting earlier inputs".

import (
	"bytes"
	"encoding/json"
	"sync"

	"github.com/pion/rtp"
	"github.com/pion/rtp/codecs"
)

func init() { families["C08"] = runC08 }

type c08Call struct {
	Mtu   int    `json:"mtu"`
	Shape string `json:"shape"`
	Len   int    `json:"len"`
	Salt  int    `json:"salt"`
	Bytes []int  `json:"bytes"` // shape "raw": the input itself (strings taken from the repository's tests)
}

type c08Case struct {
	Kind     string    `json:"kind"`
	Calls    []c08Call `json:"calls"`
	Scribble bool      `json:"scribble"`
	Class    string    `json:"class"`
	Parallel bool      `json:"parallel"` // afterwards the same history runs on four more instances, each in its own goroutine
}

func newPayloaderOpt(kind string) rtp.Payloader {
	switch kind {
	case "g711", "g722", "opus", "h264", "vp8", "vp8pid":
		return newPayloader(kind)
	case "h264_nostap":
		return &codecs.H264Payloader{DisableStapA: true}
	case "h265":
		return &codecs.H265Payloader{}
	case "h265_donl":
		return &codecs.H265Payloader{AddDONL: true}
	case "h265_skipagg":
		return &codecs.H265Payloader{SkipAggregation: true}
	case "h265_donl_skipagg":
		return &codecs.H265Payloader{AddDONL: true, SkipAggregation: true}
	case "vp9":
		return &codecs.VP9Payloader{InitialPictureIDFn: func() uint16 { return 32766 }}
	case "vp9_flex":
		return &codecs.VP9Payloader{FlexibleMode: true, InitialPictureIDFn: func() uint16 { return 32766 }}
	case "av1":
		return &codecs.AV1Payloader{}
	}
	fatal("payloader kind %q", kind)
	return nil
}

func runC08(raw json.RawMessage, w *Writer) {
	var c c08Case
	if err := json.Unmarshal(raw, &c); err != nil {
		fatal("C08 case: %v", err)
	}
	w.Emit(Ev{"ev": "reset", "class": c.Class, "kind": c.Kind})
	p := newPayloaderOpt(c.Kind)
	twin := newPayloaderOpt(c.Kind)
	type held struct {
		frags [][]byte // the slices handed out by the real payloader
		snap  [][]byte // their content at return time
	}
	var hs []held
	var seqOut [][][]byte // what every call returned, at return time
	var seqIn [][]byte    // what every call was given
	defer func() {
		// independent instances used at the same time (one payloader per track, each on its own goroutine) must
		// behave as one instance used alone: package-level scratch state shared between instances would show here
		if !c.Parallel || len(seqOut) != len(c.Calls) {
			return
		}
		const G = 4
		bad := make([]bool, G)
		var wg sync.WaitGroup
		start := make(chan struct{})
		for g := 0; g < G; g++ {
			wg.Add(1)
			go func(g int) {
				defer wg.Done()
				defer func() {
					if recover() != nil {
						bad[g] = true
					}
				}()
				q := newPayloaderOpt(c.Kind)
				<-start
				for k, call := range c.Calls {
					frags := q.Payload(uint16(call.Mtu), cloneBytes(seqIn[k]))
					if len(frags) != len(seqOut[k]) {
						bad[g] = true
						return
					}
					for i := range frags {
						if !bytes.Equal(frags[i], seqOut[k][i]) {
							bad[g] = true
							return
						}
					}
				}
			}(g)
		}
		close(start)
		wg.Wait()
		ok := true
		for _, b := range bad {
			ok = ok && !b
		}
		w.Emit(Ev{"ev": "parallel", "instances": G, "same_as_alone": ok})
	}()
	var inputs [][]byte
	// an encoder-style caller: one backing buffer, refilled for every call (so every new input
	// overwrites the memory of the previous ones with plausible data, not only with the scribble byte)
	arena := make([]byte, 0)
	for k, call := range c.Calls {
		var fresh []byte
		if call.Shape == "raw" {
			fresh = make([]byte, len(call.Bytes))
			for i, v := range call.Bytes {
				fresh[i] = byte(v)
			}
		} else {
			fresh = buildInput(call.Shape, call.Len, call.Salt)
		}
		input := fresh
		if fresh != nil && k%2 == 1 || (fresh != nil && len(c.Calls) > 1 && k > 0) {
			if cap(arena) < len(fresh) {
				arena = make([]byte, len(fresh), len(fresh)+64)
			}
			arena = arena[:len(fresh)]
			copy(arena, fresh)
			input = arena
		} else if fresh != nil {
			arena = append(make([]byte, 0, len(fresh)+64), fresh...)
			input = arena
		}
		pristine := cloneBytes(input)
		// the input is a window of a larger caller buffer: what lies behind it (within the capacity) is the caller's
		// next data, e.g. the next access unit of the same stream buffer (it begins with a 4-byte start code here)
		var behind, behindBefore []byte
		if input != nil {
			behind = input[len(input):cap(input)]
			for i := range behind {
				behind[i] = 0xC3
			}
			copy(behind, []byte{0, 0, 0, 1, 0x65})
			behindBefore = cloneBytes(behind)
		}
		var frags, tfrags [][]byte
		r, msg := guard(func() { frags = p.Payload(uint16(call.Mtu), input) })
		guard(func() { tfrags = twin.Payload(uint16(call.Mtu), cloneBytes(pristine)) })
		lens := make([]int, len(frags))
		for i, f := range frags {
			lens[i] = len(f)
		}
		twinEq := len(frags) == len(tfrags)
		if twinEq {
			for i := range frags {
				if !bytes.Equal(frags[i], tfrags[i]) {
					twinEq = false
				}
			}
		}
		w.Emit(Ev{"ev": "payload", "k": k, "kind": c.Kind, "mtu": call.Mtu, "shape": call.Shape, "inlen": len(input), "isnil": input == nil,
			"res": r, "diag": msg, "lens": lens, "input_unchanged": bytes.Equal(input, pristine), "behind_input_unchanged": bytes.Equal(behind, behindBefore), "twin_equal": twinEq})
		if r != "ok" {
			return
		}
		hs = append(hs, held{frags: frags, snap: cloneFrags(frags)})
		seqOut = append(seqOut, cloneFrags(frags))
		seqIn = append(seqIn, pristine)
		inputs = append(inputs, input)
		if c.Scribble {
			// the caller reuses every buffer it passed so far
			for _, in := range inputs {
				scribbleBuf(in)
			}
			same := []bool{}
			for _, h := range hs {
				ok := true
				for i := range h.frags {
					if !bytes.Equal(h.frags[i], h.snap[i]) {
						ok = false
					}
				}
				same = append(same, ok)
			}
			w.Emit(Ev{"ev": "reread", "k": k, "unchanged": same})
			// what Payload returned is the caller's: it appends a trailer to one fragment and writes over another one
			// (e.g. an auth tag, in-place encryption); no OTHER fragment handed out so far may change, and later
			// calls are compared with the twin as before
			if len(hs) > 0 && len(hs[len(hs)-1].frags) > 0 {
				last := hs[len(hs)-1]
				i := k % len(last.frags)
				if cap(last.frags[i]) > len(last.frags[i]) {
					ext := last.frags[i][:len(last.frags[i])+1]
					ext[len(ext)-1] = 0xEE
				}
				intact := func() bool {
					for _, h := range hs {
						for q := range h.frags {
							if !bytes.Equal(h.frags[q], h.snap[q]) {
								return false
							}
						}
					}
					return true
				}
				others := intact() // after the append
				j := (k + 1) % len(last.frags)
				for x := range last.frags[j] {
					last.frags[j][x] ^= 0xFF
				}
				last.snap[j] = cloneBytes(last.frags[j])
				others = others && intact() // after the overwrite
				w.Emit(Ev{"ev": "callerwrite", "k": k, "others_unchanged": others})
			}
		}
	}
}
