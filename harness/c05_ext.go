package main

// C05: header-extension accessors as an ordered map that survives the wire.

import (
	"encoding/json"
	"fmt"

	"github.com/pion/rtp"
)

func init() { families["C05"] = runC05 }

type c05Op struct {
	Op   string `json:"op"` // set | del | setfrom (value = the slice GetExtension(src) returns)
	ID   int    `json:"id"`
	Len  int    `json:"len"`
	Salt int    `json:"salt"`
	Src  int    `json:"src"`
}

type c05Case struct {
	Start string  `json:"start"`
	Ops   []c05Op `json:"ops"`
	Class string  `json:"class"`
}

var c05Probe = []uint8{0, 1, 2, 3, 5, 14, 15, 16, 200, 255}

func c05Start(kind string) *rtp.Header {
	h := &rtp.Header{Version: 2, PayloadType: 96, SequenceNumber: 1, Timestamp: 1, SSRC: 2}
	switch kind {
	case "fresh":
	case "onebyte":
		h.Extension, h.ExtensionProfile = true, 0xBEDE
	case "twobyte":
		h.Extension, h.ExtensionProfile = true, 0x1000
	case "legacy":
		h.Extension, h.ExtensionProfile = true, 0x1234
	case "um_onebyte_plain", "um_twobyte_plain":
		// a receiver that decoded a packet with an extension block and then one without (X clear)
		h = c05Start(kind[:len(kind)-6])
		if _, err := h.Unmarshal([]byte{0x80, 96, 0, 2, 0, 0, 0, 2, 0, 0, 0, 2, 9, 9}); err != nil {
			fatal("C05 start %s: %v", kind, err)
		}
	case "um_onebyte", "um_twobyte", "um_legacy", "um_dup":
		var raw []byte
		base := []byte{0x90, 96, 0, 1, 0, 0, 0, 1, 0, 0, 0, 2}
		switch kind {
		case "um_onebyte": // id 3 (2 bytes), gap, id 5 (1 byte); payload follows
			raw = append(base, 0xBE, 0xDE, 0, 2, 0x31, 0xA1, 0xA2, 0x00, 0x50, 0xB1, 0, 0, 9, 9)
		case "um_dup": // id 5 (AA), id 7 (CC), id 5 again (BB): a wire image may repeat an id
			raw = append(base, 0xBE, 0xDE, 0, 2, 0x50, 0xAA, 0x70, 0xCC, 0x50, 0xBB, 0, 0, 9, 9)
		case "um_twobyte": // id 3 (0 bytes), id 200 (3 bytes)
			raw = append(base, 0x10, 0x00, 0, 2, 3, 0, 200, 3, 0xC1, 0xC2, 0xC3, 0, 9, 9)
		default:
			raw = append(base, 0x12, 0x34, 0, 1, 0xD1, 0xD2, 0xD3, 0xD4, 9, 9)
		}
		h = &rtp.Header{}
		if _, err := h.Unmarshal(raw); err != nil {
			fatal("C05 start %s: %v", kind, err)
		}
	default:
		fatal("C05 start %q", kind)
	}
	return h
}

// c05Lists reads the map through the public accessors: the id list, Get of every listed
// id, and Get of the probe ids that are NOT listed (expected to be empty).
func c05Lists(h *rtp.Header) (ids []int, vals [][]int, absent []Ev) {
	ids, vals, absent = []int{}, [][]int{}, []Ev{}
	seen := map[uint8]bool{}
	for _, id := range h.GetExtensionIDs() {
		ids = append(ids, int(id))
		vals = append(vals, ints(h.GetExtension(id)))
		seen[id] = true
	}
	for _, id := range c05Probe {
		if !seen[id] {
			absent = append(absent, Ev{"id": int(id), "val": ints(h.GetExtension(id))})
		}
	}
	return
}

func c05Obs(h *rtp.Header) Ev {
	var ids []int
	var vals [][]int
	var absent []Ev
	res, _ := guard(func() { ids, vals, absent = c05Lists(h) })
	if ids == nil {
		ids, vals, absent = []int{}, [][]int{}, []Ev{}
	}
	prof := 0
	if h.Extension {
		prof = int(h.ExtensionProfile)
	}
	// raw: the underlying ordered list (a wire image may repeat an id; the accessors show the first match)
	raw := []Ev{}
	if h.Extension {
		raw = extList(h)
	}
	return Ev{"res": res, "x": h.Extension, "profile": prof, "ids": ids, "vals": vals, "probes": absent, "raw": raw}
}

func c05Wire(h *rtp.Header) Ev {
	none := func(res, kind string) Ev {
		return Ev{"res": res, "errkind": kind, "ids": []int{}, "vals": [][]int{}, "probes": []Ev{}}
	}
	p := &rtp.Packet{Header: h.Clone(), Payload: []byte{7, 8, 9}}
	var buf []byte
	var err error
	r, _ := guard(func() { buf, err = p.Marshal() })
	if r == "panic" {
		// Clone itself may be the culprit; retry without it to attribute correctly
		p2 := &rtp.Packet{Header: *h, Payload: []byte{7, 8, 9}}
		r, _ = guard(func() { buf, err = p2.Marshal() })
		if r == "panic" {
			return none("panic", "")
		}
	}
	if err != nil {
		return none("merr", errKind(err))
	}
	q := &rtp.Packet{}
	r, _ = guard(func() { err = q.Unmarshal(buf) })
	if r == "panic" {
		return none("panic", "")
	}
	if err != nil {
		return none("uerr", "")
	}
	ids, vals, absent := c05Lists(&q.Header)
	return Ev{"res": "ok", "errkind": "", "ids": ids, "vals": vals, "probes": absent}
}

func runC05(raw json.RawMessage, w *Writer) {
	var c c05Case
	if err := json.Unmarshal(raw, &c); err != nil {
		fatal("C05 case: %v", err)
	}
	w.Emit(Ev{"ev": "reset", "class": c.Class, "start": c.Start})
	h := c05Start(c.Start)
	w.Emit(Ev{"ev": "start", "start": c.Start, "obs": c05Obs(h), "wire": c05Wire(h)})
	for _, op := range c.Ops {
		var err error
		val := pat(op.Len, op.Salt+op.ID)
		before := fmt.Sprintf("%+v", *h)
		r, _ := guard(func() {
			switch op.Op {
			case "set":
				err = h.SetExtension(uint8(op.ID), val)
			case "setfrom":
				// the caller hands the very slice it got from GetExtension(src) to another id
				val = h.GetExtension(uint8(op.Src))
				err = h.SetExtension(uint8(op.ID), val)
			default:
				err = h.DelExtension(uint8(op.ID))
			}
		})
		w.Emit(Ev{"ev": op.Op, "id": op.ID, "len": op.Len, "salt": op.Salt + op.ID, "src": op.Src, "res": outcome(r, err),
			"struct_unchanged": fmt.Sprintf("%+v", *h) == before, "obs": c05Obs(h), "wire": c05Wire(h)})
	}
}
