package main

var sweeps = map[string]func(out string, args []string){}

func runSweep(name, out string, args []string) {
	f, ok := sweeps[name]
	if !ok {
		fatal("unknown sweep %q", name)
	}
	f(out, args)
}
