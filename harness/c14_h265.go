package main

// C14: H265 parser, header accessors and payloader.

import (
	"bytes"
	"encoding/json"

	"github.com/pion/rtp/codecs"
)

func init() { families["C14"] = runC14 }

type c14Call struct {
	Units   [][]int `json:"units"`
	Scs     []int   `json:"scs"`
	SkipAgg *bool   `json:"skipagg_now"` // set: the application changes SkipAggregation before this call
	Donl    *bool   `json:"donl_now"`    // set: the application changes AddDONL before this call
}

type c14Case struct {
	Huge    int             `json:"huge"`
	Kind    string          `json:"kind"`
	Bytes   []int           `json:"bytes"`
	Donl    bool            `json:"donl"`
	Want    json.RawMessage `json:"want"`
	Full    json.RawMessage `json:"full"`
	WantOk  bool            `json:"wantok"`
	Lenient bool            `json:"lenient"`
	V       int             `json:"v"`
	Mtu     int             `json:"mtu"`
	SkipAgg bool            `json:"skipagg"`
	Calls   []c14Call       `json:"calls"`
	Class   string          `json:"class"`
}

func h265Parse(b []byte, donl bool) Ev {
	p := &codecs.H265Packet{}
	p.WithDONL(donl)
	return h265ParseInto(p, b)
}

// well-formed payloads of each kind with every optional field present (without / with DONL)
func h265Rich(kind int, donl bool) []byte {
	switch {
	case kind == 48 && donl:
		return []byte{96, 1, 0, 7, 0, 3, 64, 1, 5, 9, 0, 3, 66, 1, 6}
	case kind == 48:
		return []byte{96, 1, 0, 3, 64, 1, 5, 0, 3, 66, 1, 6}
	case kind == 49 && donl:
		return []byte{98, 1, 147, 0, 7, 1, 2, 3}
	case kind == 49:
		return []byte{98, 1, 147, 1, 2, 3}
	case kind == 50:
		return []byte{100, 1, 130, 56, 170, 187, 204, 38, 1, 9}
	case donl:
		return []byte{38, 1, 0, 9, 4, 4, 4}
	}
	return []byte{38, 1, 4, 4, 4}
}

// h265Used: a receiver that has decoded one payload of every kind, the kind of b last
func h265Used(b []byte, donl bool) *codecs.H265Packet {
	p := &codecs.H265Packet{}
	p.WithDONL(donl)
	p.SetZeroAllocation(len(b)%2 == 1) // every other case: the reused receiver runs in zero-allocation mode
	kinds := []int{19, 48, 50, 49}
	if len(b) > 0 {
		k := int(b[0]>>1) & 63
		if k < 48 || k > 50 {
			k = 19
		}
		kinds = append(kinds, k)
	}
	for _, k := range kinds {
		guard(func() { _, _ = p.Unmarshal(h265Rich(k, donl)) })
	}
	return p
}

func h265ParseInto(p *codecs.H265Packet, b []byte) Ev {
	var err error
	var head bool
	r, _ := guard(func() {
		_, err = p.Unmarshal(b)
		head = p.IsPartitionHead(b)
	})
	m := Ev{"type": "none"}
	if r == "ok" && err == nil {
		m = h265Meta(p)
	}
	return Ev{"res": outcome(r, err), "m": m, "head": head}
}

func runC14(raw json.RawMessage, w *Writer) {
	var c c14Case
	if err := json.Unmarshal(raw, &c); err != nil {
		fatal("C14 case: %v", err)
	}
	w.Emit(Ev{"ev": "reset", "class": c.Class})
	switch c.Kind {
	case "huge":
		w.Emit(hugeH265(c.Huge, c.Mtu))
	case "decode":
		d := h265Parse(bytesOf(c.Bytes), c.Donl)
		u := h265ParseInto(h265Used(bytesOf(c.Bytes), c.Donl), bytesOf(c.Bytes))
		w.Emit(Ev{"ev": "decode", "bytes": c.Bytes, "donl": c.Donl, "wantok": c.WantOk, "lenient": c.Lenient, "want": c.Want, "full": c.Full,
			"res": d["res"], "m": d["m"], "head": d["head"], "used": Ev{"res": u["res"], "m": u["m"]}})
	case "hdr16":
		h := codecs.H265NALUHeader(uint16(c.V))
		w.Emit(Ev{"ev": "hdr16", "v": c.V, "F": h.F(), "Type": int(h.Type()), "LayerID": int(h.LayerID()), "TID": int(h.TID()),
			"ap": h.IsAggregationPacket(), "fu": h.IsFragmentationUnit(), "paci": h.IsPACIPacket(), "vcl": h.IsTypeVCLUnit()})
	case "fu8":
		f := codecs.H265FragmentationUnitHeader(uint8(c.V))
		w.Emit(Ev{"ev": "fu8", "v": c.V, "S": f.S(), "E": f.E(), "FuType": int(f.FuType())})
	case "payload":
		p := &codecs.H265Payloader{AddDONL: c.Donl, SkipAggregation: c.SkipAgg}
		// all access units of the history lie in ONE stream buffer; every call gets its window of it (see annexbStream)
		cc := make([]c10Call, len(c.Calls))
		for i, call := range c.Calls {
			cc[i] = c10Call{Units: call.Units, Scs: call.Scs}
		}
		stream, bounds := annexbStream(cc)
		pristine := cloneBytes(stream)
		for k, call := range c.Calls {
			var frags [][]byte
			if call.SkipAgg != nil {
				p.SkipAggregation = *call.SkipAgg
			}
			if call.Donl != nil {
				p.AddDONL = *call.Donl
			}
			donl := p.AddDONL
			r, _ := guard(func() { frags = p.Payload(uint16(c.Mtu), stream[bounds[k]:bounds[k+1]]) })
			intact := bytes.Equal(stream, pristine) // the call wrote neither into its window nor into what lies behind it
			parsed := []Ev{}
			for _, f := range frags {
				parsed = append(parsed, h265Parse(f, donl))
			}
			w.Emit(Ev{"ev": "payload", "k": k, "mtu": c.Mtu, "donl": donl, "skipagg": p.SkipAggregation, "units": call.Units, "res": r, "stream_intact": intact,
				"frags": intss(frags), "parsed": parsed})
		}
	}
}
