package main

// G05 (specification growth, not a listed property): AV1Depacketizer packet by packet under loss. The case is the
// list of delivered packets (a lossy earlier frame followed by an intact one, from the reference sender in AV1Loss.tla).

import (
	"encoding/json"

	"github.com/pion/rtp/codecs"
)

func init() { families["G05"] = runG05 }

type g05Case struct {
	Packets [][]int `json:"packets"`
	Class   string  `json:"class"`
}

func runG05(raw json.RawMessage, w *Writer) {
	var c g05Case
	if err := json.Unmarshal(raw, &c); err != nil {
		fatal("G05 case: %v", err)
	}
	w.Emit(Ev{"ev": "reset", "class": c.Class})
	d := &codecs.AV1Depacketizer{}
	for k, p := range c.Packets {
		var out []byte
		var err error
		r, _ := guard(func() { out, err = d.Unmarshal(bytesOf(p)) })
		w.Emit(Ev{"ev": "packet", "k": k, "p": p, "res": outcome(r, err), "out": ints(out)})
	}
}
