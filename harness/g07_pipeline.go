package main

// G07 (specification growth, not a listed property): the whole sending pipeline - payloader, Packetizer,
// Packet.Marshal - and the library's own receiver (Packet.Unmarshal, depacketizer) on the same bytes.

import (
	"encoding/json"

	"github.com/pion/rtp"
	"github.com/pion/rtp/codecs"
)

func init() { families["G07"] = runG07 }

type g07Obu struct {
	Type    int   `json:"type"`
	Payload []int `json:"payload"`
}

type g07Case struct {
	Codec    string     `json:"codec"`
	Mtu      int        `json:"mtu"`
	SeqStart int        `json:"seqstart"`
	Frames   [][][]int  `json:"frames"`
	Obus     [][]g07Obu `json:"obus"`
	Class    string     `json:"class"`
}

func runG07(raw json.RawMessage, w *Writer) {
	var c g07Case
	if err := json.Unmarshal(raw, &c); err != nil {
		fatal("G07 case: %v", err)
	}
	var m map[string]json.RawMessage
	_ = json.Unmarshal(raw, &m)
	var rawFrames, rawObus []json.RawMessage
	_ = json.Unmarshal(m["frames"], &rawFrames)
	_ = json.Unmarshal(m["obus"], &rawObus)
	w.Emit(Ev{"ev": "reset", "class": c.Class, "codec": c.Codec, "mtu": c.Mtu, "seqstart": c.SeqStart})
	var pl rtp.Payloader
	var rx depack
	nframes := len(c.Frames)
	switch c.Codec {
	case "h264":
		pl, rx = &codecs.H264Payloader{}, &codecs.H264Packet{}
	case "vp8":
		pl, rx = &codecs.VP8Payloader{}, &codecs.VP8Packet{}
	case "opus":
		pl, rx = &codecs.OpusPayloader{}, &codecs.OpusPacket{}
	default:
		pl, rx = &codecs.AV1Payloader{}, &codecs.AV1Depacketizer{}
		nframes = len(c.Obus)
	}
	pz := rtp.NewPacketizer(uint16(c.Mtu), 96, 0x01020304, pl, rtp.NewFixedSequencer(uint16(c.SeqStart)), 90000)
	for k := 0; k < nframes; k++ {
		media := []byte{}
		if c.Codec == "h264" {
			for _, u := range c.Frames[k] {
				media = append(media, 0, 0, 0, 1)
				media = append(media, bytesOf(u)...)
			}
		} else if c.Codec == "vp8" || c.Codec == "opus" {
			for _, u := range c.Frames[k] {
				media = append(media, bytesOf(u)...)
			}
		} else {
			for _, o := range c.Obus[k] {
				media = append(media, byte(o.Type<<3|2))
				n := len(o.Payload)
				for {
					b := byte(n & 0x7f)
					n >>= 7
					if n != 0 {
						media = append(media, b|0x80)
					} else {
						media = append(media, b)
						break
					}
				}
				media = append(media, bytesOf(o.Payload)...)
			}
		}
		wire := [][]int{}
		heads, tails := []bool{}, []bool{}
		rxOut := []byte{}
		rxRes := "ok"
		r, _ := guard(func() {
			for _, p := range pz.Packetize(media, 3000) {
				b, err := p.Marshal()
				if err != nil {
					rxRes = "marshal_err"
					return
				}
				wire = append(wire, ints(b))
				// the library's own receiver on the same bytes
				q := &rtp.Packet{}
				if err := q.Unmarshal(cloneBytes(b)); err != nil {
					rxRes = "err"
					continue
				}
				heads = append(heads, rx.IsPartitionHead(q.Payload))
				tail := rx.IsPartitionTail(q.Marker, q.Payload)
				if h, ok := rx.(*codecs.H264Packet); ok && h.IsDetectedFinalPacketInSequence(q.Marker) != tail {
					tail = !q.Marker // the two ways of asking H264Packet for the end of a frame disagree: reported as a wrong tail
				}
				tails = append(tails, tail)
				out, err := rx.Unmarshal(q.Payload)
				if err != nil {
					rxRes = "err"
					continue
				}
				rxOut = append(rxOut, out...)
			}
		})
		e := Ev{"ev": "frame", "k": k, "codec": c.Codec, "mtu": c.Mtu, "res": r, "wire": wire, "rx_res": rxRes, "rx_out": ints(rxOut), "heads": heads, "tails": tails}
		if c.Codec != "av1" {
			e["units"], e["obus"] = rawFrames[k], []int{}
		} else {
			e["units"], e["obus"] = []int{}, rawObus[k]
		}
		w.Emit(e)
	}
}
