package main

// C18: NTP time mapping and send-time estimation.

import (
	"encoding/json"
	"time"

	"github.com/pion/rtp"
)

func init() { families["C18"] = runC18 }

type durJ struct {
	Neg  bool `json:"neg"`
	Sec  int  `json:"sec"`
	Nsec int  `json:"nsec"`
}

type c18Case struct {
	Kind  string `json:"kind"`
	T     []int  `json:"t"`
	Send  []int  `json:"send"`
	Delay []int  `json:"delay"`
	D     durJ   `json:"d"`
	Class string `json:"class"`
}

func inst(a []int) time.Time { return time.Unix(int64(a[0]), int64(a[1])) }
func instJ(t time.Time) []int {
	s := t.Unix()
	if s < -1<<30 || s > 1<<31-1 {
		return []int{-1000000000, 0}
	}
	return []int{int(s), t.Nanosecond()}
}
func durOf(d durJ) time.Duration {
	v := time.Duration(d.Sec)*time.Second + time.Duration(d.Nsec)
	if d.Neg {
		return -v
	}
	return v
}
func durJOf(d time.Duration) Ev {
	neg := d < 0
	if neg {
		d = -d
	}
	sec := int64(d / time.Second)
	if sec > 1<<31-1 {
		sec = 1<<31 - 1
	}
	return Ev{"neg": neg, "sec": int(sec), "nsec": int(d % time.Second)}
}

func runC18(raw json.RawMessage, w *Writer) {
	var c c18Case
	if err := json.Unmarshal(raw, &c); err != nil {
		fatal("C18 case: %v", err)
	}
	w.Emit(Ev{"ev": "reset", "class": c.Class})
	switch c.Kind {
	case "capture":
		var back time.Time
		var raw uint64
		r, _ := guard(func() {
			e := rtp.NewAbsCaptureTimeExtension(inst(c.T))
			raw = e.Timestamp
			back = e.CaptureTime()
		})
		// ntp: the raw 32.32 value (diagnostic: binds the symbolic transcription NtpTimeApa to the code)
		w.Emit(Ev{"ev": "capture", "t": c.T, "res": r, "back": instJ(back), "ntp": be64(raw)})
	case "offset":
		var got, gotAgain, gotCopy *time.Duration
		var wireBefore, wireAfter []byte
		r, _ := guard(func() {
			x := rtp.NewAbsCaptureTimeExtensionWithCaptureClockOffset(time.Unix(1700000000, 5), durOf(c.D))
			wireBefore, _ = x.Marshal()
			got = x.EstimatedCaptureClockOffsetDuration()
			// asking is not changing: the same question again, to a copy of the value, and the wire form afterwards
			gotAgain = x.EstimatedCaptureClockOffsetDuration()
			y := *x
			gotCopy = y.EstimatedCaptureClockOffsetDuration()
			wireAfter, _ = x.Marshal()
		})
		e := Ev{"ev": "offset", "d": Ev{"neg": c.D.Neg, "sec": c.D.Sec, "nsec": c.D.Nsec}, "res": r, "present": got != nil, "back": durJOf(0),
			"asked_again_same": got != nil && gotAgain != nil && gotCopy != nil && *gotAgain == *got && *gotCopy == *got && string(wireBefore) == string(wireAfter)}
		if got != nil {
			e["back"] = durJOf(*got)
		}
		// the same through the wire form (Marshal / Unmarshal of the 16-byte payload)
		var got2 *time.Duration
		r2, _ := guard(func() {
			b, _ := rtp.NewAbsCaptureTimeExtensionWithCaptureClockOffset(time.Unix(1700000000, 5), durOf(c.D)).Marshal()
			var x rtp.AbsCaptureTimeExtension
			_ = x.Unmarshal(b)
			got2 = x.EstimatedCaptureClockOffsetDuration()
		})
		e["wire_res"], e["wire_present"], e["wire_back"] = r2, got2 != nil, durJOf(0)
		if got2 != nil {
			e["wire_back"] = durJOf(*got2)
		}
		// the same payload decoded into a value the CONSTRUCTOR built with offset zero; afterwards a newly constructed
		// zero-offset value must still report zero (nothing the constructor hands out may be shared between values)
		var got3, zero *time.Duration
		r3, _ := guard(func() {
			b, _ := rtp.NewAbsCaptureTimeExtensionWithCaptureClockOffset(time.Unix(1700000000, 5), durOf(c.D)).Marshal()
			x := rtp.NewAbsCaptureTimeExtensionWithCaptureClockOffset(time.Unix(1600000000, 7), 0)
			_ = x.Unmarshal(b)
			got3 = x.EstimatedCaptureClockOffsetDuration()
			zero = rtp.NewAbsCaptureTimeExtensionWithCaptureClockOffset(time.Unix(1650000000, 9), 0).EstimatedCaptureClockOffsetDuration()
		})
		e["reuse_res"], e["reuse_present"], e["reuse_back"], e["zero_present"], e["zero_back"] = r3, got3 != nil, durJOf(0), zero != nil, durJOf(0)
		if got3 != nil {
			e["reuse_back"] = durJOf(*got3)
		}
		if zero != nil {
			e["zero_back"] = durJOf(*zero)
		}
		w.Emit(e)
	case "estimate":
		send := inst(c.Send)
		recv := send.Add(time.Duration(c.Delay[0])*time.Second + time.Duration(c.Delay[1]))
		var est time.Time
		r, _ := guard(func() {
			b, _ := rtp.NewAbsSendTimeExtension(send).Marshal()
			var x rtp.AbsSendTimeExtension
			_ = x.Unmarshal(b)
			est = x.Estimate(recv)
		})
		// the same on the value the constructor hands out (no wire round trip: its Timestamp carries more than 24 bits)
		var direct time.Time
		rd, _ := guard(func() { direct = rtp.NewAbsSendTimeExtension(send).Estimate(recv) })
		if rd != "ok" {
			r = rd
		}
		w.Emit(Ev{"ev": "estimate", "send": c.Send, "delay": c.Delay, "res": r, "est": instJ(est), "est_direct": instJ(direct)})
	}
}
