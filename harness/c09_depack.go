package main

// C09: generic depacketizer contract: no panic on any sequence of payloads, per-packet
// formats give the same result on a reused receiver as on a fresh one, stateful formats
// own the fragment state they keep (twin fed pristine copies is the oracle).

import (
	"bytes"
	"encoding/json"
	"reflect"
	"sync"

	"github.com/pion/rtp"
	"github.com/pion/rtp/codecs"
	"github.com/pion/rtp/codecs/av1/frame"
)

func init() { families["C09"] = runC09 }

type c09Edit struct {
	At  int    `json:"at"`
	Op  string `json:"op"` // nil | empty | mut | drop | dup | trunc
	Pos int    `json:"pos"`
	Val int    `json:"val"`
}

type c09Feed struct {
	PKind string `json:"pkind"`
	Shape string `json:"shape"`
	Len   int    `json:"len"`
	Salt  int    `json:"salt"`
	Mtu   int    `json:"mtu"`
}

type c09Case struct {
	Prefill   bool      `json:"prefill"`   // the reused receiver starts as a value the application filled in itself (every field set)
	ZeroAlloc bool      `json:"zeroalloc"` // every receiver of the case runs in SetZeroAllocation(true) mode
	Parallel  bool      `json:"parallel"`  // afterwards the same history runs on four more receivers, each in its own goroutine
	Kind      string    `json:"kind"`
	Src       string    `json:"src"` // bytes | feed | sweep
	Items     [][]int   `json:"items"`
	Feed      c09Feed   `json:"feed"`
	Edits     []c09Edit `json:"edits"`
	Probes    bool      `json:"probes"`
	Scribble  bool      `json:"scribble"`
	Hi        int       `json:"hi"`
	Class     string    `json:"class"`
}

type depack interface {
	Unmarshal([]byte) ([]byte, error)
	IsPartitionHead([]byte) bool
	IsPartitionTail(bool, []byte) bool
}

// av1Legacy is the deprecated AV1Packet + frame assembler path behind one interface.
type av1Legacy struct {
	asm frame.AV1
}

func (a *av1Legacy) Unmarshal(b []byte) ([]byte, error) {
	pkt := &codecs.AV1Packet{}
	if _, err := pkt.Unmarshal(b); err != nil {
		return nil, err
	}
	obus, err := a.asm.ReadFrames(pkt)
	out := []byte{}
	for _, o := range obus {
		out = append(out, byte(len(o)>>8), byte(len(o)))
		out = append(out, o...)
	}
	return out, err
}
func (a *av1Legacy) IsPartitionHead(b []byte) bool {
	return (&codecs.AV1Depacketizer{}).IsPartitionHead(b)
}
func (a *av1Legacy) IsPartitionTail(m bool, b []byte) bool { return m }

// h265Sub adapts the public H265 sub-packet types (Unmarshal only).
type h265Sub struct {
	u interface{ Unmarshal([]byte) ([]byte, error) }
}

func (s *h265Sub) Unmarshal(b []byte) ([]byte, error)    { return s.u.Unmarshal(b) }
func (s *h265Sub) IsPartitionHead(b []byte) bool         { return (&codecs.H265Packet{}).IsPartitionHead(b) }
func (s *h265Sub) IsPartitionTail(m bool, _ []byte) bool { return m }

func newDepack(kind string) depack {
	switch kind {
	case "h265_single", "h265_single_donl":
		p := &codecs.H265SingleNALUnitPacket{}
		p.WithDONL(kind == "h265_single_donl")
		return &h265Sub{p}
	case "h265_fu", "h265_fu_donl":
		p := &codecs.H265FragmentationUnitPacket{}
		p.WithDONL(kind == "h265_fu_donl")
		return &h265Sub{p}
	case "h265_ap", "h265_ap_donl":
		p := &codecs.H265AggregationPacket{}
		p.WithDONL(kind == "h265_ap_donl")
		return &h265Sub{p}
	case "h265_paci":
		return &h265Sub{&codecs.H265PACIPacket{}}
	case "h264":
		return &codecs.H264Packet{}
	case "h264_avc":
		return &codecs.H264Packet{IsAVC: true}
	case "h265", "h265_toggle":
		return &codecs.H265Packet{}
	case "h265_donl":
		p := &codecs.H265Packet{}
		p.WithDONL(true)
		return p
	case "vp8":
		return &codecs.VP8Packet{}
	case "vp9":
		return &codecs.VP9Packet{}
	case "av1":
		return &codecs.AV1Depacketizer{}
	case "av1_legacy":
		return &av1Legacy{}
	case "opus":
		return &codecs.OpusPacket{}
	}
	fatal("depacketizer kind %q", kind)
	return nil
}

// fullDepack: a receiver the application built itself with every exported field set (per-packet formats)
func fullDepack(kind string) depack {
	switch kind {
	case "vp8":
		return &codecs.VP8Packet{X: 1, N: 1, S: 1, PID: 7, I: 1, L: 1, T: 1, K: 1, PictureID: 0x7FFF, TL0PICIDX: 255, TID: 3, Y: 1, KEYIDX: 31, Payload: []byte{9, 9, 9}}
	case "vp9":
		return &codecs.VP9Packet{I: true, P: true, L: true, F: true, B: true, E: true, V: true, Z: true, PictureID: 0x7FFF, TID: 7, U: true, SID: 7, D: true,
			PDiff: []uint8{1, 2, 3}, TL0PICIDX: 255, NS: 3, Y: true, G: true, NG: 2, Width: []uint16{1, 2, 3}, Height: []uint16{4, 5, 6},
			PGTID: []uint8{1, 2}, PGU: []bool{true, true}, PGPDiff: [][]uint8{{1}, {2, 3}}, Payload: []byte{9, 9, 9}}
	case "opus":
		return &codecs.OpusPacket{Payload: []byte{9, 9, 9}}
	}
	return newDepack(kind)
}

func perPacket(kind string) bool {
	switch kind {
	case "vp8", "vp9", "h265", "h265_donl", "h265_toggle", "opus":
		return true
	}
	return false
}

func u16p(p *uint16) int {
	if p == nil {
		return -1
	}
	return int(*p)
}
func u8p(p *uint8) int {
	if p == nil {
		return -1
	}
	return int(*p)
}

// meta projects every exported field / accessor of a per-packet receiver.
func meta(d depack) Ev {
	switch p := d.(type) {
	case *codecs.VP8Packet:
		return Ev{"X": int(p.X), "N": int(p.N), "S": int(p.S), "PID": int(p.PID), "I": int(p.I), "L": int(p.L), "T": int(p.T), "K": int(p.K),
			"PictureID": int(p.PictureID), "TL0PICIDX": int(p.TL0PICIDX), "TID": int(p.TID), "Y": int(p.Y), "KEYIDX": int(p.KEYIDX), "Payload": ints(p.Payload)}
	case *codecs.VP9Packet:
		pg := [][]int{}
		for _, x := range p.PGPDiff {
			pg = append(pg, ints(x))
		}
		w16 := func(a []uint16) []int {
			o := make([]int, len(a))
			for i, v := range a {
				o[i] = int(v)
			}
			return o
		}
		bl := func(a []bool) []bool {
			if a == nil {
				return []bool{}
			}
			return a
		}
		return Ev{"I": p.I, "P": p.P, "L": p.L, "F": p.F, "B": p.B, "E": p.E, "V": p.V, "Z": p.Z, "PictureID": int(p.PictureID), "TID": int(p.TID), "U": p.U,
			"SID": int(p.SID), "D": p.D, "PDiff": ints(p.PDiff), "TL0PICIDX": int(p.TL0PICIDX), "NS": int(p.NS), "Y": p.Y, "G": p.G, "NG": int(p.NG),
			"Width": w16(p.Width), "Height": w16(p.Height), "PGTID": ints(p.PGTID), "PGU": bl(p.PGU), "PGPDiff": pg, "Payload": ints(p.Payload)}
	case *codecs.OpusPacket:
		return Ev{"Payload": ints(p.Payload)}
	case *codecs.H265Packet:
		return h265Meta(p)
	}
	return Ev{}
}

func h265Meta(p *codecs.H265Packet) Ev {
	pk := p.Packet()
	if pk == nil || reflect.ValueOf(pk).IsNil() {
		return Ev{"type": "none"}
	}
	switch x := pk.(type) {
	case *codecs.H265SingleNALUnitPacket:
		return Ev{"type": "single", "hdr": int(x.PayloadHeader()), "donl": u16p(x.DONL()), "payload": ints(x.Payload())}
	case *codecs.H265FragmentationUnitPacket:
		return Ev{"type": "fu", "hdr": int(x.PayloadHeader()), "fu": int(x.FuHeader()), "donl": u16p(x.DONL()), "payload": ints(x.Payload())}
	case *codecs.H265AggregationPacket:
		e := Ev{"type": "ap"}
		if f := x.FirstUnit(); f != nil {
			e["first"] = Ev{"donl": u16p(f.DONL()), "size": int(f.NALUSize()), "nal": ints(f.NalUnit())}
		} else {
			e["first"] = Ev{"donl": -2, "size": 0, "nal": []int{}}
		}
		others := []Ev{}
		for _, u := range x.OtherUnits() {
			others = append(others, Ev{"dond": u8p(u.DOND()), "size": int(u.NALUSize()), "nal": ints(u.NalUnit())})
		}
		e["others"] = others
		return e
	case *codecs.H265PACIPacket:
		tsci := Ev{"present": false, "tl0": 0, "irap": 0, "s": false, "e": false, "res": 0}
		guard(func() {
			if t := x.TSCI(); t != nil {
				tsci = Ev{"present": true, "tl0": int(t.TL0PICIDX()), "irap": int(t.IrapPicID()), "s": t.S(), "e": t.E(), "res": int(t.RES())}
			}
		})
		return Ev{"type": "paci", "hdr": int(x.PayloadHeader()), "A": x.A(), "cType": int(x.CType()), "PHSsize": int(x.PHSsize()), "F0": x.F0(), "F1": x.F1(),
			"F2": x.F2(), "Y": x.Y(), "phes": ints(x.PHES()), "payload": ints(x.Payload()), "tsci": tsci}
	}
	return Ev{"type": "unknown"}
}

// c09Items expands the case into the payload sequence.
func c09Items(c c09Case) [][]byte {
	var items [][]byte
	if c.Src == "bytes" {
		for _, it := range c.Items {
			items = append(items, bytesOf(it))
		}
		return items
	}
	var frags [][]byte
	guard(func() {
		frags = newPayloaderOpt(c.Feed.PKind).Payload(uint16(c.Feed.Mtu), buildInput(c.Feed.Shape, c.Feed.Len, c.Feed.Salt))
	})
	if len(frags) > 12 && len(c.Edits) > 0 {
		frags = frags[:12]
	}
	items = cloneFrags(frags)
	for _, e := range c.Edits {
		if e.At >= len(items) && e.Op != "nil" && e.Op != "empty" {
			continue
		}
		at := e.At
		if at > len(items) {
			at = len(items)
		}
		switch e.Op {
		case "nil":
			items = append(items[:at], append([][]byte{nil}, items[at:]...)...)
		case "empty":
			items = append(items[:at], append([][]byte{{}}, items[at:]...)...)
		case "drop":
			items = append(items[:at], items[at+1:]...)
		case "dup":
			items = append(items[:at+1], append([][]byte{cloneBytes(items[at])}, items[at+1:]...)...)
		case "mut":
			if e.Pos < len(items[at]) {
				items[at][e.Pos] = byte(e.Val)
			}
		case "trunc":
			if e.Pos < len(items[at]) {
				items[at] = items[at][:e.Pos]
			}
		}
	}
	return items
}

func runC09(raw json.RawMessage, w *Writer) {
	var c c09Case
	if err := json.Unmarshal(raw, &c); err != nil {
		fatal("C09 case: %v", err)
	}
	w.Emit(Ev{"ev": "reset", "class": c.Class, "kind": c.Kind})
	if c.Src == "sweep" {
		w.Emit(c09Sweep(c.Kind, c.Hi))
		return
	}
	items := c09Items(c)
	mk := func() depack {
		d := newDepack(c.Kind)
		if z, ok := d.(interface{ SetZeroAllocation(bool) }); ok && c.ZeroAlloc {
			z.SetZeroAllocation(true)
		}
		return d
	}
	used := mk()
	if c.Prefill {
		used = fullDepack(c.Kind)
		if z, ok := used.(interface{ SetZeroAllocation(bool) }); ok && c.ZeroAlloc {
			z.SetZeroAllocation(true)
		}
	}
	twin := mk()
	var given [][]byte
	var seqRes []string // what the twin (pristine inputs, never overwritten) returned for every payload
	var seqOut [][]byte
	defer func() {
		// independent receivers used at the same time (one per track, each on its own goroutine) must behave as one
		// receiver used alone
		if !c.Parallel || c.Kind == "h265_toggle" || len(seqOut) != len(items) {
			return
		}
		const G = 4
		bad := make([]bool, G)
		var wg sync.WaitGroup
		start := make(chan struct{})
		for g := 0; g < G; g++ {
			wg.Add(1)
			go func(g int) {
				defer wg.Done()
				defer func() {
					if recover() != nil {
						bad[g] = true
					}
				}()
				d := mk()
				<-start
				for k, it := range items {
					out, err := d.Unmarshal(cloneBytes(it))
					if outcome("ok", err) != seqRes[k] || (err == nil && !bytes.Equal(out, seqOut[k])) {
						bad[g] = true
						return
					}
				}
			}(g)
		}
		close(start)
		wg.Wait()
		ok := true
		for _, b := range bad {
			ok = ok && !b
		}
		w.Emit(Ev{"ev": "parallel", "kind": c.Kind, "instances": G, "same_as_alone": ok})
	}()
	// a socket-style caller: one receive buffer, refilled for every packet
	rxbuf := make([]byte, 0, 64)
	for k, it := range items {
		var buf []byte
		if it != nil {
			if cap(rxbuf) < len(it) {
				rxbuf = make([]byte, 0, len(it)+64)
			}
			rxbuf = rxbuf[:len(it)]
			copy(rxbuf, it)
			buf = rxbuf
		}
		if c.Probes {
			var h1, h2, t1, t2 bool
			r, _ := guard(func() {
				h1 = used.IsPartitionHead(buf)
				t1 = used.IsPartitionTail(k%2 == 0, buf)
				f := mk()
				h2 = f.IsPartitionHead(cloneBytes(it))
				t2 = f.IsPartitionTail(k%2 == 0, cloneBytes(it))
			})
			w.Emit(Ev{"ev": "probe", "k": k, "kind": c.Kind, "res": r, "head": h1, "tail": t1, "fresh_head": h2, "fresh_tail": t2, "marker": k%2 == 0})
		}
		var out, tout, fout []byte
		var err, terr, ferr error
		donlNow := c.Kind == "h265_donl"
		if c.Kind == "h265_toggle" {
			// the application flips the option between packets (it is a plain setter)
			donlNow = k%2 == 0
			used.(*codecs.H265Packet).WithDONL(donlNow)
			twin.(*codecs.H265Packet).WithDONL(donlNow)
		}
		r, msg := guard(func() { out, err = used.Unmarshal(buf) })
		out = cloneBytes(out)
		e := Ev{"ev": "unmarshal", "k": k, "kind": c.Kind, "len": len(it), "isnil": it == nil, "res": outcome(r, err), "diag": msg, "out": ints(out)}
		// twin: same sequence, pristine copies, never scribbled
		tr, _ := guard(func() { tout, terr = twin.Unmarshal(cloneBytes(it)) })
		e["twin_res"], e["twin_out"] = outcome(tr, terr), ints(tout)
		seqRes, seqOut = append(seqRes, outcome(tr, terr)), append(seqOut, cloneBytes(tout))
		if perPacket(c.Kind) {
			f := mk()
			if c.Kind == "h265_toggle" {
				f.(*codecs.H265Packet).WithDONL(donlNow)
			}
			fr, _ := guard(func() { fout, ferr = f.Unmarshal(cloneBytes(it)) })
			e["fresh_res"], e["fresh_out"] = outcome(fr, ferr), ints(fout)
			e["meta"], e["fresh_meta"] = meta(used), meta(f)
		} else {
			e["fresh_res"], e["fresh_out"], e["meta"], e["fresh_meta"] = "none", []int{}, Ev{}, Ev{}
		}
		w.Emit(e)
		if r == "panic" {
			return
		}
		given = append(given, buf)
		if c.Scribble {
			for _, g := range given {
				scribbleBuf(g)
			}
		}
	}
}

// c09Sweep: all 2^16 three-byte strings with first byte hi, for the panic clause only.
func c09Sweep(kind string, hi int) Ev {
	panics := 0
	first := []int{}
	d := newDepack(kind)
	for lo := 0; lo < 65536; lo++ {
		b := []byte{byte(hi), byte(lo >> 8), byte(lo)}
		r, _ := guard(func() {
			d.IsPartitionHead(b)
			d.IsPartitionTail(lo%2 == 0, b)
			_, _ = d.Unmarshal(b)
		})
		if r != "ok" {
			panics++
			if len(first) == 0 {
				first = ints(b)
			}
			d = newDepack(kind)
		}
	}
	return Ev{"ev": "sweep", "kind": kind, "hi": hi, "points": 65536, "panics": panics, "first": first}
}

var _ rtp.Depacketizer = (*codecs.VP8Packet)(nil)
