package main

// G02 (specification growth, not a listed property): codecs/vp9.Header.Unmarshal, the VP9
// uncompressed-header parser the VP9 payloader relies on, against VP9Header.tla. Each case
// is decoded into a fresh Header and into one that has parsed `prev` before.

import (
	"encoding/json"

	"github.com/pion/rtp/codecs/vp9"
)

func init() { families["G02"] = runG02 }

type g02Case struct {
	Bytes []int  `json:"bytes"`
	Prev  []int  `json:"prev"`
	Class string `json:"class"`
}

func g02Parse(h *vp9.Header, b []byte) Ev {
	var err error
	obs := Ev{}
	r, _ := guard(func() {
		err = h.Unmarshal(b)
		if err != nil {
			return
		}
		obs = Ev{"profile": int(h.Profile), "sef": h.ShowExistingFrame, "idx": int(h.FrameToShowMapIdx), "nonkey": h.NonKeyFrame,
			"show": h.ShowFrame, "errres": h.ErrorResilientMode, "hascolor": h.ColorConfig != nil, "hassize": h.FrameSize != nil,
			"depth": 0, "cs": 0, "range": false, "ssx": false, "ssy": false, "wm1": 0, "hm1": 0,
			"width": int(h.Width()), "height": int(h.Height())}
		if c := h.ColorConfig; c != nil {
			obs["depth"], obs["cs"], obs["range"], obs["ssx"], obs["ssy"] = int(c.BitDepth), int(c.ColorSpace), c.ColorRange, c.SubsamplingX, c.SubsamplingY
		}
		if s := h.FrameSize; s != nil {
			obs["wm1"], obs["hm1"] = int(s.FrameWidthMinus1), int(s.FrameHeightMinus1)
		}
	})
	if r == "ok" && err != nil {
		r = "err"
	}
	return Ev{"res": r, "obs": obs}
}

func runG02(raw json.RawMessage, w *Writer) {
	var c g02Case
	if err := json.Unmarshal(raw, &c); err != nil {
		fatal("G02 case: %v", err)
	}
	w.Emit(Ev{"ev": "reset", "class": c.Class})
	fresh := g02Parse(&vp9.Header{}, bytesOf(c.Bytes))
	used := &vp9.Header{}
	if len(c.Prev) > 0 {
		_, _ = guard(func() { _ = used.Unmarshal(bytesOf(c.Prev)) })
	}
	u := g02Parse(used, bytesOf(c.Bytes))
	w.Emit(Ev{"ev": "parse", "bytes": c.Bytes, "hasprev": len(c.Prev) > 0, "res": fresh["res"], "obs": fresh["obs"], "used": u})
}
