package main

// A process-wide canary: fixed values through the stateless entry points of every package (a fresh object each
// time), evaluated after EVERY case. What they give must never change - whatever was marshalled, decoded, refused or
// left half-done before: state that outlives a call at package level (pools of scratch buffers, caches, lazily
// initialised tables) is shared by all objects. A change is recorded once, for the case after which it appeared.

import (
	"fmt"
	"time"

	"github.com/pion/rtp"
	"github.com/pion/rtp/codecs"
)

func globalCanary() string {
	out := ""
	guard(func() {
		p := rtp.Packet{Header: rtp.Header{Version: 2, Padding: true, Marker: true, PayloadType: 96, SequenceNumber: 7, Timestamp: 9, SSRC: 5, CSRC: []uint32{1, 2}},
			Payload: []byte{1, 2, 3}, PaddingSize: 2}
		_ = p.SetExtension(3, []byte{0xAA, 0xBB})
		b, err := p.Marshal()
		var q rtp.Packet
		err2 := q.Unmarshal(b)
		out += fmt.Sprint(b, err, err2, q.Header.CSRC, q.GetExtensionIDs(), q.GetExtension(3), q.Payload, q.PaddingSize, "|")
		v := rtp.VLA{RTPStreamCount: 2, ActiveSpatialLayer: []rtp.SpatialLayer{{RTPStreamID: 1, TargetBitrates: []int{100, 300}}}}
		vb, verr := v.Marshal()
		var v2 rtp.VLA
		_, verr2 := v2.Unmarshal(vb)
		out += fmt.Sprint(vb, verr, verr2, v2.RTPStreamCount, len(v2.ActiveSpatialLayer), "|")
		ab, _ := rtp.NewAbsCaptureTimeExtensionWithCaptureClockOffset(time.Unix(1700000000, 0), -time.Second).Marshal()
		al, _ := rtp.AudioLevelExtension{Level: 5, Voice: true}.Marshal()
		out += fmt.Sprint(ab, al, "|")
		nal := []byte{0, 0, 0, 1, 0x65, 1, 2, 3, 4, 5, 6, 7, 8, 9, 10, 11, 12, 0, 0, 1, 0x41, 9}
		h264 := (&codecs.H264Payloader{}).Payload(8, nal)
		rx := &codecs.H264Packet{}
		for _, f := range h264 {
			o, e := rx.Unmarshal(f)
			out += fmt.Sprint(f, o, e)
		}
		out += fmt.Sprint("|", (&codecs.H265Payloader{}).Payload(8, []byte{0, 0, 1, 0x26, 1, 2, 3, 4, 5, 6, 7, 8, 9, 10, 11}), "|")
		out += fmt.Sprint((&codecs.VP8Payloader{EnablePictureID: true}).Payload(6, []byte{1, 2, 3, 4, 5, 6, 7}), "|")
		out += fmt.Sprint((&codecs.VP9Payloader{FlexibleMode: true, InitialPictureIDFn: func() uint16 { return 7 }}).Payload(8, []byte{0x86, 2, 3, 4, 5, 6, 7, 8, 9}), "|")
		av1 := (&codecs.AV1Payloader{}).Payload(6, []byte{0x32, 8, 1, 2, 3, 4, 5, 6, 7, 8})
		ad := &codecs.AV1Depacketizer{}
		for _, f := range av1 {
			o, e := ad.Unmarshal(f)
			out += fmt.Sprint(f, o, e)
		}
		out += fmt.Sprint("|", (&codecs.G711Payloader{}).Payload(3, []byte{1, 2, 3, 4, 5, 6, 7}), (&codecs.OpusPayloader{}).Payload(3, []byte{1, 2, 3, 4}))
	})
	return out
}

var canaryPristine string
var canaryReady bool

// canaryChanged reports (once per change) that the canary no longer gives what it gave before the first case.
func canaryChanged() bool {
	cur := globalCanary()
	if !canaryReady {
		canaryPristine, canaryReady = cur, true
		return false
	}
	if cur != canaryPristine {
		canaryPristine = cur
		return true
	}
	return false
}
