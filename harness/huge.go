package main

// "huge" cases of C10 / C11 / C13: one item of about 17 MB (beyond 2^24 bytes) through payloader and receiver. The
// bytes do not travel to TLC (one event would be a 60 MB line): the harness reports lengths and equality facts,
// TLC judges them.

import (
	"bytes"

	"github.com/pion/rtp/codecs"
)

func hugePattern(n int) []byte {
	b := make([]byte, n)
	for i := range b {
		b[i] = byte(1 + (i*7)%250)
	}
	return b
}

func maxLen(frags [][]byte) int {
	m := 0
	for _, f := range frags {
		if len(f) > m {
			m = len(f)
		}
	}
	return m
}

// C10: one NAL unit of n bytes (type 5) -> H264Payloader -> H264Packet in Annex-B and AVC framing
func hugeH264(n, mtu int) Ev {
	unit := hugePattern(n)
	unit[0] = 0x65
	in := append([]byte{0, 0, 0, 1}, unit...)
	var frags [][]byte
	annexbOK, avcOK, shapeOK := false, false, true
	r, _ := guard(func() {
		frags = (&codecs.H264Payloader{}).Payload(uint16(mtu), in)
		a, v := &codecs.H264Packet{}, &codecs.H264Packet{IsAVC: true}
		var oa, ov []byte
		for i, f := range frags {
			if len(frags) > 1 {
				s, e := f[1]&0x80 != 0, f[1]&0x40 != 0
				if f[0]&0x1F != 28 || s != (i == 0) || e != (i == len(frags)-1) || f[1]&0x1F != 5 {
					shapeOK = false
				}
			}
			x, err := a.Unmarshal(f)
			if err != nil {
				return
			}
			oa = append(oa, x...)
			y, err := v.Unmarshal(f)
			if err != nil {
				return
			}
			ov = append(ov, y...)
		}
		annexbOK = bytes.Equal(oa, in)
		avcOK = len(ov) == n+4 && ov[0] == byte(n>>24) && ov[1] == byte(n>>16) && ov[2] == byte(n>>8) && ov[3] == byte(n) && bytes.Equal(ov[4:], unit)
	})
	return Ev{"ev": "huge", "n": n, "mtu": mtu, "res": r, "nfrags": len(frags), "maxlen": maxLen(frags),
		"facts": []bool{annexbOK, avcOK, shapeOK}}
}

// C11: one frame of n bytes -> VP8Payloader (picture ids on) -> VP8Packet
func hugeVP8(n, mtu int) Ev {
	frame := hugePattern(n)
	var frags [][]byte
	concatOK, sOK, pidOK := false, true, true
	r, _ := guard(func() {
		frags = (&codecs.VP8Payloader{EnablePictureID: true}).Payload(uint16(mtu), frame)
		var out []byte
		for i, f := range frags {
			p := &codecs.VP8Packet{}
			x, err := p.Unmarshal(f)
			if err != nil {
				return
			}
			out = append(out, x...)
			if (p.S == 1) != (i == 0) || p.PID != 0 {
				sOK = false
			}
			if p.PictureID != 0 {
				pidOK = false
			}
		}
		concatOK = bytes.Equal(out, frame)
	})
	return Ev{"ev": "huge", "n": n, "mtu": mtu, "res": r, "nfrags": len(frags), "maxlen": maxLen(frags),
		"facts": []bool{concatOK, sOK, pidOK}}
}

// C13: one OBU of n payload bytes (type 6, with size field) followed by a small one -> AV1Payloader -> AV1Depacketizer
func hugeAV1(n, mtu int) Ev {
	pay := hugePattern(n)
	leb := func(v int) []byte {
		out := []byte{}
		for {
			b := byte(v & 0x7f)
			v >>= 7
			if v != 0 {
				out = append(out, b|0x80)
			} else {
				return append(out, b)
			}
		}
	}
	stream := append([]byte{0x32}, leb(n)...)
	stream = append(stream, pay...)
	stream = append(stream, 0x32, 0x03, 1, 2, 3)
	var frags [][]byte
	outOK := false
	r, _ := guard(func() {
		frags = (&codecs.AV1Payloader{}).Payload(uint16(mtu), stream)
		d := &codecs.AV1Depacketizer{}
		var out []byte
		for _, f := range frags {
			x, err := d.Unmarshal(f)
			if err != nil {
				return
			}
			out = append(out, x...)
		}
		outOK = bytes.Equal(out, stream)
	})
	return Ev{"ev": "huge", "n": n, "mtu": mtu, "res": r, "nfrags": len(frags), "maxlen": maxLen(frags), "facts": []bool{outOK}}
}

// C12: one VP9 frame of n bytes (profile-0 key frame header, 640x480) -> VP9Payloader -> VP9Packet
func hugeVP9(n, mtu int, flexible bool) Ev {
	frame := hugePattern(n)
	copy(frame, []byte{0x82, 0x49, 0x83, 0x42, 0x20, 0x27, 0xF0, 0x1D, 0xF0, 0x00}) // frame marker, key frame, sync code, 640x480
	var frags [][]byte
	concatOK, beOK, pidOK := false, true, true
	r, _ := guard(func() {
		p := &codecs.VP9Payloader{FlexibleMode: flexible, InitialPictureIDFn: func() uint16 { return 77 }}
		frags = p.Payload(uint16(mtu), frame)
		var out []byte
		for i, f := range frags {
			q := &codecs.VP9Packet{}
			x, err := q.Unmarshal(f)
			if err != nil {
				return
			}
			out = append(out, x...)
			if q.B != (i == 0) || q.E != (i == len(frags)-1) {
				beOK = false
			}
			if !q.I || q.PictureID != 77 {
				pidOK = false
			}
		}
		concatOK = bytes.Equal(out, frame)
	})
	return Ev{"ev": "huge", "n": n, "mtu": mtu, "res": r, "nfrags": len(frags), "maxlen": maxLen(frags),
		"facts": []bool{concatOK, beOK, pidOK}}
}

// C14: one HEVC unit of n bytes (type 19) -> H265Payloader -> H265Packet, reassembled per RFC 7798 (FU payloads
// behind a rebuilt two-byte unit header)
func hugeH265(n, mtu int) Ev {
	unit := hugePattern(n)
	unit[0], unit[1] = 19<<1, 1
	in := append([]byte{0, 0, 0, 1}, unit...)
	var frags [][]byte
	outOK, seOK := false, true
	r, _ := guard(func() {
		frags = (&codecs.H265Payloader{}).Payload(uint16(mtu), in)
		out := []byte{}
		for i, f := range frags {
			p := &codecs.H265Packet{}
			if _, err := p.Unmarshal(f); err != nil {
				return
			}
			fu, ok := p.Packet().(*codecs.H265FragmentationUnitPacket)
			if !ok {
				return
			}
			h := fu.FuHeader()
			if h.S() != (i == 0) || h.E() != (i == len(frags)-1) || h.FuType() != 19 {
				seOK = false
			}
			if i == 0 {
				ph := fu.PayloadHeader()
				out = append(out, byte(uint16(ph)>>8)&0x81|19<<1, byte(uint16(ph)))
			}
			out = append(out, fu.Payload()...)
		}
		outOK = bytes.Equal(out, unit)
	})
	return Ev{"ev": "huge", "n": n, "mtu": mtu, "res": r, "nfrags": len(frags), "maxlen": maxLen(frags), "facts": []bool{outOK, seOK}}
}
