package main

// C13: AV1 payloader / depacketizers, LEB128, OBU header codec.

import (
	"encoding/json"

	"github.com/pion/rtp/codecs"
	"github.com/pion/rtp/codecs/av1/frame"
	"github.com/pion/rtp/codecs/av1/obu"
	pkgobu "github.com/pion/rtp/pkg/obu"
)

func init() { families["C13"] = runC13 }

type c13Case struct {
	Kind   string          `json:"kind"`
	Mtu    int             `json:"mtu"`
	Obus   json.RawMessage `json:"obus"`
	Stream []int           `json:"stream"`
	Digits []int           `json:"digits"`
	Bytes  []int           `json:"bytes"`
	V      int             `json:"v"`
	Class  string          `json:"class"`
	Huge   int             `json:"huge"`
}

func runC13(raw json.RawMessage, w *Writer) {
	var c c13Case
	if err := json.Unmarshal(raw, &c); err != nil {
		fatal("C13 case: %v", err)
	}
	w.Emit(Ev{"ev": "reset", "class": c.Class})
	switch c.Kind {
	case "huge":
		w.Emit(hugeAV1(c.Huge, c.Mtu))
	case "payload":
		p := &codecs.AV1Payloader{}
		var frags [][]byte
		r, _ := guard(func() { frags = p.Payload(uint16(c.Mtu), bytesOf(c.Stream)) })
		// new depacketizer
		d := &codecs.AV1Depacketizer{}
		dep := []int{}
		dres := "ok"
		heads := []bool{}
		for _, f := range frags {
			var out []byte
			var err error
			rr, _ := guard(func() {
				heads = append(heads, d.IsPartitionHead(f))
				out, err = d.Unmarshal(cloneBytes(f))
			})
			if rr != "ok" {
				dres = "panic"
				break
			}
			if err != nil {
				dres = "err"
				break
			}
			dep = append(dep, ints(out)...)
		}
		// deprecated path: a fresh AV1Packet per RTP payload + one frame assembler
		asm := &frame.AV1{}
		legacy := [][]int{}
		lres := "ok"
		for _, f := range frags {
			var obus [][]byte
			var err error
			rr, _ := guard(func() {
				pkt := &codecs.AV1Packet{}
				if _, err = pkt.Unmarshal(cloneBytes(f)); err == nil {
					obus, err = asm.ReadFrames(pkt)
				}
			})
			if rr != "ok" {
				lres = "panic"
				break
			}
			if err != nil {
				lres = "err"
				break
			}
			legacy = append(legacy, intss(obus)...)
		}
		w.Emit(Ev{"ev": "payload", "mtu": c.Mtu, "obus": c.Obus, "stream": c.Stream, "res": r, "frags": intss(frags),
			"dep_res": dres, "dep": dep, "heads": heads, "legacy_res": lres, "legacy": legacy})
	case "leb":
		v := uint(digitsToInt(c.Digits))
		var wb []byte
		var rv, rn uint
		var rerr error
		var rv2, rn2 uint
		r, _ := guard(func() {
			wb = obu.WriteToLeb128(v)
			rv, rn, rerr = obu.ReadLeb128(bytesOf(c.Bytes))
			rv2, rn2, _ = pkgobu.ReadLeb128(append(bytesOf(c.Bytes), 0x55, 0xAA))
		})
		w.Emit(Ev{"ev": "leb", "digits": c.Digits, "bytes": c.Bytes, "res": outcome(r, rerr), "written": ints(wb),
			"read": intToDigits(int(rv)), "readn": int(rn), "read_trailing": intToDigits(int(rv2)), "readn_trailing": int(rn2)})
	case "obuhdr":
		b := []byte{byte(c.V >> 8), byte(c.V)}
		var h *obu.Header
		var err error
		var m []byte
		size := -1
		r, _ := guard(func() {
			h, err = obu.ParseOBUHeader(b)
			if err == nil {
				m = h.Marshal()
				size = h.Size()
			}
		})
		e := Ev{"ev": "obuhdr", "v": c.V, "res": outcome(r, err), "marshal": ints(m), "size": size,
			"type": 0, "ext": false, "hassize": false, "r1": 0, "tid": 0, "sid": 0, "r3": 0}
		if err == nil && h != nil {
			e["type"], e["hassize"] = int(h.Type), h.HasSizeField
			if h.Reserved1Bit {
				e["r1"] = 1
			}
			if h.ExtensionHeader != nil {
				e["ext"], e["tid"], e["sid"], e["r3"] = true, int(h.ExtensionHeader.TemporalID), int(h.ExtensionHeader.SpatialID), int(h.ExtensionHeader.Reserved3Bits)
			}
		}
		// a one-byte input with the extension flag must be refused, not panic
		short := "ok"
		rs, _ := guard(func() {
			if _, e1 := obu.ParseOBUHeader(b[:1]); e1 != nil {
				short = "err"
			}
		})
		if rs != "ok" {
			short = "panic"
		}
		e["short"] = short
		w.Emit(e)
	}
}
