package main

// C12: VP9 descriptor decoding, uncompressed header parsing, payloader contract.

import (
	"encoding/json"
	"fmt"

	"github.com/pion/rtp/codecs"
	"github.com/pion/rtp/codecs/vp9"
)

func init() { families["C12"] = runC12 }

type vp9HdrJ struct {
	Profile  int  `json:"profile"`
	Existing bool `json:"existing"`
	Idx      int  `json:"idx"`
	NonKey   bool `json:"nonkey"`
	Show     bool `json:"show"`
	ErrRes   bool `json:"errres"`
	Deep     bool `json:"deep"`
	Cs       int  `json:"cs"`
	Range    bool `json:"range"`
	Ssx      bool `json:"ssx"`
	Ssy      bool `json:"ssy"`
	W        int  `json:"w"`
	H        int  `json:"h"`
}

type vp9FrameJ struct {
	Hdr   vp9HdrJ `json:"hdr"`
	Body  int     `json:"body"`
	Salt  int     `json:"salt"`
	FillV *int    `json:"fillv"`
}

type c12Case struct {
	Huge     int             `json:"huge"`
	Kind     string          `json:"kind"`
	Bytes    []int           `json:"bytes"`
	Dlen     int             `json:"dlen"`
	Want     json.RawMessage `json:"want"`
	WantOk   bool            `json:"wantok"`
	Nbits    int             `json:"nbits"`
	Mtu      int             `json:"mtu"`
	Flexible bool            `json:"flexible"`
	StartID  int             `json:"startid"`
	Frames   []vp9FrameJ     `json:"frames"`
	Class    string          `json:"class"`
}

// vp9HeaderBytes packs the uncompressed header bits (harness-side builder for payloader
// frames only; the header cases carry TLC-built bytes).
func vp9HeaderBytes(h vp9HdrJ) []byte {
	bits := []int{1, 0, h.Profile & 1, h.Profile >> 1}
	if h.Profile == 3 {
		bits = append(bits, 0)
	}
	b2 := func(v bool) int {
		if v {
			return 1
		}
		return 0
	}
	put := func(n, v int) {
		for k := n - 1; k >= 0; k-- {
			bits = append(bits, (v>>uint(k))&1)
		}
	}
	bits = append(bits, b2(h.Existing))
	if h.Existing {
		put(3, h.Idx)
	} else {
		bits = append(bits, b2(h.NonKey), b2(h.Show), b2(h.ErrRes))
		if !h.NonKey {
			put(8, 0x49)
			put(8, 0x83)
			put(8, 0x42)
			if h.Profile >= 2 {
				bits = append(bits, b2(h.Deep))
			}
			put(3, h.Cs)
			if h.Cs != 7 {
				bits = append(bits, b2(h.Range))
				if h.Profile == 1 || h.Profile == 3 {
					bits = append(bits, b2(h.Ssx), b2(h.Ssy), 0)
				}
			} else if h.Profile == 1 || h.Profile == 3 {
				bits = append(bits, 0)
			}
			put(16, h.W-1)
			put(16, h.H-1)
		}
	}
	out := make([]byte, (len(bits)+7)/8)
	for i, b := range bits {
		if b == 1 {
			out[i/8] |= 1 << uint(7-i%8)
		}
	}
	return out
}

func vp9Decode(b []byte) Ev { return vp9DecodeInto(&codecs.VP9Packet{}, b) }

// a VP9Packet that has decoded descriptors with every optional part present before (flexible mode with
// picture id, layer indices, reference indices and a scalability structure; then non-flexible with TL0PICIDX)
func vp9Used(za bool) *codecs.VP9Packet {
	p := &codecs.VP9Packet{}
	p.SetZeroAllocation(za)
	for _, prior := range [][]byte{
		{255, 129, 35, 53, 3, 4, 56, 2, 128, 1, 224, 1, 64, 0, 240, 2, 52, 1, 88, 2, 3, 9, 9, 9},
		{160, 129, 1, 34, 7, 9},
		{255, 129, 35, 53, 3, 4, 56, 2, 128, 1, 224, 1, 64, 0, 240, 2, 52, 1, 88, 2, 3, 9, 9, 9},
	} {
		guard(func() { _, _ = p.Unmarshal(cloneBytes(prior)) })
	}
	return p
}

func vp9DecodeInto(p *codecs.VP9Packet, b []byte) Ev {
	var out []byte
	var err error
	var head bool
	r, _ := guard(func() {
		out, err = p.Unmarshal(b)
		head = p.IsPartitionHead(b)
	})
	f := meta(p)
	// the decoded descriptor is the caller's: it appends to every list in it (writes into spare capacity only);
	// no other field may change
	appendSafe := true
	if r == "ok" && err == nil {
		before := fmt.Sprint(f)
		guard(func() {
			_ = append(p.PDiff, 9)
			_ = append(p.Width, 9)
			_ = append(p.Height, 9)
			_ = append(p.PGTID, 9)
			_ = append(p.PGU, true)
			for i := range p.PGPDiff {
				_ = append(p.PGPDiff[i], 9)
			}
			_ = append(p.PGPDiff, []uint8{9})
		})
		appendSafe = fmt.Sprint(meta(p)) == before
	}
	return Ev{"res": outcome(r, err), "f": f, "out": ints(out), "head": head, "append_safe": appendSafe}
}

func runC12(raw json.RawMessage, w *Writer) {
	var c c12Case
	if err := json.Unmarshal(raw, &c); err != nil {
		fatal("C12 case: %v", err)
	}
	w.Emit(Ev{"ev": "reset", "class": c.Class})
	switch c.Kind {
	case "huge":
		w.Emit(hugeVP9(c.Huge, c.Mtu, c.Flexible))
	case "decode":
		b := bytesOf(c.Bytes)
		d := vp9Decode(b)
		u := vp9DecodeInto(vp9Used(len(b)%2 == 1), b) // every other case: zero-allocation mode
		w.Emit(Ev{"ev": "decode", "bytes": c.Bytes, "dlen": c.Dlen, "want": c.Want, "wantok": c.WantOk, "res": d["res"], "f": d["f"], "out": d["out"], "head": d["head"],
			"append_safe": d["append_safe"].(bool) && u["append_safe"].(bool), "used": Ev{"res": u["res"], "f": u["f"], "out": u["out"]}})
	case "header":
		var h vp9.Header
		var err error
		r, _ := guard(func() { err = h.Unmarshal(bytesOf(c.Bytes)) })
		f := Ev{"Profile": int(h.Profile), "ShowExistingFrame": h.ShowExistingFrame, "FrameToShowMapIdx": int(h.FrameToShowMapIdx), "NonKeyFrame": h.NonKeyFrame,
			"ShowFrame": h.ShowFrame, "ErrorResilientMode": h.ErrorResilientMode, "HasColor": h.ColorConfig != nil, "BitDepth": 0, "ColorSpace": 0,
			"ColorRange": false, "SubsamplingX": false, "SubsamplingY": false, "Width": int(h.Width()), "Height": int(h.Height())}
		if cc := h.ColorConfig; cc != nil {
			f["BitDepth"], f["ColorSpace"], f["ColorRange"], f["SubsamplingX"], f["SubsamplingY"] = int(cc.BitDepth), int(cc.ColorSpace), cc.ColorRange, cc.SubsamplingX, cc.SubsamplingY
		}
		// every truncation of the header must be refused or parse without panic
		tp := 0
		for cut := 0; cut < len(c.Bytes); cut++ {
			var hh vp9.Header
			rr, _ := guard(func() { _ = hh.Unmarshal(bytesOf(c.Bytes[:cut])) })
			if rr != "ok" {
				tp++
			}
		}
		w.Emit(Ev{"ev": "header", "bytes": c.Bytes, "nbits": c.Nbits, "want": c.Want, "res": outcome(r, err), "f": f, "trunc_panics": tp})
	case "payload":
		id := uint16(c.StartID)
		p := &codecs.VP9Payloader{FlexibleMode: c.Flexible, InitialPictureIDFn: func() uint16 { return id }}
		startID := c.StartID
		if c.StartID < 0 {
			// the payloader's own default for the first picture id (a random 15-bit number): the id observed on the
			// first packet is taken as the start, the running-id rules are judged from there
			p = &codecs.VP9Payloader{FlexibleMode: c.Flexible}
			startID = 0
		}
		for k, fr := range c.Frames {
			body, _ := frameBytes(frameJ{Len: fr.Body, Salt: fr.Salt, FillV: fr.FillV})
			frame := append(vp9HeaderBytes(fr.Hdr), body...)
			var frags [][]byte
			r, _ := guard(func() { frags = p.Payload(uint16(c.Mtu), cloneBytes(frame)) })
			decs := []Ev{}
			for _, f := range frags {
				decs = append(decs, vp9Decode(f))
			}
			if c.StartID < 0 && k == 0 && len(frags) > 0 {
				q := &codecs.VP9Packet{}
				guard(func() {
					if _, err := q.Unmarshal(cloneBytes(frags[0])); err == nil {
						startID = int(q.PictureID)
					}
				})
			}
			w.Emit(Ev{"ev": "payload", "k": k, "mtu": c.Mtu, "flexible": c.Flexible, "startid": startID, "default_start": c.StartID < 0, "key": !fr.Hdr.NonKey, "existing": fr.Hdr.Existing, "w": fr.Hdr.W, "h": fr.Hdr.H,
				"frame": ints(frame), "res": r, "frags": intss(frags), "decoded": decs})
		}
	}
}
