package main

// C19: Video Layers Allocation extension.

import (
	"encoding/json"
	"errors"
	"fmt"

	"github.com/pion/rtp"
)

func init() { families["C19"] = runC19 }

type vlaLayerJ struct {
	Stream  int     `json:"stream"`
	Spatial int     `json:"spatial"`
	Rates   [][]int `json:"rates"`
	W       int     `json:"w"`
	H       int     `json:"h"`
	Fps     int     `json:"fps"`
}

type vlaJ struct {
	Rid    int         `json:"rid"`
	Ns     int         `json:"ns"`
	HasRes bool        `json:"hasres"`
	Layers []vlaLayerJ `json:"layers"`
}

type c19Case struct {
	Kind  string `json:"kind"`
	V     vlaJ   `json:"v"`
	Bytes []int  `json:"bytes"`
	Prev  []int  `json:"prev"`
	Rule  string `json:"rule"`
	Class string `json:"class"`
}

func digitsToInt(d []int) int {
	v := 0
	for i := len(d) - 1; i >= 0; i-- {
		v = v<<7 | d[i]
	}
	return v
}

func intToDigits(v int) []int {
	if v < 0 {
		return []int{-1}
	}
	out := []int{}
	for {
		out = append(out, v&0x7f)
		v >>= 7
		if v == 0 {
			return out
		}
	}
}

func buildVLA(j vlaJ) rtp.VLA {
	v := rtp.VLA{RTPStreamID: j.Rid, RTPStreamCount: j.Ns, HasResolutionAndFramerate: j.HasRes}
	for _, l := range j.Layers {
		sl := rtp.SpatialLayer{RTPStreamID: l.Stream, SpatialID: l.Spatial, Width: l.W, Height: l.H, Framerate: l.Fps}
		for _, r := range l.Rates {
			sl.TargetBitrates = append(sl.TargetBitrates, digitsToInt(r))
		}
		v.ActiveSpatialLayer = append(v.ActiveSpatialLayer, sl)
	}
	return v
}

func projVLA(v *rtp.VLA) Ev {
	layers := []Ev{}
	for _, l := range v.ActiveSpatialLayer {
		rates := [][]int{}
		for _, r := range l.TargetBitrates {
			rates = append(rates, intToDigits(r))
		}
		// exported fields as they are (a stale resolution next to HasResolutionAndFramerate=false is a difference)
		w, h, f := l.Width, l.Height, l.Framerate
		layers = append(layers, Ev{"stream": l.RTPStreamID, "spatial": l.SpatialID, "rates": rates, "w": w, "h": h, "fps": f})
	}
	return Ev{"rid": v.RTPStreamID, "ns": v.RTPStreamCount, "hasres": v.HasResolutionAndFramerate, "layers": layers}
}

func vlaErrKind(err error) string {
	switch {
	case err == nil:
		return ""
	case errors.Is(err, rtp.ErrVLAInvalidStreamCount):
		return "stream_count"
	case errors.Is(err, rtp.ErrVLAInvalidStreamID):
		return "stream_id"
	case errors.Is(err, rtp.ErrVLAInvalidSpatialID):
		return "spatial_id"
	case errors.Is(err, rtp.ErrVLADuplicateSpatialID):
		return "duplicate"
	case errors.Is(err, rtp.ErrVLAInvalidTemporalLayer):
		return "temporal_count"
	case errors.Is(err, rtp.ErrVLATooShort):
		return "too_short"
	}
	return "other"
}

func vlaDecode(prev, b []byte, usePrev bool) Ev {
	v := &rtp.VLA{}
	if usePrev && len(b)%3 == 0 {
		// a receiver the application built itself: all layers read their bitrates from one table
		table := []int{11, 22, 33, 44, 55, 66, 77, 88}
		v.RTPStreamCount, v.HasResolutionAndFramerate = 2, true
		for i := 0; i < 3; i++ {
			v.ActiveSpatialLayer = append(v.ActiveSpatialLayer, rtp.SpatialLayer{RTPStreamID: i % 2, SpatialID: i, TargetBitrates: table[i : i+4], Width: 9, Height: 9, Framerate: 9})
		}
	} else if usePrev {
		guard(func() { _, _ = v.Unmarshal(prev) })
	}
	n := -1
	var err error
	r, _ := guard(func() { n, err = v.Unmarshal(b) })
	proj := projVLA(v)
	// the decoded value is the caller's: it appends to the bitrate list of every layer (writes into spare capacity
	// only); no other layer may change
	appendSafe := true
	if r == "ok" && err == nil {
		before := fmt.Sprint(proj)
		guard(func() {
			for i := range v.ActiveSpatialLayer {
				_ = append(v.ActiveSpatialLayer[i].TargetBitrates, 7777777, 8888888)
			}
		})
		appendSafe = fmt.Sprint(projVLA(v)) == before
	}
	return Ev{"res": outcome(r, err), "n": n, "v": proj, "append_safe": appendSafe}
}

// c19Canary: fixed VLAs (one with a single layer, one rich) marshalled and decoded again; what they give must never
// change, whatever was marshalled or decoded - accepted or REJECTED - before (package-level state such as a pool of
// scratch contexts is shared by all values)
func c19Canary() string {
	out := ""
	guard(func() {
		vs := []rtp.VLA{
			{RTPStreamID: 0, RTPStreamCount: 2, ActiveSpatialLayer: []rtp.SpatialLayer{{RTPStreamID: 1, SpatialID: 0, TargetBitrates: []int{100}}}},
			{RTPStreamID: 1, RTPStreamCount: 3, HasResolutionAndFramerate: true, ActiveSpatialLayer: []rtp.SpatialLayer{
				{RTPStreamID: 0, SpatialID: 0, TargetBitrates: []int{150, 300}, Width: 320, Height: 180, Framerate: 15},
				{RTPStreamID: 0, SpatialID: 1, TargetBitrates: []int{600, 20000}, Width: 640, Height: 360, Framerate: 30},
				{RTPStreamID: 2, SpatialID: 0, TargetBitrates: []int{1, 2, 3, 4}, Width: 1280, Height: 720, Framerate: 30}}},
		}
		for _, v := range vs {
			b, err := v.Marshal()
			var back rtp.VLA
			n, err2 := back.Unmarshal(b)
			out += fmt.Sprint(b, err, n, err2, projVLA(&back), "|")
		}
	})
	return out
}

var c19Pristine = c19Canary()

func c19CanaryOK() bool { return c19Canary() == c19Pristine }

func runC19(raw json.RawMessage, w *Writer) {
	var c c19Case
	if err := json.Unmarshal(raw, &c); err != nil {
		fatal("C19 case: %v", err)
	}
	var m map[string]json.RawMessage
	_ = json.Unmarshal(raw, &m)
	w.Emit(Ev{"ev": "reset", "class": c.Class})
	switch c.Kind {
	case "valid", "invalid":
		v := buildVLA(c.V)
		var b []byte
		var err error
		r, _ := guard(func() { b, err = v.Marshal() })
		e := Ev{"ev": "marshal", "kind": c.Kind, "rule": c.Rule, "v": m["v"], "in": projVLA(&v), "res": outcome(r, err), "errkind": vlaErrKind(err), "bytes": ints(b)}
		// decode the library's own bytes (round trip) fresh and reused
		e["back"] = Ev{"res": "none", "n": -1, "v": projVLA(&rtp.VLA{})}
		e["backused"] = e["back"]
		if r == "ok" && err == nil {
			e["back"] = vlaDecode(nil, b, false)
			e["backused"] = vlaDecode(bytesOf(c.Prev), b, true)
		}
		e["canary_ok"] = c19CanaryOK()
		w.Emit(e)
		if c.Kind == "valid" {
			// decode the reference encoding (independent of the library's encoder)
			rb := bytesOf(c.Bytes)
			w.Emit(Ev{"ev": "unmarshal", "kind": "reference", "bytes": c.Bytes, "want": m["v"],
				"fresh": vlaDecode(nil, rb, false), "used": vlaDecode(bytesOf(c.Prev), rb, true), "canary_ok": c19CanaryOK()})
		}
	case "bytes":
		rb := bytesOf(c.Bytes)
		var in []byte
		if len(rb) > 0 {
			in = rb
		}
		w.Emit(Ev{"ev": "unmarshal", "kind": "bytes", "bytes": c.Bytes, "want": projVLA(&rtp.VLA{}),
			"fresh": vlaDecode(nil, in, false), "used": vlaDecode(bytesOf(c.Prev), in, true), "canary_ok": c19CanaryOK()})
	}
}
