module verifharness

go 1.20

require github.com/pion/rtp v0.0.0

require github.com/pion/randutil v0.1.0 // indirect

replace github.com/pion/rtp => /repo
