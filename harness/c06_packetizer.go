package main

// C06: packetizer. A twin payloader (same type, same call history) supplies the
// fragment list the packetizer must carry; the clock is injected (verif accessor).

import (
	"bytes"
	"encoding/json"
	"time"

	"github.com/pion/rtp"
	"github.com/pion/rtp/codecs"
)

func init() { families["C06"] = runC06 }

type c06Op struct {
	Op      string `json:"op"`
	Len     int    `json:"len"`
	Salt    int    `json:"salt"`
	Samples []int  `json:"samples"`
	N       int    `json:"n"`
}

type c06Case struct {
	Mtu       int     `json:"mtu"`
	Pt        int     `json:"pt"`
	Ssrc      []int   `json:"ssrc"`
	Payloader string  `json:"payloader"`
	SeqStart  int     `json:"seqstart"`
	Ts0       []int   `json:"ts0"`
	Abs0      int     `json:"abs0"`
	Inst0     []int   `json:"inst0"`
	Ops       []c06Op `json:"ops"`
	Class     string  `json:"class"`
}

func newPayloader(kind string) rtp.Payloader {
	switch kind {
	case "g711":
		return &codecs.G711Payloader{}
	case "g722":
		return &codecs.G722Payloader{}
	case "opus":
		return &codecs.OpusPayloader{}
	case "h264":
		return &codecs.H264Payloader{}
	case "vp8":
		return &codecs.VP8Payloader{}
	case "vp8pid":
		return &codecs.VP8Payloader{EnablePictureID: true}
	}
	fatal("payloader %q", kind)
	return nil
}

// recPayloader records what the real payloader handed to the packetizer (owned copies), so
// "carries the payloader's fragments unchanged and in order" is judged against exactly those.
type recPayloader struct {
	inner  rtp.Payloader
	last   [][]byte
	budget int
}

func (r *recPayloader) Payload(mtu uint16, payload []byte) [][]byte {
	out := r.inner.Payload(mtu, payload)
	r.last = cloneFrags(out)
	r.budget = int(mtu)
	return out
}

func c06Payload(kind string, n, salt int) []byte {
	b := pat(n, salt)
	switch salt % 7 { // payload texture: the packetizer must carry any bytes
	case 4:
		for i := range b {
			b[i] = 0xFF
		}
	case 5:
		for i := range b {
			b[i] = byte(salt)
		}
	}
	if kind == "h264" && n > 0 {
		b[0] = 0x65 // one IDR slice NAL (no start code inside: the pattern has no zero bytes)
		if salt%3 == 0 {
			b[0] = 0x67 // a lone SPS: held back by the payloader, the call yields no fragment
		}
	}
	return b
}

func pktEv(p *rtp.Packet, frag []byte, haveFrag bool) Ev {
	var buf []byte
	var err error
	r, _ := guard(func() { buf, err = p.Marshal() })
	back := &rtp.Packet{}
	bres := "none"
	if r == "ok" && err == nil {
		var uerr error
		r2, _ := guard(func() { uerr = back.Unmarshal(buf) })
		bres = outcome(r2, uerr)
	}
	return Ev{"hdr": projHeader(&p.Header), "paylen": len(p.Payload), "padsize": int(p.PaddingSize),
		"payload_is_frag": haveFrag && bytes.Equal(p.Payload, frag),
		"mres":            outcome(r, err), "merrkind": errKind(err), "mlen": len(buf),
		"bres": bres, "bhdr": projHeader(&back.Header), "bpaylen": len(back.Payload), "bpadsize": int(back.PaddingSize),
		"bpayload_eq": bytes.Equal(back.Payload, p.Payload)}
}

// noNil replaces nil entries of a returned packet list by empty packets (so that the projection stays total) and counts them.
func noNil(pkts []*rtp.Packet) ([]*rtp.Packet, int) {
	n := 0
	for i, p := range pkts {
		if p == nil {
			pkts[i] = &rtp.Packet{}
			n++
		}
	}
	return pkts, n
}

func runC06(raw json.RawMessage, w *Writer) {
	var c c06Case
	if err := json.Unmarshal(raw, &c); err != nil {
		fatal("C06 case: %v", err)
	}
	seq := rtp.NewFixedSequencer(uint16(c.SeqStart))
	rec := &recPayloader{inner: newPayloader(c.Payloader)}
	pz := rtp.NewPacketizer(uint16(c.Mtu), uint8(c.Pt), u32of(c.Ssrc), rec, seq, 90000)
	instSec, instJ := int64(c.Inst0[0]), int64(c.Inst0[1])
	okClock := rtp.VerifSetPacketizerClock(pz, func() time.Time { return time.Unix(instSec, instJ*1953125) })
	okTs := rtp.VerifSetPacketizerTimestamp(pz, u32of(c.Ts0))
	if _, okRead := rtp.VerifPacketizerTimestamp(pz); !okClock || !okTs || !okRead {
		// the verification accessors do not fit this implementation: the case cannot be positioned
		w.Emit(Ev{"ev": "reset", "class": c.Class, "mtu": c.Mtu, "pt": c.Pt, "ssrc": c.Ssrc, "seqstart": c.SeqStart, "ts0": c.Ts0, "abs0": c.Abs0,
			"payloader": c.Payloader, "inst0": c.Inst0})
		w.Emit(Ev{"ev": "unavailable"})
		return
	}
	if c.Abs0 != 0 {
		pz.EnableAbsSendTime(c.Abs0)
	}
	w.Emit(Ev{"ev": "reset", "class": c.Class, "mtu": c.Mtu, "pt": c.Pt, "ssrc": c.Ssrc, "seqstart": c.SeqStart, "ts0": c.Ts0, "abs0": c.Abs0,
		"payloader": c.Payloader})
	// packets handed out by earlier calls are kept (a pacer queue): they must not change later
	type keptPkt struct {
		p    *rtp.Packet
		snap []byte
	}
	var kept []keptPkt
	snapOf := func(p *rtp.Packet) []byte {
		b, _ := json.Marshal(Ev{"h": projHeader(&p.Header), "pl": ints(p.Payload), "ps": int(p.PaddingSize)})
		return b
	}
	stable := func() bool {
		for _, kp := range kept {
			if !bytes.Equal(snapOf(kp.p), kp.snap) {
				return false
			}
		}
		return true
	}
	for k, op := range c.Ops {
		// a fresh, distinguishable send instant per call
		instSec, instJ = int64(c.Inst0[0])+int64(k), (int64(c.Inst0[1])+int64(37*k))%512
		switch op.Op {
		case "packetize":
			payload := c06Payload(c.Payloader, op.Len, op.Salt)
			var pkts []*rtp.Packet
			rec.last, rec.budget = nil, -1
			r, _ := guard(func() { pkts = pz.Packetize(cloneBytes(payload), u32of(op.Samples)) })
			pkts, nilPkts := noNil(pkts)
			frags := rec.last
			pe := []Ev{}
			for i, p := range pkts {
				if i < len(frags) {
					pe = append(pe, pktEv(p, frags[i], true))
				} else {
					pe = append(pe, pktEv(p, nil, false))
				}
			}
			ts, _ := rtp.VerifPacketizerTimestamp(pz)
			earlier := stable()
			for _, p := range pkts {
				kept = append(kept, keptPkt{p, snapOf(p)})
			}
			w.Emit(Ev{"ev": "packetize", "res": r, "len": op.Len, "samples": op.Samples, "inst": []int{int(instSec), int(instJ)},
				"nfrags": len(frags), "budget": rec.budget, "nil_packets": nilPkts, "pkts": pe, "ts_after": be32(ts), "earlier_packets_unchanged": earlier})
		case "skip":
			r, _ := guard(func() { pz.SkipSamples(u32of(op.Samples)) })
			ts, _ := rtp.VerifPacketizerTimestamp(pz)
			w.Emit(Ev{"ev": "skip", "res": r, "samples": op.Samples, "ts_after": be32(ts)})
		case "pad":
			var pkts []*rtp.Packet
			r, _ := guard(func() { pkts = pz.GeneratePadding(uint32(op.N)) })
			pkts, nilPkts := noNil(pkts)
			pe := []Ev{}
			for _, p := range pkts {
				pe = append(pe, pktEv(p, nil, false))
			}
			earlier := stable()
			for _, p := range pkts {
				kept = append(kept, keptPkt{p, snapOf(p)})
			}
			w.Emit(Ev{"ev": "pad", "res": r, "n": op.N, "nil_packets": nilPkts, "pkts": pe, "earlier_packets_unchanged": earlier})
		case "enable":
			r, _ := guard(func() { pz.EnableAbsSendTime(op.N) })
			w.Emit(Ev{"ev": "enable", "res": r, "id": op.N})
		}
	}
}
