package main

// C15: resynchronisation after loss. The receiver under test sees garbage, the surviving
// packets of frame A, then frame B intact; a fresh receiver sees frame B only.

import "encoding/json"

func init() { families["C15"] = runC15 }

type c15Src struct {
	Src   string  `json:"src"`
	Items [][]int `json:"items"`
	Feed  c09Feed `json:"feed"`
}

type c15Case struct {
	Kind    string  `json:"kind"`
	A       c15Src  `json:"a"`
	B       c15Src  `json:"b"`
	Mask    int     `json:"mask"`
	Garbage [][]int `json:"garbage"`
	// damaged / foreign packets that arrive after frame A's survivors, right before frame B
	After [][]int `json:"after"`
	Class string  `json:"class"`
}

func c15Items(s c15Src) [][]byte {
	if s.Src == "bytes" {
		out := [][]byte{}
		for _, it := range s.Items {
			out = append(out, bytesOf(it))
		}
		return out
	}
	return c09Items(c09Case{Src: "feed", Feed: s.Feed})
}

func runC15(raw json.RawMessage, w *Writer) {
	var c c15Case
	if err := json.Unmarshal(raw, &c); err != nil {
		fatal("C15 case: %v", err)
	}
	a, b := c15Items(c.A), c15Items(c.B)
	used, fresh := newDepack(c.Kind), newDepack(c.Kind)
	delivered := 0
	r0, _ := guard(func() {
		for _, g := range c.Garbage {
			_, _ = used.Unmarshal(bytesOf(g))
		}
		for i, p := range a {
			keep := i < 30 && c.Mask >= 0 && c.Mask&(1<<uint(i)) != 0
			if c.Mask == -1 { // everything but the last packet
				keep = i < len(a)-1
			} else if c.Mask == -2 { // everything but the first packet
				keep = i > 0
			}
			if keep {
				_, _ = used.Unmarshal(cloneBytes(p))
				delivered++
			}
		}
		for _, g := range c.After {
			_, _ = used.Unmarshal(bytesOf(g))
		}
	})
	w.Emit(Ev{"ev": "reset", "class": c.Class, "kind": c.Kind})
	w.Emit(Ev{"ev": "history", "res": r0, "a_packets": len(a), "delivered": delivered, "garbage": len(c.Garbage) + len(c.After), "b_packets": len(b)})
	for k, p := range b {
		var o1, o2 []byte
		var e1, e2 error
		r, _ := guard(func() {
			o1, e1 = used.Unmarshal(cloneBytes(p))
			o2, e2 = fresh.Unmarshal(cloneBytes(p))
		})
		// an output far longer than the oracle's already differs from it: recorded by its length and a prefix (a receiver that
		// never drops abandoned bytes would otherwise put its whole growing buffer into every event)
		rec := o1
		if len(rec) > len(o2)+64 {
			rec = rec[:len(o2)+64]
		}
		w.Emit(Ev{"ev": "after_loss", "k": k, "res": r, "used_res": outcome("ok", e1), "fresh_res": outcome("ok", e2), "used_out": ints(rec), "used_len": len(o1), "fresh_out": ints(o2)})
	}
}
