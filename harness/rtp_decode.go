package main

// C02 / C03: decoding arbitrary and RFC-grammar byte strings, fresh and reused
// receivers, re-encode stability, standalone extension-block views.

import (
	"encoding/json"

	"github.com/pion/rtp"
)

func init() {
	families["C02"] = runDecode
	families["C03"] = runDecode
}

type decCase struct {
	Kind    string          `json:"kind"`
	Bytes   []int           `json:"bytes"`
	Prev    []int           `json:"prev"`
	Hist    [][]int         `json:"hist"`    // inputs decoded into the used receivers before prev (any outcome)
	Prefill bool            `json:"prefill"` // the used receivers start as values the application filled in itself (every field set)
	Class   string          `json:"class"`
	Want    json.RawMessage `json:"p"`
	WantN   int             `json:"n"`
	Profile int             `json:"profile"`
	Exts    json.RawMessage `json:"exts"`
}

type decRes struct {
	res string
	n   int
	obs Ev
}

func decodePacket(p *rtp.Packet, b []byte) decRes {
	var err error
	r, _ := guard(func() { err = p.Unmarshal(b) })
	return decRes{res: outcome(r, err), n: -1, obs: projPacket(p)}
}

func decodeHeader(h *rtp.Header, b []byte) decRes {
	var err error
	n := -1
	r, _ := guard(func() { n, err = h.Unmarshal(b) })
	return decRes{res: outcome(r, err), n: n, obs: projHeader(h)}
}

func (d decRes) ev() Ev { return Ev{"res": d.res, "n": d.n, "obs": d.obs} }

func runDecode(raw json.RawMessage, w *Writer) {
	var c decCase
	if err := json.Unmarshal(raw, &c); err != nil {
		fatal("decode case: %v", err)
	}
	w.Emit(Ev{"ev": "reset", "class": c.Class})
	if c.Kind == "view" {
		runView(c, w)
		return
	}
	b := bytesOf(c.Bytes)
	prev := bytesOf(c.Prev)
	e := Ev{"ev": "decode", "kind": c.Kind, "bytes": c.Bytes, "prevlen": len(prev)}
	if c.Kind == "image" {
		e["want"], e["wantn"] = c.Want, c.WantN
	}
	// fresh receivers
	fp := &rtp.Packet{}
	fresh := decodePacket(fp, cloneBytes(b))
	fh := &rtp.Header{}
	hfresh := decodeHeader(fh, cloneBytes(b))
	// used receivers: decode the earlier input first (whatever its outcome)
	up := &rtp.Packet{}
	uh := &rtp.Header{}
	if c.Prefill {
		full := func() rtp.Header {
			return rtp.Header{Version: 3, Padding: true, Extension: true, Marker: true, PayloadType: 127, SequenceNumber: 0xFFFF, Timestamp: 0xFFFFFFFF, SSRC: 0xFFFFFFFF,
				CSRC: []uint32{1, 2, 3, 4, 5, 6, 7, 8, 9, 10, 11, 12, 13, 14, 15}, ExtensionProfile: 0x1000,
				Extensions: []rtp.Extension{}}
		}
		fh := full()
		_ = fh.SetExtension(1, []byte{1, 2, 3})
		_ = fh.SetExtension(200, []byte{4})
		_ = fh.SetExtension(7, []byte{})
		up = &rtp.Packet{Header: fh, Payload: []byte{9, 9, 9, 9}, PaddingSize: 255}
		h2 := full()
		_ = h2.SetExtension(3, []byte{5, 6})
		uh = &h2
	}
	for _, h := range c.Hist {
		hb := bytesOf(h)
		guard(func() { _ = up.Unmarshal(cloneBytes(hb)) })
		guard(func() { _, _ = uh.Unmarshal(cloneBytes(hb)) })
	}
	guard(func() { _ = up.Unmarshal(cloneBytes(prev)) })
	used := decodePacket(up, cloneBytes(b))
	guard(func() { _, _ = uh.Unmarshal(cloneBytes(prev)) })
	hused := decodeHeader(uh, cloneBytes(b))
	e["fresh"], e["used"], e["hfresh"], e["hused"] = fresh.ev(), used.ev(), hfresh.ev(), hused.ev()
	// re-encode what was accepted (C03 b)
	rem := Ev{"res": "none", "errkind": "", "bytes": []int{}}
	red := Ev{"res": "none", "obs": projPacket(&rtp.Packet{})}
	if fresh.res == "ok" {
		var out []byte
		var err error
		r, _ := guard(func() { out, err = fp.Marshal() })
		rem = Ev{"res": outcome(r, err), "errkind": errKind(err), "bytes": ints(out)}
		if r == "ok" && err == nil {
			q := &rtp.Packet{}
			d := decodePacket(q, out)
			red = Ev{"res": d.res, "obs": d.obs}
		}
	}
	e["remarshal"], e["redecode"] = rem, red
	w.Emit(e)
}

// runView feeds one well-formed extension block (with its 4-byte profile/length
// prefix) to the standalone HeaderExtension implementers.
func runView(c decCase, w *Writer) {
	block := bytesOf(c.Bytes)
	views := map[string]rtp.HeaderExtension{
		"onebyte": &rtp.OneByteHeaderExtension{},
		"twobyte": &rtp.TwoByteHeaderExtension{},
		"raw":     &rtp.RawExtension{},
	}
	for _, name := range []string{"onebyte", "twobyte", "raw"} {
		v := views[name]
		e := Ev{"ev": "view", "view": name, "profile": c.Profile, "block": c.Bytes, "want": c.Exts}
		n := -1
		var err error
		ids := []int{}
		vals := [][]int{}
		var mb []byte
		size, mn := -1, -1
		dst := fillBuf(len(block)+3, 1)
		r, _ := guard(func() {
			n, err = v.Unmarshal(cloneBytes(block))
			if err != nil {
				return
			}
			for _, id := range v.GetIDs() {
				ids = append(ids, int(id))
				vals = append(vals, ints(v.Get(id)))
			}
			mb, _ = v.Marshal()
			mb = cloneBytes(mb)
			size = v.MarshalSize()
			mn, _ = v.MarshalTo(dst)
		})
		e["res"], e["n"], e["ids"], e["vals"], e["marshal"], e["size"], e["mton"], e["mto"] =
			outcome(r, err), n, ids, vals, ints(mb), size, mn, ints(dst)
		// the same block decoded by a view of the same kind that has decoded ANOTHER well-formed block before and has
		// answered every question about it (a view may keep derived data between calls)
		priors := map[string][]byte{
			"onebyte": {0xBE, 0xDE, 0, 2, 0x10, 0xAA, 0x21, 0xBB, 0xCC, 0, 0, 0},
			"twobyte": {0x10, 0x00, 0, 2, 1, 1, 0xAA, 2, 2, 0xBB, 0xCC, 0},
			"raw":     {0x12, 0x34, 0, 1, 1, 2, 3, 4},
		}
		used := map[string]rtp.HeaderExtension{"onebyte": &rtp.OneByteHeaderExtension{}, "twobyte": &rtp.TwoByteHeaderExtension{}, "raw": &rtp.RawExtension{}}[name]
		uids, uvals := []int{}, [][]int{}
		var umb []byte
		var uerr error
		ur, _ := guard(func() {
			if _, e0 := used.Unmarshal(priors[name]); e0 == nil {
				for _, id := range used.GetIDs() {
					_ = used.Get(id)
				}
				_, _ = used.Marshal()
				_ = used.MarshalSize()
			}
			if _, uerr = used.Unmarshal(cloneBytes(block)); uerr != nil {
				return
			}
			for _, id := range used.GetIDs() {
				uids = append(uids, int(id))
				uvals = append(uvals, ints(used.Get(id)))
			}
			umb, _ = used.Marshal()
		})
		e["used_res"], e["used_ids"], e["used_vals"], e["used_marshal"] = outcome(ur, uerr), uids, uvals, ints(umb)
		w.Emit(e)
	}
}
