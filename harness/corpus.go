package main

// "harness corpus <repo> <out.ndjson>": the byte strings the authors of the repository's tests chose
// (every []byte{...} composite literal of constant elements and every []byte("...") conversion in a
// _test.go file of the working tree), de-duplicated. They are an extra case source: captured VP9 / AV1 /
// H265 / RTP packets judged against every clause of the trace specifications, not only against the
// assertion the test happens to make.

import (
	"bufio"
	"encoding/json"
	"go/ast"
	"go/constant"
	"go/parser"
	"go/token"
	"os"
	"path/filepath"
	"sort"
	"strconv"
	"strings"
)

func isByteSlice(e ast.Expr) bool {
	at, ok := e.(*ast.ArrayType)
	if !ok || at.Len != nil {
		return false
	}
	id, ok := at.Elt.(*ast.Ident)
	return ok && (id.Name == "byte" || id.Name == "uint8")
}

func constByte(e ast.Expr) (byte, bool) {
	switch v := e.(type) {
	case *ast.BasicLit:
		if v.Kind != token.INT && v.Kind != token.CHAR {
			return 0, false
		}
		c := constant.MakeFromLiteral(v.Value, v.Kind, 0)
		n, ok := constant.Int64Val(constant.ToInt(c))
		if !ok || n < 0 || n > 255 {
			return 0, false
		}
		return byte(n), true
	case *ast.ParenExpr:
		return constByte(v.X)
	case *ast.BinaryExpr:
		a, ok1 := constByte(v.X)
		b, ok2 := constByte(v.Y)
		if !ok1 || !ok2 {
			return 0, false
		}
		switch v.Op {
		case token.OR:
			return a | b, true
		case token.AND:
			return a & b, true
		case token.ADD:
			return a + b, true
		case token.SHL:
			return a << b, true
		}
	}
	return 0, false
}

func runCorpus(repo, outPath string) {
	type entry struct {
		Bytes []int  `json:"bytes"`
		File  string `json:"file"`
		Line  int    `json:"line"`
	}
	seen := map[string]bool{}
	var entries []entry
	add := func(b []byte, file string, line int) {
		if len(b) > 6000 || seen[string(b)] {
			return
		}
		seen[string(b)] = true
		entries = append(entries, entry{Bytes: ints(b), File: file, Line: line})
	}
	var files []string
	_ = filepath.Walk(repo, func(path string, info os.FileInfo, err error) error {
		if err != nil {
			return nil
		}
		if info.IsDir() && (info.Name() == ".git" || info.Name() == "out") {
			return filepath.SkipDir
		}
		if !info.IsDir() && strings.HasSuffix(path, "_test.go") {
			files = append(files, path)
		}
		return nil
	})
	sort.Strings(files)
	fset := token.NewFileSet()
	for _, path := range files {
		f, err := parser.ParseFile(fset, path, nil, 0)
		if err != nil {
			continue // a test file that does not parse is not this tool's business
		}
		rel, _ := filepath.Rel(repo, path)
		tryBytes := func(v *ast.CompositeLit) {
			b := make([]byte, 0, len(v.Elts))
			for _, el := range v.Elts {
				x, ok := constByte(el)
				if !ok {
					return
				}
				b = append(b, x)
			}
			add(b, rel, fset.Position(v.Pos()).Line)
		}
		// literals whose type is elided inside [][]byte{...} / [...][]byte / map[..][]byte
		var elided func(v *ast.CompositeLit, elt ast.Expr)
		elided = func(v *ast.CompositeLit, elt ast.Expr) {
			for _, el := range v.Elts {
				if kv, ok := el.(*ast.KeyValueExpr); ok {
					el = kv.Value
				}
				inner, ok := el.(*ast.CompositeLit)
				if !ok || inner.Type != nil {
					continue
				}
				if isByteSlice(elt) {
					tryBytes(inner)
				} else if at, ok := elt.(*ast.ArrayType); ok {
					elided(inner, at.Elt)
				}
			}
		}
		ast.Inspect(f, func(n ast.Node) bool {
			switch v := n.(type) {
			case *ast.CompositeLit:
				if v.Type == nil {
					return true
				}
				if isByteSlice(v.Type) {
					tryBytes(v)
					return true
				}
				switch t := v.Type.(type) {
				case *ast.ArrayType:
					elided(v, t.Elt)
				case *ast.MapType:
					elided(v, t.Value)
				}
			case *ast.CallExpr:
				if len(v.Args) == 1 && isByteSlice(v.Fun) {
					if lit, ok := v.Args[0].(*ast.BasicLit); ok && lit.Kind == token.STRING {
						if s, err := strconv.Unquote(lit.Value); err == nil {
							add([]byte(s), rel, fset.Position(v.Pos()).Line)
						}
					}
				}
			}
			return true
		})
	}
	out, err := os.Create(outPath)
	if err != nil {
		fatal("%v", err)
	}
	w := bufio.NewWriter(out)
	enc := json.NewEncoder(w)
	for _, e := range entries {
		_ = enc.Encode(e)
	}
	_ = w.Flush()
	_ = out.Close()
}
