package main

// RTP core families (C01-C04, C20): build packets through the public API, run the
// calls, project what came back. No expectations are computed here.

import (
	"encoding/json"
	"errors"
	"io"
	"reflect"

	"github.com/pion/rtp"
)

type extJ struct {
	ID  int   `json:"id"`
	Val []int `json:"val"`
}

type pktJ struct {
	Ver     int     `json:"ver"`
	Pad     bool    `json:"pad"`
	X       bool    `json:"x"`
	M       bool    `json:"m"`
	Pt      int     `json:"pt"`
	Seq     int     `json:"seq"`
	Ts      []int   `json:"ts"`
	Ssrc    []int   `json:"ssrc"`
	Csrc    [][]int `json:"csrc"`
	Profile int     `json:"profile"`
	Exts    []extJ  `json:"exts"`
	Payload []int   `json:"payload"`
	Padsize int     `json:"padsize"`
}

// buildPacket constructs the value through the public API only: exported fields are
// assigned, extensions go through SetExtension on a header preset to the profile.
func buildPacket(j pktJ) (*rtp.Packet, error) {
	p := &rtp.Packet{}
	p.Version = uint8(j.Ver)
	p.Padding = j.Pad
	p.Marker = j.M
	p.PayloadType = uint8(j.Pt)
	p.SequenceNumber = uint16(j.Seq)
	p.Timestamp = u32of(j.Ts)
	p.SSRC = u32of(j.Ssrc)
	if len(j.Csrc) > 0 {
		p.CSRC = make([]uint32, len(j.Csrc))
		for i, c := range j.Csrc {
			p.CSRC[i] = u32of(c)
		}
	}
	if j.X {
		p.Extension = true
		p.ExtensionProfile = uint16(j.Profile)
		for _, e := range j.Exts {
			if err := p.SetExtension(uint8(e.ID), bytesOf(e.Val)); err != nil {
				return nil, err
			}
		}
	}
	if len(j.Payload) > 0 {
		p.Payload = bytesOf(j.Payload)
	}
	p.PaddingSize = byte(j.Padsize)
	return p, nil
}

// extList reads the ordered (id, value) list. The Extension fields are unexported, so
// the list is read by reflection (kind-specific getters are allowed on unexported
// fields); if the layout ever changes, the public accessors are used instead (they
// cannot show the second of two equal ids).
func extList(h *rtp.Header) []Ev {
	out := []Ev{}
	v := reflect.ValueOf(h.Extensions)
	okReflect := true
	for i := 0; i < v.Len(); i++ {
		e := v.Index(i)
		fid, fp := e.FieldByName("id"), e.FieldByName("payload")
		if !fid.IsValid() || !fp.IsValid() || fid.Kind() != reflect.Uint8 || fp.Kind() != reflect.Slice {
			okReflect = false
			break
		}
		val := make([]int, fp.Len())
		for k := range val {
			val[k] = int(fp.Index(k).Uint())
		}
		out = append(out, Ev{"id": int(fid.Uint()), "val": val})
	}
	if okReflect {
		return out
	}
	out = []Ev{}
	for _, id := range h.GetExtensionIDs() {
		out = append(out, Ev{"id": int(id), "val": ints(h.GetExtension(id))})
	}
	return out
}

// projHeader is the observable projection of DESIGN 2.5a.
func projHeader(h *rtp.Header) Ev {
	csrc := [][]int{}
	for _, c := range h.CSRC {
		csrc = append(csrc, be32(c))
	}
	e := Ev{
		"ver": int(h.Version), "pad": h.Padding, "x": h.Extension, "m": h.Marker, "pt": int(h.PayloadType),
		"seq": int(h.SequenceNumber), "ts": be32(h.Timestamp), "ssrc": be32(h.SSRC), "csrc": csrc,
		"profile": 0, "exts": []Ev{},
		// the Extensions slice is an exported field: its length is observable even when X is clear
		"nexts_raw": len(h.Extensions),
	}
	if h.Extension {
		e["profile"] = int(h.ExtensionProfile)
		e["exts"] = extList(h)
	}
	return e
}

func projPacket(p *rtp.Packet) Ev {
	e := projHeader(&p.Header)
	e["payload"] = ints(p.Payload)
	e["padsize"] = int(p.PaddingSize)
	return e
}

func errKind(err error) string {
	switch {
	case err == nil:
		return ""
	case errors.Is(err, io.ErrShortBuffer):
		return "short_buffer"
	case invalidPaddingErr != nil && errors.Is(err, invalidPaddingErr):
		return "invalid_padding"
	}
	return "other"
}

// invalidPaddingErr is learned from the library itself (the error value is unexported):
// what Marshal returns for the P bit with a zero count.
var invalidPaddingErr = func() error {
	_, err := (&rtp.Packet{Header: rtp.Header{Version: 2, Padding: true}}).Marshal()
	return errors.Unwrap(errWrap{err})
}()

type errWrap struct{ e error }

func (w errWrap) Error() string { return "w" }
func (w errWrap) Unwrap() error { return w.e }

func outcome(res string, err error) string {
	if res == "ok" && err != nil {
		return "err"
	}
	return res
}

func init() {
	families["C01"] = runC01
	families["C04"] = runC04
	families["C20"] = runC20
}

type rtpCase struct {
	P     pktJ            `json:"p"`
	P2    *pktJ           `json:"p2"`
	RawP  json.RawMessage `json:"-"`
	Tags  json.RawMessage `json:"tags"`
	Class string          `json:"class"`
	Dsts  [][]int         `json:"dsts"`
	Sites []siteJ         `json:"sites"`
}

func parseRtpCase(raw json.RawMessage) (rtpCase, json.RawMessage) {
	var c rtpCase
	if err := json.Unmarshal(raw, &c); err != nil {
		fatal("rtp case: %v", err)
	}
	var m map[string]json.RawMessage
	_ = json.Unmarshal(raw, &m)
	return c, m["p"]
}

// ---- C01 -------------------------------------------------------------------

func runC01(raw json.RawMessage, w *Writer) {
	c, want := parseRtpCase(raw)
	w.Emit(Ev{"ev": "reset", "class": c.Class})
	p, err := buildPacket(c.P)
	if err != nil {
		w.Emit(Ev{"ev": "skip", "fam": "C01", "why": "unconstructible: " + err.Error()})
		return
	}
	e := Ev{"ev": "roundtrip", "want": want, "in": projPacket(p)}
	// Packet
	var buf []byte
	var merr, uerr error
	size := -1
	out := &rtp.Packet{}
	res, _ := guard(func() {
		size = p.MarshalSize()
		buf, merr = p.Marshal()
	})
	e["msize"], e["mres"], e["mlen"], e["merrkind"] = size, outcome(res, merr), len(buf), errKind(merr)
	ures := "none"
	if res == "ok" && merr == nil {
		r2, _ := guard(func() { uerr = out.Unmarshal(buf) })
		ures = outcome(r2, uerr)
	}
	e["ures"], e["out"] = ures, projPacket(out)
	// Header
	var hbuf []byte
	hsize, hn := -1, -1
	hout := &rtp.Header{}
	hres, _ := guard(func() {
		hsize = p.Header.MarshalSize()
		hbuf, merr = p.Header.Marshal()
	})
	e["hmsize"], e["hmres"], e["hmlen"] = hsize, outcome(hres, merr), len(hbuf)
	hures := "none"
	if hres == "ok" && merr == nil {
		r2, _ := guard(func() { hn, uerr = hout.Unmarshal(hbuf) })
		hures = outcome(r2, uerr)
	}
	e["hures"], e["hn"], e["hout"] = hures, hn, projHeader(hout)
	w.Emit(e)
	if c.P2 == nil {
		return
	}
	// object lifecycle: the SAME packet object is changed in place into another well-formed value and
	// marshalled again; the bytes must be those of a freshly built packet with that value
	twin, err := buildPacket(*c.P2)
	if err != nil {
		return
	}
	var again, want2 []byte
	var e1, e2 error
	size2 := -1
	r2, _ := guard(func() {
		rebuildInPlace(p, *c.P2)
		size2 = p.MarshalSize()
		again, e1 = p.Marshal()
		want2, e2 = twin.Marshal()
	})
	w.Emit(Ev{"ev": "remarshal", "res": outcome(r2, e1), "twin_res": outcome("ok", e2), "size": size2, "bytes": ints(again), "twin": ints(want2),
		"proj": projPacket(p), "twin_proj": projPacket(twin)})
	// the same through MarshalTo: a packet that has been marshalled into a buffer, then gets a LONGER value for an id it
	// already carries (same number of elements), must marshal like a freshly built packet with that value
	a, errA := buildPacket(*c.P2)
	b, errB := buildPacket(*c.P2)
	if errA != nil || errB != nil {
		return
	}
	ids := a.GetExtensionIDs()
	if len(ids) == 0 {
		return
	}
	grown := append(cloneBytes(a.GetExtension(ids[0])), 0xD1, 0xD2, 0xD3, 0xD4)
	var got, want3 []byte
	var e3, e4 error
	size3 := -1
	applied := false
	r3, _ := guard(func() {
		_, _ = a.MarshalTo(make([]byte, a.MarshalSize()+8))
		_, _ = a.Header.MarshalTo(make([]byte, a.MarshalSize()+8))
		if a.SetExtension(ids[0], grown) != nil || b.SetExtension(ids[0], cloneBytes(grown)) != nil {
			return
		}
		applied = true
		size3 = a.MarshalSize()
		got, e3 = a.Marshal()
		want3, e4 = b.Marshal()
	})
	if applied {
		w.Emit(Ev{"ev": "remarshal", "res": outcome(r3, e3), "twin_res": outcome("ok", e4), "size": size3, "bytes": ints(got), "twin": ints(want3),
			"proj": projPacket(a), "twin_proj": projPacket(b)})
	}
}

// rebuildInPlace turns the existing object into the value j using only the public API.
func rebuildInPlace(p *rtp.Packet, j pktJ) {
	for _, id := range p.GetExtensionIDs() {
		_ = p.DelExtension(id)
	}
	p.Version, p.Padding, p.Marker, p.PayloadType = uint8(j.Ver), j.Pad, j.M, uint8(j.Pt)
	p.SequenceNumber, p.Timestamp, p.SSRC = uint16(j.Seq), u32of(j.Ts), u32of(j.Ssrc)
	p.CSRC = p.CSRC[:0]
	for _, cs := range j.Csrc {
		p.CSRC = append(p.CSRC, u32of(cs))
	}
	p.Extension = j.X
	if j.X {
		p.ExtensionProfile = uint16(j.Profile)
		for _, e := range j.Exts {
			_ = p.SetExtension(uint8(e.ID), bytesOf(e.Val))
		}
	}
	p.Payload = append(p.Payload[:0], bytesOf(j.Payload)...)
	p.PaddingSize = byte(j.Padsize)
}

// ---- C04 -------------------------------------------------------------------

func fillBuf(n, fill int) []byte {
	b := make([]byte, n)
	for i := range b {
		switch fill {
		case 0:
			b[i] = 0
		case 1:
			b[i] = 0xFF
		default:
			b[i] = byte(0xA0 + i%7)
		}
	}
	return b
}

func runC04(raw json.RawMessage, w *Writer) {
	c, want := parseRtpCase(raw)
	w.Emit(Ev{"ev": "reset", "class": c.Class})
	p, err := buildPacket(c.P)
	if err != nil {
		w.Emit(Ev{"ev": "skip", "why": "unconstructible: " + err.Error()})
		return
	}
	var ref, href []byte
	var merr, herr error
	size, hsize := -1, -1
	res, _ := guard(func() {
		size = p.MarshalSize()
		ref, merr = p.Marshal()
		hsize = p.Header.MarshalSize()
		href, herr = p.Header.Marshal()
	})
	w.Emit(Ev{"ev": "marshal", "want": want, "in": projPacket(p), "res": outcome(res, merr), "hres": outcome(res, herr),
		"size": size, "hsize": hsize, "bytes": ints(ref), "hbytes": ints(href)})
	for _, d := range c.Dsts {
		which, n, fill := d[0], d[1], d[2] // which: 0 packet, 1 header
		// the destination is a window of a larger arena (spare capacity behind it): a write
		// past len(dst) lands in bytes the caller still owns
		arena := fillBuf(n+24, fill)
		dst := arena[:n]
		before := cloneBytes(arena)
		got := -1
		var err error
		r, _ := guard(func() {
			if which == 0 {
				got, err = p.MarshalTo(dst)
			} else {
				got, err = p.Header.MarshalTo(dst)
			}
		})
		w.Emit(Ev{"ev": "marshalto", "which": which, "dstlen": n, "fill": fill, "res": outcome(r, err), "errkind": errKind(err),
			"n": got, "before": ints(before), "after": ints(arena)})
	}
	// "whatever the destination previously contained": the destination is the very buffer the packet was decoded
	// from (payload and extension values alias it) - unchanged, with other fixed fields, and with the first
	// extension deleted (everything moves towards the front). Expected bytes: Marshal() of a twin decoded from a copy.
	if res != "ok" || merr != nil || len(c.Dsts) == 0 {
		return
	}
	for _, mode := range []string{"same", "fields", "del_first", "trim_payload", "dirty_padding"} {
		for which := 0; which < 2; which++ {
			arena := fillBuf(len(ref)+24, 2)
			copy(arena, ref)
			if mode == "dirty_padding" {
				// the received padding octets need not be zero (RFC 3550 says nothing about their value)
				if !p.Padding || p.PaddingSize < 2 {
					continue
				}
				for i := len(ref) - int(p.PaddingSize); i < len(ref)-1; i++ {
					arena[i] = 0xAB
				}
			}
			before := cloneBytes(arena)
			q, twin := &rtp.Packet{}, &rtp.Packet{}
			if q.Unmarshal(arena[:len(ref)]) != nil || twin.Unmarshal(cloneBytes(arena[:len(ref)])) != nil {
				continue
			}
			applicable := true
			for _, x := range []*rtp.Packet{q, twin} {
				switch mode {
				case "fields":
					x.SequenceNumber ^= 0x5555
					x.Timestamp += 77777
					x.SSRC ^= 0x0F0F0F0F
					x.Marker = !x.Marker
				case "del_first":
					ids := x.GetExtensionIDs()
					if len(ids) == 0 || x.DelExtension(ids[0]) != nil {
						applicable = false
					}
				case "trim_payload":
					// the application shortens the payload it was handed (what lies behind it in the buffer is stale data)
					if len(x.Payload) < 2 {
						applicable = false
					} else {
						x.Payload = x.Payload[:len(x.Payload)/2]
					}
				}
			}
			if !applicable {
				continue
			}
			var want []byte
			var werr, err error
			got := -1
			r, _ := guard(func() {
				if which == 0 {
					want, werr = twin.Marshal()
					got, err = q.MarshalTo(arena[:len(ref)])
				} else {
					want, werr = twin.Header.Marshal()
					got, err = q.Header.MarshalTo(arena[:len(ref)])
				}
			})
			if werr != nil {
				continue
			}
			w.Emit(Ev{"ev": "inplace", "mode": mode, "which": which, "res": outcome(r, err), "n": got, "want": ints(want),
				"before": ints(before), "after": ints(arena)})
		}
	}
}

// ---- C20 -------------------------------------------------------------------

type siteJ struct {
	Side string `json:"side"`
	Kind string `json:"kind"`
	A    int    `json:"a"`
	B    int    `json:"b"`
	// optional earlier mutation applied to the OBSERVED side (the one that must not change)
	PreKind string `json:"prekind"`
	PreA    int    `json:"prea"`
	PreB    int    `json:"preb"`
}

type obsJ = Ev

func observe(p *rtp.Packet) Ev {
	var b []byte
	var err error
	res, _ := guard(func() { b, err = p.Marshal() })
	ids := []int{}
	vals := [][]int{}
	for _, id := range p.GetExtensionIDs() {
		ids = append(ids, int(id))
		vals = append(vals, ints(p.GetExtension(id)))
	}
	return Ev{"proj": projPacket(p), "mres": outcome(res, err), "bytes": ints(b), "ids": ids, "vals": vals}
}

func observeH(h *rtp.Header) Ev {
	var b []byte
	var err error
	res, _ := guard(func() { b, err = h.Marshal() })
	return Ev{"proj": projHeader(h), "mres": outcome(res, err), "bytes": ints(b)}
}

// mutate applies one in-place change through what the API hands out.
func mutate(p *rtp.Packet, s siteJ) (applied bool, res string) {
	res, _ = guard(func() {
		switch s.Kind {
		case "payload":
			if s.A < len(p.Payload) {
				p.Payload[s.A] ^= 0xFF
				applied = true
			}
		case "csrc":
			if s.A < len(p.CSRC) {
				p.CSRC[s.A] ^= 0xFFFFFFFF
				applied = true
			}
		case "extval":
			ids := p.GetExtensionIDs()
			if s.A < len(ids) {
				v := p.GetExtension(ids[s.A])
				if s.B < len(v) {
					v[s.B] ^= 0xFF
					applied = true
				}
			}
		case "set":
			applied = p.SetExtension(uint8(s.A), pat(s.B, 99)) == nil
		case "del":
			applied = p.DelExtension(uint8(s.A)) == nil
		case "padsize":
			p.PaddingSize ^= 0x55
			applied = true
		case "csrc_append":
			if len(p.CSRC) < 15 {
				p.CSRC = append(p.CSRC, uint32(0xC0000000)|uint32(s.A))
				applied = true
			}
		case "payload_append":
			p.Payload = append(p.Payload, byte(s.A))
			applied = true
		}
	})
	return applied, res
}

// spareCapacity leaves an empty extension list with spare capacity behind (what a
// DelExtension of the only element, or a reused receiver, produces).
func spareCapacity(p *rtp.Packet) {
	// empty CSRC list / payload with room behind them (what a reused Unmarshal receiver holds)
	if len(p.CSRC) == 0 {
		p.CSRC = make([]uint32, 0, 4)
	}
	if len(p.Payload) == 0 {
		p.Payload = make([]byte, 0, 8)
	}
	if !p.Extension || len(p.Extensions) != 0 {
		return
	}
	id := uint8(1)
	if p.ExtensionProfile != 0xBEDE && p.ExtensionProfile != 0x1000 {
		id = 0
	}
	if p.SetExtension(id, []byte{1, 2, 3, 4}) == nil {
		_ = p.DelExtension(id)
	}
}

func runC20(raw json.RawMessage, w *Writer) {
	c, want := parseRtpCase(raw)
	for _, s := range c.Sites {
		w.Emit(Ev{"ev": "reset", "class": c.Class})
		orig, err := buildPacket(c.P)
		if err == nil {
			spareCapacity(orig)
		}
		if err != nil {
			w.Emit(Ev{"ev": "skip", "why": "unconstructible: " + err.Error()})
			return
		}
		var clone *rtp.Packet
		var hclone rtp.Header
		res, _ := guard(func() {
			clone = orig.Clone()
			hclone = orig.Header.Clone()
		})
		if res != "ok" {
			w.Emit(Ev{"ev": "clone", "res": res, "want": want})
			continue
		}
		hc := &rtp.Packet{Header: hclone}
		w.Emit(Ev{"ev": "clone", "res": res, "want": want, "orig": observe(orig), "clone": observe(clone),
			"horig": observeH(&orig.Header), "hclone": observeH(&hclone)})
		// packet clone: mutate one side, observe the other
		target, other := orig, clone
		if s.Side == "clone" {
			target, other = clone, orig
		}
		if s.PreKind != "" {
			// the observed side has its own history since the clone was taken
			pa, pr := mutate(other, siteJ{Kind: s.PreKind, A: s.PreA, B: s.PreB})
			w.Emit(Ev{"ev": "premutate", "which": "packet", "site": s, "applied": pa, "res": pr, "other": observe(other)})
		}
		applied, mres := mutate(target, s)
		w.Emit(Ev{"ev": "mutate", "which": "packet", "site": s, "applied": applied, "res": mres, "other": observe(other)})
		// header clone: fresh pair
		orig2, _ := buildPacket(c.P)
		spareCapacity(orig2)
		h2 := orig2.Header.Clone()
		hc = &rtp.Packet{Header: h2}
		t2, o2 := orig2, hc
		if s.Side == "clone" {
			t2, o2 = hc, orig2
		}
		if s.PreKind != "" && s.PreKind != "payload" && s.PreKind != "padsize" && s.PreKind != "payload_append" {
			mutate(o2, siteJ{Kind: s.PreKind, A: s.PreA, B: s.PreB})
		}
		before := observeH(&o2.Header)
		applied2, mres2 := false, "ok"
		if s.Kind != "payload" && s.Kind != "padsize" && s.Kind != "payload_append" {
			applied2, mres2 = mutate(t2, s)
		}
		w.Emit(Ev{"ev": "mutate", "which": "header", "site": s, "applied": applied2, "res": mres2,
			"before": before, "other": observeH(&o2.Header)})
	}
	// What the accessors hand out belongs to the caller: it APPENDS to every extension value, to the payload and to the
	// CSRC list of one side (writes into spare capacity only); the other side must not notice. The original is a packet
	// DECODED from a wire buffer, so its values are windows of that buffer.
	if len(c.Sites) == 0 {
		return
	}
	for _, side := range []string{"orig", "clone"} {
		base, err := buildPacket(c.P)
		if err != nil {
			return
		}
		ref, merr := base.Marshal()
		if merr != nil {
			return
		}
		arena := make([]byte, len(ref), len(ref)+32)
		copy(arena, ref)
		orig := &rtp.Packet{}
		if orig.Unmarshal(arena) != nil {
			return
		}
		w.Emit(Ev{"ev": "reset", "class": c.Class})
		var clone *rtp.Packet
		if r, _ := guard(func() { clone = orig.Clone() }); r != "ok" || clone == nil {
			continue // reported by the clone events above
		}
		target, other := orig, clone
		if side == "clone" {
			target, other = clone, orig
		}
		before := observe(other)
		r, _ := guard(func() {
			for _, id := range target.GetExtensionIDs() {
				_ = append(target.GetExtension(id), 0xE1, 0xE2, 0xE3, 0xE4)
			}
			_ = append(target.Payload, 0xE5, 0xE6)
			_ = append(target.CSRC, 0xEEEEEEEE)
		})
		w.Emit(Ev{"ev": "mutate", "which": "header", "site": siteJ{Side: side, Kind: "result_append"}, "applied": true, "res": r,
			"before": before, "other": observe(other)})
	}
	// A header may hold extension elements while its X bit is switched off (the application clears the bit, or reuses a
	// receiver): the clone taken in that state must own its elements as well. The bit is set again on both sides, then
	// one side loses its first element and gets a byte of a value changed.
	for _, side := range []string{"orig", "clone"} {
		orig, err := buildPacket(c.P)
		if err != nil || len(orig.GetExtensionIDs()) == 0 {
			return
		}
		w.Emit(Ev{"ev": "reset", "class": c.Class})
		orig.Extension = false
		var clone *rtp.Packet
		if r, _ := guard(func() { clone = orig.Clone() }); r != "ok" || clone == nil {
			continue
		}
		orig.Extension, clone.Extension = true, true
		target, other := orig, clone
		if side == "clone" {
			target, other = clone, orig
		}
		before := observe(other)
		r, _ := guard(func() {
			ids := target.GetExtensionIDs()
			if len(ids) > 1 {
				if v := target.GetExtension(ids[1]); len(v) > 0 {
					v[0] ^= 0xFF
				}
			}
			if len(ids) > 0 {
				if v := target.GetExtension(ids[0]); len(v) > 0 {
					v[len(v)-1] ^= 0xFF
				}
				_ = target.DelExtension(ids[0])
			}
		})
		w.Emit(Ev{"ev": "mutate", "which": "header", "site": siteJ{Side: side, Kind: "cloned_with_x_bit_off"}, "applied": true, "res": r,
			"before": before, "other": observe(other)})
	}
}
