#!/usr/bin/env python3
"""Self-test: apply one-line mutants of pion/rtp in a scratch worktree (never in /repo),
check that the repository's own tests still pass and that the named checks report a violation.
usage: selftest/mut.py [name ...]   (no name = all)"""
import json, os, subprocess, sys, shutil, time
ROOT = os.path.dirname(os.path.dirname(os.path.abspath(__file__)))
ENV = dict(os.environ, GOFLAGS="-mod=mod", GOPROXY="off", GOSUMDB="off", GOTOOLCHAIN="local")
MUTANTS = json.load(open(os.path.join(ROOT, "selftest", "mutants.json")))

def run(name, m):
    wt = "/tmp/selftest-%s-%d" % (name, os.getpid())
    subprocess.run(["git", "-C", "/repo", "worktree", "add", "--detach", wt], check=True, capture_output=True)
    try:
        path = os.path.join(wt, m["file"])
        s = open(path).read()
        if s.count(m["old"]) != 1:
            return name, "PATTERN-NOT-UNIQUE(%d)" % s.count(m["old"]), {}
        open(path, "w").write(s.replace(m["old"], m["new"]))
        t = subprocess.run(["go", "test", "-vet=off", "-count=1", "./..."], cwd=wt, env=ENV, capture_output=True, text=True)
        tests = "tests-pass" if t.returncode == 0 else "tests-FAIL"
        res = {}
        for p in m["props"]:
            r = subprocess.run([os.path.join(ROOT, "check"), p], cwd=ROOT, env=dict(ENV, VERIF_REPO=wt, VERIF_NOEVIDENCE="1"), capture_output=True, text=True)
            res[p] = r.returncode
        return name, tests, res
    finally:
        subprocess.run(["git", "-C", "/repo", "worktree", "remove", "--force", wt], capture_output=True)

if __name__ == "__main__":
    names = sys.argv[1:] or sorted(MUTANTS)
    bad = 0
    for n in names:
        name, tests, res = run(n, MUTANTS[n])
        ok = all(v == 1 for v in res.values()) and res
        print("%-34s %-11s %s %s" % (name, tests, res, "DETECTED" if ok else "MISSED"), flush=True)
        bad += 0 if ok else 1
    sys.exit(1 if bad else 0)
