#!/usr/bin/env python3
"""False-alarm test: apply a property-PRESERVING change in a scratch worktree and run checks; every check must exit 0.
usage: selftest/benign.py <id> <diff> <meta.txt> <prop> [prop...]      (meta.txt line 1: `properties: Cxx,Cyy`)
       selftest/benign.py --rerun <id> [prop...]
Stores the change under /verif/selftest/benign/<id>/ (patch.diff, meta.json). Never touches /repo's working tree."""
import json, os, shutil, subprocess, sys
ROOT = os.path.dirname(os.path.dirname(os.path.abspath(__file__)))
ENV = dict(os.environ, GOFLAGS="-mod=mod", GOPROXY="off", GOSUMDB="off", GOTOOLCHAIN="local")


def sh(cmd, cwd, env=ENV):
    return subprocess.run(cmd, cwd=cwd, env=env, capture_output=True, text=True)


def main():
    if sys.argv[1] == "--rerun":
        bid = sys.argv[2]
        d = os.path.join(ROOT, "selftest", "benign", bid)
        mj = json.load(open(os.path.join(d, "meta.json")))
        diff, note = os.path.join(d, "patch.diff"), mj["note"]
        props = sys.argv[3:] or mj["props"]
    else:
        bid, diff, meta = sys.argv[1:4]
        props = sys.argv[4:]
        note = open(meta).read().strip()
        d = os.path.join(ROOT, "selftest", "benign", bid)
    wt = "/tmp/benignwt-%s-%d" % (bid, os.getpid())
    subprocess.run(["git", "-C", "/repo", "worktree", "add", "--detach", wt], check=True, capture_output=True)
    out = {"id": bid, "props": props}
    try:
        a = sh(["git", "apply", os.path.abspath(diff)], wt)
        out["applies"] = a.returncode == 0
        if a.returncode != 0:
            out["apply_err"] = a.stderr[-500:]
        else:
            r = sh(["go", "test", "-vet=off", "-count=1", "./..."], wt)
            out["suite_passes_with_change"] = r.returncode == 0
            r = sh(["go", "build", "-tags", "verif", "./..."], wt)
            out["builds_with_tag"] = r.returncode == 0
            out["checks"] = {}
            for p in props:
                r = subprocess.run([os.path.join(ROOT, "check"), p], cwd=ROOT, env=dict(ENV, VERIF_REPO=wt, VERIF_NOEVIDENCE="1"), capture_output=True, text=True)
                lines = [l for l in r.stdout.splitlines() if l.startswith(("VIOLATION", "INFRA", "SUMMARY", "KNOWN-FINDING"))]
                out["checks"][p] = {"exit": r.returncode, "lines": [l[:400] for l in lines[:6]]}
            out["quiet"] = all(c["exit"] == 0 for c in out["checks"].values())
            os.makedirs(d, exist_ok=True)
            if os.path.abspath(diff) != os.path.abspath(os.path.join(d, "patch.diff")):
                shutil.copy(diff, os.path.join(d, "patch.diff"))
            json.dump({"id": bid, "note": note, "props": props, "suite_passes_with_change": out["suite_passes_with_change"],
                       "checks": out["checks"], "quiet": out["quiet"]}, open(os.path.join(d, "meta.json"), "w"), indent=1)
    finally:
        subprocess.run(["git", "-C", "/repo", "worktree", "remove", "--force", wt], capture_output=True)
    print(json.dumps(out, indent=1))


if __name__ == "__main__":
    main()
