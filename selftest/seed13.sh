#!/bin/sh
# evaluate round-11 seeds of one agent directory: selftest/seed3.sh <letter>
L=$1
for i in 1 2 3; do
  d=/tmp/seed13/$L/out
  [ -f $d/change_$i.diff ] || continue
  dd=$(sed -n 1p $d/meta_$i.txt | sed 's/demo_dir: *//')
  pr=$(sed -n 2p $d/meta_$i.txt | sed 's/property: *//' | cut -c1-3)
  (cd /verif && selftest/seed.py RD$L-$i $pr $d/change_$i.diff $d/demo_${i}_test.go $dd $d/meta_$i.txt > /tmp/seed13/r_RD$L-$i.json 2>&1 &)
done
