#!/usr/bin/env python3
"""Systematic mutation run: classic mutation operators (relational / arithmetic / logical / bit operators,
constants +-1, boolean flip, statement deletion) applied one at a time to the non-test sources of pion/rtp in
scratch worktrees (never in /repo). Phase 1 keeps the mutants that still compile and pass the repository's own
test suite; phase 2 runs the quick checks of the properties anchored in the mutated file against each survivor.
usage: selftest/mutgen.py gen [per_file]      -> /tmp/mutgen/survivors.json
       selftest/mutgen.py run [jobs]          -> selftest/mutgen_results.json
A survivor no check reports is either an equivalent mutant or a gap: triage by hand (DESIGN 9.6)."""
import json, os, random, re, subprocess, sys, concurrent.futures
ROOT = os.path.dirname(os.path.dirname(os.path.abspath(__file__)))
ENV = dict(os.environ, GOFLAGS="-mod=mod", GOPROXY="off", GOSUMDB="off", GOTOOLCHAIN="local")
OUT = "/tmp/mutgen"
FILES = {
    "packet.go": ["C01", "C02", "C03", "C04", "C05", "C20"],
    "header_extension.go": ["C03"],
    "packetizer.go": ["C06"],
    "sequencer.go": ["C07"],
    "abssendtimeextension.go": ["C17", "C18", "C06"],
    "abscapturetimeextension.go": ["C17", "C18"],
    "audiolevelextension.go": ["C17"],
    "playoutdelayextension.go": ["C17"],
    "transportccextension.go": ["C17"],
    "vlaextension.go": ["C19"],
    "codecs/common.go": ["C16", "C08", "C09"],
    "codecs/g711_packet.go": ["C16", "C08"],
    "codecs/g722_packet.go": ["C16", "C08"],
    "codecs/opus_packet.go": ["C16", "C08", "C09"],
    "codecs/h264_packet.go": ["C10", "C08", "C09", "C15"],
    "codecs/h265_packet.go": ["C14", "C08", "C09"],
    "codecs/vp8_packet.go": ["C11", "C08", "C09"],
    "codecs/vp9_packet.go": ["C12", "C08", "C09"],
    "codecs/vp9/header.go": ["C12", "C08"],
    "codecs/vp9/bits.go": ["C12", "C08"],
    "codecs/av1_packet.go": ["C13", "C08", "C09"],
    "codecs/av1_depacketizer.go": ["C13", "C09", "C15"],
    "codecs/av1/obu/leb128.go": ["C13", "C19"],
    "codecs/av1/obu/obu.go": ["C13"],
    "codecs/av1/frame/av1.go": ["C13"],
}
OPS = [(r" <= ", " < "), (r" < ", " <= "), (r" >= ", " > "), (r" > ", " >= "), (r" == ", " != "), (r" != ", " == "),
       (r" && ", " || "), (r" \|\| ", " && "), (r" \+ ", " - "), (r" - ", " + "), (r" << ", " >> "), (r" >> ", " << "),
       (r" & ", " | "), (r" \| ", " & "), (r"\btrue\b", "false"), (r"\bfalse\b", "true"), (r"\+\+$", "--"), (r" \+= ", " -= ")]


def sh(cmd, cwd, timeout=120):
    try:
        return subprocess.run(cmd, cwd=cwd, env=ENV, capture_output=True, text=True, timeout=timeout)
    except subprocess.TimeoutExpired:
        class R: returncode = 124; stdout = ""; stderr = "timeout"
        return R()


def mutants_of(path, src, per_file, rng):
    lines = src.split("\n")
    cands = []
    in_block = False
    for i, ln in enumerate(lines):
        s = ln.strip()
        if s.startswith("/*"):
            in_block = True
        if in_block:
            if "*/" in s:
                in_block = False
            continue
        if not s or s.startswith("//") or s.startswith("import") or s.startswith("package") or "errors.New" in s or "nolint" in s and s.startswith("//"):
            continue
        code = ln.split("//")[0]
        for pat, rep in OPS:
            for m in re.finditer(pat, code):
                cands.append((i, "op", code[:m.start()] + rep + code[m.end():] + ln[len(code):], "%s -> %s" % (pat.strip(), rep.strip())))
        for m in re.finditer(r"(?<![\w.])(0x[0-9a-fA-F]+|\d+)(?![\w.])", code):
            tok = m.group(1)
            v = int(tok, 0)
            for d in (1, -1):
                if v + d < 0:
                    continue
                new = hex(v + d) if tok.startswith("0x") else str(v + d)
                cands.append((i, "const", code[:m.start(1)] + new + code[m.end(1):] + ln[len(code):], "%s -> %s" % (tok, new)))
        if re.match(r"^\s*[\w.\[\]\*]+(\s*,\s*[\w.\[\]]+)*\s*(=|\+=|-=|\|=|&=|<<=|>>=)\s*[^=].*$", code) and ":=" not in code and not s.endswith("{") and not s.endswith(","):
            cands.append((i, "del", re.match(r"^\s*", ln).group(0) + "_ = 0 // deleted: " + s, "delete statement"))
        if re.match(r"^\s*[\w.\[\]]+(\+\+|--)\s*$", code):
            cands.append((i, "del", re.match(r"^\s*", ln).group(0) + "_ = 0 // deleted: " + s, "delete statement"))
    rng.shuffle(cands)
    out = []
    seen = set()
    for i, kind, newline, what in cands:
        if (i, newline) in seen or newline == lines[i]:
            continue
        seen.add((i, newline))
        out.append(dict(file=path, line=i + 1, kind=kind, what=what, old=lines[i], new=newline))
        if len(out) >= per_file:
            break
    return out


def gen(per_file):
    os.makedirs(OUT, exist_ok=True)
    wt = OUT + "/wt"
    subprocess.run(["git", "-C", "/repo", "worktree", "remove", "--force", wt], capture_output=True)
    subprocess.run(["git", "-C", "/repo", "worktree", "add", "--detach", wt], check=True, capture_output=True)
    rng = random.Random(int(os.environ.get("VERIF_SEED", "1")))
    survivors, stats = [], dict(generated=0, build_fail=0, killed_by_tests=0, survived=0)
    try:
        for path in FILES:
            full = os.path.join(wt, path)
            src = open(full).read()
            for m in mutants_of(path, src, per_file, rng):
                stats["generated"] += 1
                lines = src.split("\n")
                lines[m["line"] - 1] = m["new"]
                open(full, "w").write("\n".join(lines))
                b = sh(["go", "build", "./..."], wt)
                if b.returncode == 0:
                    b = sh(["go", "build", "-tags", "verif", "./..."], wt)
                if b.returncode != 0:
                    stats["build_fail"] += 1
                else:
                    t = sh(["go", "test", "-vet=off", "-count=1", "-timeout", "60s", "./..."], wt, timeout=180)
                    if t.returncode != 0:
                        stats["killed_by_tests"] += 1
                    else:
                        stats["survived"] += 1
                        m["id"] = "M%04d" % stats["generated"]
                        survivors.append(m)
                open(full, "w").write(src)
            print(path, stats, flush=True)
    finally:
        subprocess.run(["git", "-C", "/repo", "worktree", "remove", "--force", wt], capture_output=True)
    json.dump(dict(stats=stats, survivors=survivors), open(OUT + "/survivors.json", "w"), indent=1)


def run_one(m):
    wt = "%s/wt-%s" % (OUT, m["id"])
    subprocess.run(["git", "-C", "/repo", "worktree", "add", "--detach", wt], check=True, capture_output=True)
    try:
        full = os.path.join(wt, m["file"])
        lines = open(full).read().split("\n")
        if lines[m["line"] - 1] != m["old"]:
            return dict(m, checks={}, note="source changed")
        lines[m["line"] - 1] = m["new"]
        open(full, "w").write("\n".join(lines))
        res = {}
        for p in FILES[m["file"]]:
            r = subprocess.run([os.path.join(ROOT, "check"), p], cwd=ROOT, env=dict(ENV, VERIF_REPO=wt, VERIF_NOEVIDENCE="1"), capture_output=True, text=True)
            first = [l for l in r.stdout.splitlines() if l.startswith(("VIOLATION", "INFRA"))][:1]
            res[p] = dict(exit=r.returncode, line=first[0][:200] if first else "")
            if r.returncode == 1:
                break   # detected: no need to run the remaining checks
        return dict(m, checks=res, detected=any(c["exit"] == 1 for c in res.values()))
    finally:
        subprocess.run(["git", "-C", "/repo", "worktree", "remove", "--force", wt], capture_output=True)


def run(jobs):
    d = json.load(open(OUT + "/survivors.json"))
    results = []
    with concurrent.futures.ThreadPoolExecutor(max_workers=jobs) as ex:
        for r in ex.map(run_one, d["survivors"]):
            results.append(r)
            print(r["id"], r["file"], r["line"], r["what"], "DETECTED" if r.get("detected") else "survives-checks", {p: c["exit"] for p, c in r["checks"].items()}, flush=True)
    json.dump(dict(stats=d["stats"], results=results), open(os.path.join(ROOT, "selftest", "mutgen_results%s.json" % ("" if os.environ.get("VERIF_SEED", "1") == "1" else "_seed" + os.environ["VERIF_SEED"])), "w"), indent=1)
    det = sum(1 for r in results if r.get("detected"))
    print("survivors of the repository's tests: %d; reported by the checks: %d; not reported: %d" % (len(results), det, len(results) - det))


if __name__ == "__main__":
    if sys.argv[1] == "gen":
        gen(int(sys.argv[2]) if len(sys.argv) > 2 else 25)
    else:
        run(int(sys.argv[2]) if len(sys.argv) > 2 else 4)
