#!/bin/sh
# evaluate the benign changes of one agent directory against the group's checks: selftest/benign.sh <letter> <props...>
L=$1; shift
for i in 1 2 3 4; do
  d=/tmp/benign2/$L/out
  [ -f $d/change_$i.diff ] || continue
  (cd /verif && selftest/benign.py B2$L-$i $d/change_$i.diff $d/meta_$i.txt "$@" > /tmp/benign2/r_B2$L-$i.json 2>&1 &)
done
