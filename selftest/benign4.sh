#!/bin/sh
# evaluate the benign changes of one agent directory against the group's checks: selftest/benign.sh <letter> <props...>
L=$1; shift
for i in 1 2 3 4; do
  d=/tmp/benign4/$L/out
  [ -f $d/change_$i.diff ] || continue
  (cd /verif && selftest/benign.py B4$L-$i $d/change_$i.diff $d/meta_$i.txt "$@" > /tmp/benign4/r_B4$L-$i.json 2>&1 &)
done
