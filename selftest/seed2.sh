#!/bin/sh
# evaluate round-2 seeds of one agent directory: selftest/seed2.sh <letter>
# reads out/meta_i.txt (line 1 "demo_dir: X", line 2 "property: Cxx")
L=$1
for i in 1 2 3; do
  d=/tmp/seed2/$L/out
  [ -f $d/change_$i.diff ] || continue
  dd=$(sed -n 1p $d/meta_$i.txt | sed 's/demo_dir: *//')
  pr=$(sed -n 2p $d/meta_$i.txt | sed 's/property: *//' | cut -c1-3)
  (cd /verif && selftest/seed.py R2$L-$i $pr $d/change_$i.diff $d/demo_${i}_test.go $dd $d/meta_$i.txt > /tmp/seed2/r_R2$L-$i.json 2>&1 &)
done
