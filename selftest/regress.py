#!/usr/bin/env python3
"""Detection regression: apply every stored seed in a scratch worktree and run only the check(s) that reported it before.
usage: selftest/regress.py [jobs]   -> prints seeds that are no longer reported"""
import json, os, subprocess, sys, glob, concurrent.futures
ROOT = os.path.dirname(os.path.dirname(os.path.abspath(__file__)))
ENV = dict(os.environ, GOFLAGS="-mod=mod", GOPROXY="off", GOSUMDB="off", GOTOOLCHAIN="local", VERIF_NOEVIDENCE="1")

def one(d):
    m = json.load(open(os.path.join(d, "meta.json")))
    props = [p for p, v in m["detected_by"].items() if v]
    if not props:
        return m["id"], "never-detected", {}
    wt = "/tmp/regwt-%s-%d" % (m["id"], os.getpid())
    subprocess.run(["git", "-C", "/repo", "worktree", "add", "--detach", wt], check=True, capture_output=True)
    try:
        a = subprocess.run(["git", "apply", os.path.join(d, "patch.diff")], cwd=wt, capture_output=True, text=True)
        if a.returncode != 0:
            return m["id"], "patch-stale", {}
        res = {}
        for p in props[:1]:
            r = subprocess.run([os.path.join(ROOT, "check"), p], cwd=ROOT, env=dict(ENV, VERIF_REPO=wt), capture_output=True, text=True)
            res[p] = r.returncode
        return m["id"], "ok" if all(v == 1 for v in res.values()) else "LOST", res
    finally:
        subprocess.run(["git", "-C", "/repo", "worktree", "remove", "--force", wt], capture_output=True)

if __name__ == "__main__":
    jobs = int(sys.argv[1]) if len(sys.argv) > 1 else 6
    ds = sorted(glob.glob(os.path.join(ROOT, "seeded", "*")))
    with concurrent.futures.ThreadPoolExecutor(max_workers=jobs) as ex:
        for sid, status, res in ex.map(one, ds):
            print(sid, status, res, flush=True)
