#!/bin/sh
# Which statements of pion/rtp does the conformance harness execute? ("the specification decides nothing about code it
# never observes"). Builds the harness with Go's coverage instrumentation for github.com/pion/rtp/..., runs the quick
# tier of every listed property and every growth family, and prints per-function and total statement coverage.
# usage: selftest/coverage.sh [outfile]      (scratch data under /tmp/verif-cover, removed afterwards)
cd "$(dirname "$0")/.." || exit 2
D=/tmp/verif-cover; rm -rf $D; mkdir -p $D
export VERIF_COVER=1 GOCOVERDIR=$D VERIF_NOEVIDENCE=1 GOFLAGS=-mod=mod GOPROXY=off GOSUMDB=off GOTOOLCHAIN=local
for p in C01 C02 C03 C04 C05 C06 C07 C08 C09 C10 C11 C12 C13 C14 C15 C16 C17 C18 C19 C20 G01 G02 G03 G04 G05 G06 G07 G08 G09; do
  ./check $p | tail -1
done
OUT=${1:-selftest/coverage.txt}
go tool covdata func -i=$D | grep "^github.com/pion/rtp\|^total" | grep -v "_verif.go\|verif_export.go" > $OUT
# the blocks never executed (file:from,to statements count)
go tool covdata textfmt -i=$D -o $D/prof.txt
grep "^github.com/pion/rtp" $D/prof.txt | grep -v "_verif.go\|verif_export.go" | awk '$NF==0 {print $1, $2}' | sort -u > ${OUT%.txt}_unreached.txt
wc -l ${OUT%.txt}_unreached.txt
go tool covdata percent -i=$D | grep "pion/rtp"
rm -rf $D
