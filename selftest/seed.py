#!/usr/bin/env python3
"""Confirm and store a seeded breaking change, then run the named checks against it.
usage: selftest/seed.py <seed-id> <property> <diff> <demo_test.go> <demo-dir (. or codecs)> <meta.txt> [extra props...]
Everything happens in a scratch worktree under /tmp (never in /repo)."""
import json, os, shutil, subprocess, sys, time
ROOT = os.path.dirname(os.path.dirname(os.path.abspath(__file__)))
ENV = dict(os.environ, GOFLAGS="-mod=mod", GOPROXY="off", GOSUMDB="off", GOTOOLCHAIN="local")

def sh(cmd, cwd, env=ENV):
    return subprocess.run(cmd, cwd=cwd, env=env, capture_output=True, text=True)

def main():
    if sys.argv[1] == "--rerun":
        # re-evaluate a stored seed: selftest/seed.py --rerun <seed-id> [extra props...]
        sid = sys.argv[2]
        d = os.path.join(ROOT, "seeded", sid)
        mj = json.load(open(os.path.join(d, "meta.json")))
        prop, demodir = mj["breaks"], mj["demo_dir"]
        diff = os.path.join(d, "patch.diff")
        demo = [os.path.join(d, f) for f in os.listdir(d) if f.endswith("_test.go")][0]
        meta = os.path.join("/tmp", "seedmeta-%s.txt" % sid)
        open(meta, "w").write(mj["needs"])
        props = [prop] + sys.argv[3:]
    else:
        sid, prop, diff, demo, demodir, meta = sys.argv[1:7]
        props = [prop] + sys.argv[7:]
    wt = "/tmp/seedwt-%s-%d" % (sid, os.getpid())
    subprocess.run(["git", "-C", "/repo", "worktree", "add", "--detach", wt], check=True, capture_output=True)
    out = {"seed": sid, "property": prop}
    try:
        demo_dst = os.path.join(wt, demodir, "zz_seed_demo_test.go")
        # unchanged tree: demo passes
        shutil.copy(demo, demo_dst)
        r = sh(["go", "test", "-vet=off", "-count=1", "-run", "Demo", "./" + demodir], wt)
        out["demo_passes_unchanged"] = r.returncode == 0
        os.remove(demo_dst)
        a = sh(["git", "apply", os.path.abspath(diff)], wt)
        out["applies"] = a.returncode == 0
        if a.returncode != 0:
            out["apply_err"] = a.stderr[-500:]
        else:
            r = sh(["go", "test", "-vet=off", "-count=1", "./..."], wt)
            out["suite_passes_with_change"] = r.returncode == 0
            shutil.copy(demo, demo_dst)
            r = sh(["go", "test", "-vet=off", "-count=1", "-run", "Demo", "./" + demodir], wt)
            out["demo_fails_with_change"] = r.returncode != 0
            os.remove(demo_dst)
            out["checks"] = {}
            for p in props:
                r = subprocess.run([os.path.join(ROOT, "check"), p], cwd=ROOT, env=dict(ENV, VERIF_REPO=wt, VERIF_NOEVIDENCE="1"), capture_output=True, text=True)
                lines = [l for l in r.stdout.splitlines() if l.startswith(("VIOLATION", "INFRA", "SUMMARY"))]
                out["checks"][p] = {"exit": r.returncode, "lines": [l[:300] for l in lines[:4]]}
        confirmed = out.get("demo_passes_unchanged") and out.get("applies") and out.get("suite_passes_with_change") and out.get("demo_fails_with_change")
        out["confirmed"] = bool(confirmed)
        if confirmed:
            d = os.path.join(ROOT, "seeded", sid)
            os.makedirs(d, exist_ok=True)
            if os.path.abspath(diff) != os.path.abspath(os.path.join(d, "patch.diff")):
                shutil.copy(diff, os.path.join(d, "patch.diff"))
                shutil.copy(demo, os.path.join(d, os.path.basename(demo)))
            json.dump({"id": sid, "breaks": prop, "needs": open(meta).read().strip(), "demo_dir": demodir,
                       "ran": ["git apply patch.diff (scratch worktree)", "go test -vet=off -count=1 ./... (passes with the change)",
                               "go test -run Demo ./%s (fails with the change, passes without)" % demodir] + ["./check %s (VERIF_REPO=scratch)" % p for p in props],
                       "detected_by": {p: c["exit"] == 1 for p, c in out["checks"].items()},
                       "check_output": out["checks"]}, open(os.path.join(d, "meta.json"), "w"), indent=1)
    finally:
        subprocess.run(["git", "-C", "/repo", "worktree", "remove", "--force", wt], capture_output=True)
    print(json.dumps(out, indent=1))

if __name__ == "__main__":
    main()
